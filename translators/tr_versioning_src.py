"""tr_versioning_src -- the choices of stix2/versioning.py read from the SOURCE TEXT (Gen/VersioningSrc.v).

The hand-written model coq/Model/Versioning.v (property C05) fixes what `_fudge_modified` compares and
by how much it pushes, in which order `new_version` makes its checks (version / revoked / unmodifiable
and SCO-locked properties / timestamps / update), how the caller-supplied `modified` is compared, with
which precision arguments the two timestamps are parsed, what `revoke` and `_check_versionable_object`
test.  The model is tied to the behaviour of the code by the correspondence run; this translator reads
the same choices from the `ast` of stix2/versioning.py and writes them as a Gallina record
`src_cfg : vsrc` (coq/Model/VersioningCfg.v), so that Props/C05Src.v states the strictness and refusal
obligations for the instance the *text* denotes: a regression of the text to another recognised choice
(`<` for `<=`, another threshold, a check moved or removed, a list dropped from the chain ...) breaks an
obligation by name.

Fail closed: every site must have one of the recognised shapes; anything else raises TranslateError
naming the function and the site, and nothing is written.
"""
import ast
import os


class TranslateError(Exception):
    pass


CMP = {ast.Lt: "CLt", ast.LtE: "CLe", ast.Gt: "CGt", ast.GtE: "CGe", ast.Eq: "CEq", ast.NotEq: "CNe"}
UNITS = {"microseconds": 1, "milliseconds": 1000, "seconds": 1000000, "minutes": 60000000, "hours": 3600000000,
         "days": 86400000000}


def up(e):
    return ast.unparse(e)


def body_of(fn):
    b = fn.body
    if b and isinstance(b[0], ast.Expr) and isinstance(getattr(b[0], "value", None), ast.Constant) and isinstance(b[0].value.value, str):
        return b[1:]
    return b


def fail(fn, what):
    raise TranslateError("stix2/versioning.py:%s: %s" % (fn, what))


def timedelta_us(e, env, fn):
    """microseconds denoted by dt.timedelta(<unit>=<int>) or by a name bound to one"""
    if isinstance(e, ast.Name) and e.id in env:
        return env[e.id]
    if isinstance(e, ast.Call) and up(e.func) in ("dt.timedelta", "datetime.timedelta", "timedelta") and not e.args \
            and len(e.keywords) == 1 and e.keywords[0].arg in UNITS and isinstance(e.keywords[0].value, ast.Constant) \
            and type(e.keywords[0].value.value) is int:
        return UNITS[e.keywords[0].arg] * e.keywords[0].value.value
    fail(fn, "not a recognised timedelta: %s" % up(e))


def one_compare(e, fn):
    if not (isinstance(e, ast.Compare) and len(e.ops) == 1 and type(e.ops[0]) in CMP):
        fail(fn, "not a single comparison: %s" % up(e))
    return e.left, CMP[type(e.ops[0])], e.comparators[0]


FLIP = {"CLt": "CGt", "CLe": "CGe", "CGt": "CLt", "CGe": "CLe", "CEq": "CEq", "CNe": "CNe"}


def oriented(e, fn, a, b):
    """the comparison `a <cmp> b` denoted by e, written either way round"""
    left, op, right = one_compare(e, fn)
    if up(left) == a and up(right) == b:
        return op
    if up(left) == b and up(right) == a:
        return FLIP[op]
    fail(fn, "the test does not compare %s with %s: %s" % (a, b, up(e)))


def fudge(fn):
    """if use_stix21: if new <cmp> old: new = old + td  else: [one_ms = td;] if new - old <cmp> td: new = old + td; return new"""
    name = "_fudge_modified"
    args = [a.arg for a in fn.args.args]
    if len(args) != 3:
        fail(name, "expected three parameters")
    old, new, flag = args
    b = list(body_of(fn))
    # an optional first statement that moves an aware old time to UTC before the arithmetic:
    #   if <old>.utcoffset() is not None: <old> = <old>.astimezone(<utc>)
    utc_first = False
    if b and isinstance(b[0], ast.If) and up(b[0].test) == "%s.utcoffset() is not None" % old and len(b[0].body) == 1 \
            and not b[0].orelse and isinstance(b[0].body[0], ast.Assign) and up(b[0].body[0].targets[0]) == old \
            and up(b[0].body[0].value) in ("%s.astimezone(dt.timezone.utc)" % old, "%s.astimezone(pytz.utc)" % old):
        utc_first = True
        b = b[1:]
    if not (len(b) == 2 and isinstance(b[0], ast.If) and isinstance(b[0].test, ast.Name) and b[0].test.id == flag
            and isinstance(b[1], ast.Return) and isinstance(b[1].value, ast.Name) and b[1].value.id == new):
        fail(name, "unrecognised shape (if <flag>: ... else: ...; return <new>)")

    def branch(stmts, minus):
        env = {}
        stmts = list(stmts)
        while stmts and isinstance(stmts[0], ast.Assign) and len(stmts[0].targets) == 1 and isinstance(stmts[0].targets[0], ast.Name) \
                and stmts[0].targets[0].id not in (old, new):
            env[stmts[0].targets[0].id] = timedelta_us(stmts[0].value, env, name)
            stmts.pop(0)
        if not (len(stmts) == 1 and isinstance(stmts[0], ast.If) and not stmts[0].orelse and len(stmts[0].body) == 1):
            fail(name, "unrecognised branch: %s" % "; ".join(up(s) for s in stmts))
        left, op, right = one_compare(stmts[0].test, name)
        a = stmts[0].body[0]
        if not (isinstance(a, ast.Assign) and up(a.targets[0]) == new and isinstance(a.value, ast.BinOp) and isinstance(a.value.op, ast.Add)
                and up(a.value.left) == old):
            fail(name, "the push is not `%s = %s + <timedelta>`: %s" % (new, old, up(a)))
        push = timedelta_us(a.value.right, env, name)
        if minus:
            if not (isinstance(left, ast.BinOp) and isinstance(left.op, ast.Sub) and up(left.left) == new and up(left.right) == old):
                fail(name, "the test is not `%s - %s <cmp> <timedelta>`: %s" % (new, old, up(stmts[0].test)))
            return op, timedelta_us(right, env, name), push
        return oriented(stmts[0].test, name, new, old), None, push

    c21, _, p21 = branch(b[0].body, False)
    c20, t20, p20 = branch(b[0].orelse, True)
    return {"f21_cmp": c21, "f21_push": p21, "f20_cmp": c20, "f20_threshold": t20, "f20_push": p20, "fudge_utc_first": utc_first}


def contains_call(node, fname):
    return any(isinstance(n, ast.Call) and up(n.func) == fname for n in ast.walk(node))


def new_version(fn):
    name = "new_version"
    b = body_of(fn)
    out = {}

    def index(pred, what, required=True):
        hits = [i for i, s in enumerate(b) if pred(s)]
        if len(hits) > 1:
            fail(name, "%s occurs %d times" % (what, len(hits)))
        if not hits:
            if required:
                fail(name, "%s not found" % what)
            return -1
        return hits[0]

    out["i_check"] = index(lambda s: isinstance(s, ast.Assign) and contains_call(s.value, "_check_versionable_object"),
                           "the call of _check_versionable_object")
    # the revoked test: a top-level `if data.get('revoked'): raise RevokeError(...)`; absent -> -1 (an obligation fails)
    out["i_revoked"] = index(lambda s: isinstance(s, ast.If) and up(s.test) == "data.get('revoked')" and len(s.body) == 1
                             and isinstance(s.body[0], ast.Raise) and up(s.body[0].exc).startswith("RevokeError(") and not s.orelse,
                             "the revoked test", required=False)
    out["i_copy"] = index(lambda s: contains_call(s, "copy.deepcopy"), "the deep copy of the properties", required=False)
    # the unmodifiable loop
    i = index(lambda s: isinstance(s, ast.For), "the loop over the unmodifiable properties")
    loop = b[i]
    out["i_unmod"] = i
    if not (isinstance(loop.iter, ast.Call) and up(loop.iter.func) in ("itertools.chain", "chain")):
        if isinstance(loop.iter, ast.Name):
            lists = [loop.iter.id]
        else:
            fail(name, "the unmodifiable loop does not iterate a chain of lists: %s" % up(loop.iter))
    else:
        lists = [up(a) for a in loop.iter.args]
    out["unmod_lists"] = lists
    if not (len(loop.body) == 1 and isinstance(loop.body[0], ast.If) and not loop.body[0].orelse):
        fail(name, "unrecognised body of the unmodifiable loop")
    out["unmod_test"] = up(loop.body[0].test)
    nxt = b[i + 1] if i + 1 < len(b) else None
    if not (isinstance(nxt, ast.If) and len(nxt.body) == 1 and isinstance(nxt.body[0], ast.Raise)
            and up(nxt.body[0].exc).startswith("UnmodifiablePropertyError(")):
        fail(name, "the unmodifiable loop is not followed by `if ...: raise UnmodifiablePropertyError`")
    # SCO locking
    j = index(lambda s: isinstance(s, ast.If) and isinstance(s.test, ast.Call) and up(s.test.func) == "is_sco", "the is_sco test")
    t = b[j].test
    if not (len(t.args) == 2 and isinstance(t.args[1], ast.Constant)):
        fail(name, "is_sco is not called with (data, <version>)")
    out["sco_version"] = t.args[1].value
    inner = [s for s in b[j].body if isinstance(s, ast.If)]
    if len(inner) != 1:
        fail(name, "unrecognised body of the is_sco branch")
    out["sco_uuid_test"] = up(inner[0].test)
    if not any(isinstance(n, ast.Assign) and up(n.targets[0]) == "sco_locked_props" and up(n.value) == "cls._id_contributing_properties"
               for n in ast.walk(inner[0])):
        fail(name, "sco_locked_props is not set to cls._id_contributing_properties")
    # precision constraint
    k = index(lambda s: isinstance(s, ast.Assign) and up(s.targets[0]) == "precision_constraint", "precision_constraint = ...")
    v = b[k].value
    if not (isinstance(v, ast.IfExp) and isinstance(v.body, ast.Constant) and isinstance(v.orelse, ast.Constant)):
        fail(name, "precision_constraint is not `<c> if <test> else <c>`")
    out["constraint_21"], out["constraint_test"], out["constraint_else"] = v.body.value, up(v.test), v.orelse.value

    constraints = []

    def parse_call(e, what):
        if not (isinstance(e, ast.Call) and up(e.func) == "parse_into_datetime" and len(e.args) == 1):
            fail(name, "%s is not parse_into_datetime(<value>, precision=, precision_constraint=)" % what)
        kw = {x.arg: x.value for x in e.keywords}
        if not set(kw) <= {"precision", "precision_constraint"}:
            fail(name, "unrecognised keyword arguments of %s: %s" % (what, up(e)))
        prec = kw.get("precision")
        if prec is not None and not (isinstance(prec, ast.Constant) and isinstance(prec.value, str)):
            fail(name, "precision of %s is not a string literal: %s" % (what, up(e)))
        constraints.append(up(kw["precision_constraint"]) if "precision_constraint" in kw else "<default>")
        return e.args[0], (prec.value if prec is not None else "<default>")

    # old_modified
    src = index(lambda s: isinstance(s, ast.Assign) and up(s.targets[0]) == "old_modified" and isinstance(s.value, ast.BoolOp), "old_modified = ... or ...")
    bo = b[src].value
    if not (isinstance(bo.op, ast.Or) and all(isinstance(x, ast.Call) and up(x.func) == "data.get" and len(x.args) == 1
                                              and isinstance(x.args[0], ast.Constant) for x in bo.values)):
        fail(name, "old_modified is not data.get(..) or data.get(..)")
    out["old_sources"] = [x.args[0].value for x in bo.values]
    po = index(lambda s: isinstance(s, ast.Assign) and up(s.targets[0]) == "old_modified" and isinstance(s.value, ast.Call), "old_modified = parse_into_datetime(...)")
    arg, prec_old = parse_call(b[po].value, "old_modified")
    if up(arg) != "old_modified" or po < src:
        fail(name, "old_modified is not parsed from the value selected before")
    out["i_parse_old"] = po
    # the branch on a supplied modified
    br = index(lambda s: isinstance(s, ast.If) and up(s.test) == "'modified' in kwargs", "if 'modified' in kwargs")
    out["i_branch"] = br
    yes, no = b[br].body, b[br].orelse
    if not (len(yes) == 2 and isinstance(yes[0], ast.Assign) and up(yes[0].targets[0]) == "new_modified" and isinstance(yes[1], ast.If)
            and len(yes[1].body) == 1 and isinstance(yes[1].body[0], ast.Raise) and not yes[1].orelse):
        fail(name, "unrecognised supplied-modified branch")
    arg, prec_new = parse_call(yes[0].value, "the supplied modified")
    if up(arg) != "kwargs['modified']":
        fail(name, "the supplied modified is not kwargs['modified']")
    out["supplied_cmp"] = oriented(yes[1].test, name, "new_modified", "old_modified")
    out["supplied_raises"] = up(yes[1].body[0].exc.func) if isinstance(yes[1].body[0].exc, ast.Call) else up(yes[1].body[0].exc)
    out["parse_precision"] = [prec_old, prec_new]
    out["parse_constraint"] = constraints
    if not (len(no) == 3 and all(isinstance(s, ast.Assign) for s in no) and isinstance(no[0].value, ast.Call) and not no[0].value.args
            and up(no[0].targets[0]) == "new_modified" and isinstance(no[1].value, ast.Call) and up(no[1].value.func) == "_fudge_modified"
            and up(no[1].targets[0]) == "new_modified" and up(no[2].targets[0]) == "kwargs['modified']" and up(no[2].value) == "new_modified"):
        fail(name, "unrecognised clock branch")
    out["clock"] = up(no[0].value.func)
    fa = no[1].value.args
    if not (len(fa) == 3 and up(fa[0]) == "old_modified" and up(fa[1]) == "new_modified"):
        fail(name, "_fudge_modified is not called with (old_modified, new_modified, <flag>)")
    out["fudge_flag"] = up(fa[2])
    out["i_update"] = index(lambda s: isinstance(s, ast.Expr) and up(s.value) == "new_obj_inner.update(kwargs)", "new_obj_inner.update(kwargs)")
    ret = b[-1]
    comp = [n for n in ast.walk(ret) if isinstance(n, ast.DictComp)]
    if not (isinstance(ret, ast.Return) and len(comp) == 1 and len(comp[0].generators) == 1 and len(comp[0].generators[0].ifs) == 1
            and up(comp[0].generators[0].iter) == "new_obj_inner.items()" and up(comp[0].key) == "k" and up(comp[0].value) == "v"):
        fail(name, "the result is not built from {k: v for k, v in new_obj_inner.items() if ...}")
    out["none_filter"] = up(comp[0].generators[0].ifs[0])
    return out


def revoke(fn):
    name = "revoke"
    b = body_of(fn)
    tests = []
    for s in b[:-1]:
        if not (isinstance(s, ast.If) and len(s.body) == 1 and isinstance(s.body[0], ast.Raise) and not s.orelse):
            fail(name, "unrecognised guard: %s" % up(s).split("\n")[0])
        exc = s.body[0].exc
        tests.append("%s -> %s" % (up(s.test), up(exc.func) if isinstance(exc, ast.Call) else up(exc)))
    if not (b and isinstance(b[-1], ast.Return)):
        fail(name, "does not end with a return")
    return {"revoke_tests": tests, "revoke_call": up(b[-1].value)}


def check_versionable(fn):
    """the tests and raises of _check_versionable_object, in source order"""
    name = "_check_versionable_object"
    out = []

    def walk(stmts):
        for s in stmts:
            if isinstance(s, ast.If):
                if len(s.body) == 1 and isinstance(s.body[0], ast.Raise) and not s.orelse:
                    exc = s.body[0].exc
                    out.append("%s -> %s" % (up(s.test), up(exc.func) if isinstance(exc, ast.Call) else up(exc)))
                    continue
                out.append(up(s.test))
                walk(s.body)
                if s.orelse:
                    if len(s.orelse) == 1 and isinstance(s.orelse[0], ast.Raise):
                        exc = s.orelse[0].exc
                        out.append("else -> %s" % (up(exc.func) if isinstance(exc, ast.Call) else up(exc)))
                    else:
                        out.append("else")
                        walk(s.orelse)
            elif isinstance(s, ast.Assign):
                if isinstance(s.value, ast.Call):
                    out.append(up(s.value))
                elif isinstance(s.value, ast.Compare):
                    out.append(up(s.value))
                else:
                    fail(name, "unrecognised assignment: %s" % up(s))
            elif isinstance(s, ast.Raise):
                exc = s.exc
                out.append("raise %s" % (up(exc.func) if isinstance(exc, ast.Call) else up(exc)))
            elif isinstance(s, ast.Return):
                pass
            elif isinstance(s, ast.Expr) and isinstance(s.value, ast.Constant):
                pass
            else:
                fail(name, "unrecognised statement: %s" % up(s).split("\n")[0])
    walk(body_of(fn))
    return {"cvo": out}


def coq_str(s):
    if any(ord(c) < 32 or ord(c) > 126 for c in s):
        raise TranslateError("non-ASCII text in a recorded site: %r" % s)
    return '"' + s.replace('"', '""') + '"'


def coq_strs(xs):
    return "[" + "; ".join(coq_str(x) for x in xs) + "]"


def translate(repo, py=None, verif=None):
    path = os.path.join(repo, "stix2", "versioning.py")
    with open(path, encoding="utf-8") as f:
        tree = ast.parse(f.read(), path)
    fns = {n.name: n for n in tree.body if isinstance(n, ast.FunctionDef)}
    for need in ("_fudge_modified", "new_version", "revoke", "_check_versionable_object"):
        if need not in fns:
            raise TranslateError("stix2/versioning.py: function %s not found" % need)
    d = {}
    d.update(fudge(fns["_fudge_modified"]))
    d.update(new_version(fns["new_version"]))
    d.update(revoke(fns["revoke"]))
    d.update(check_versionable(fns["_check_versionable_object"]))
    for k in ("constraint_21", "constraint_else", "sco_version", "supplied_raises", "clock", "fudge_flag", "none_filter",
              "constraint_test", "sco_uuid_test", "unmod_test", "revoke_call"):
        if not isinstance(d[k], str):
            raise TranslateError("stix2/versioning.py: %s is not text: %r" % (k, d[k]))
    text = """(* GENERATED by translators/tr_versioning_src.py from the source text of stix2/versioning.py of the
   repository under check -- do not edit *)
From Coq Require Import ZArith List String.
From V Require Import Model.VersioningCfg.
Import ListNotations.
Open Scope Z_scope. Open Scope string_scope.

Definition src_cfg : vsrc := {|
  s_f21_cmp := %s; s_f21_push := %d;
  s_f20_cmp := %s; s_f20_threshold := %d; s_f20_push := %d;
  s_fudge_utc_first := %s;
  s_i_check := %d; s_i_revoked := (%d); s_i_copy := (%d); s_i_unmod := %d; s_i_parse_old := %d; s_i_branch := %d; s_i_update := %d;
  s_unmod_lists := %s;
  s_unmod_test := %s;
  s_old_sources := %s;
  s_parse_precision := %s;
  s_parse_constraint := %s;
  s_constraint_21 := %s; s_constraint_test := %s; s_constraint_else := %s;
  s_supplied_cmp := %s; s_supplied_raises := %s;
  s_fudge_flag := %s;
  s_clock := %s;
  s_none_filter := %s;
  s_sco_version := %s; s_sco_uuid_test := %s;
  s_revoke_tests := %s;
  s_revoke_call := %s;
  s_cvo := %s
|}.
""" % (d["f21_cmp"], d["f21_push"], d["f20_cmp"], d["f20_threshold"], d["f20_push"], "true" if d["fudge_utc_first"] else "false",
       d["i_check"], d["i_revoked"], d["i_copy"], d["i_unmod"], d["i_parse_old"], d["i_branch"], d["i_update"],
       coq_strs(d["unmod_lists"]), coq_str(d["unmod_test"]), coq_strs(d["old_sources"]), coq_strs(d["parse_precision"]), coq_strs(d["parse_constraint"]),
       coq_str(d["constraint_21"]), coq_str(d["constraint_test"]), coq_str(d["constraint_else"]),
       d["supplied_cmp"], coq_str(d["supplied_raises"]), coq_str(d["fudge_flag"]), coq_str(d["clock"]), coq_str(d["none_filter"]),
       coq_str(d["sco_version"]), coq_str(d["sco_uuid_test"]), coq_strs(d["revoke_tests"]), coq_str(d["revoke_call"]),
       coq_strs(d["cvo"]))
    return text, d

"""tr_markings -- facts about the marking code read from the SOURCE TEXT (Gen/MarkingFacts.v).

The hand-written model coq/Model/Markings.v has one variant parameter per place
where the code has been seen to deviate from properties C07 / C08.  The checks
learn which variant the code matches by running witnesses; this translator
learns the same from the `ast` of

    stix2/markings/utils.py, granular_markings.py, object_markings.py, __init__.py,
    stix2/base.py (_STIXBase._check_object_constraints), stix2/properties.py (SELECTOR_REGEX),
    stix2/v20/*.py, stix2/v21/*.py (every _check_object_constraints override)

and writes the variant as a Gallina constant `src_cfg`, so that Props/C07.v and
Props/C08.v can instantiate their theorems with the variant the *text* denotes
(a regression of the text then breaks a proof obligation by name), and so that
the run-time probe and the text can be compared.

Fail closed: every function of the four marking modules must have the
control-flow skeleton (tree of statement kinds, docstrings dropped) recorded
below, and every variant site must be one of the recognised expressions;
anything else raises TranslateError and nothing is written.  Expressions that
are not variant sites are not compared (a changed expression is the
correspondence run's business), so e.g. dropping a `sorted()` does not abort.
"""
import ast
import glob
import os


class TranslateError(Exception):
    pass


# ---------------------------------------------------------------- skeletons

def _strip_doc(body):
    if body and isinstance(body[0], ast.Expr) and isinstance(getattr(body[0], "value", None), ast.Constant) \
            and isinstance(body[0].value.value, str):
        return body[1:]
    return body


def skel_body(body):
    return "[" + ",".join(skel(s) for s in _strip_doc(body)) + "]"


def skel(s):
    n = type(s).__name__
    if isinstance(s, ast.Expr):
        v = s.value
        if isinstance(v, (ast.Yield, ast.YieldFrom)):
            return "Yield"
        return "Expr"
    if isinstance(s, (ast.For, ast.While)):
        return n + skel_body(s.body) + ("else" + skel_body(s.orelse) if s.orelse else "")
    if isinstance(s, ast.If):
        return "If" + skel_body(s.body) + ("else" + skel_body(s.orelse) if s.orelse else "")
    if isinstance(s, ast.Try):
        return "Try" + skel_body(s.body) + "".join("except" + skel_body(h.body) for h in s.handlers) + \
            ("else" + skel_body(s.orelse) if s.orelse else "") + ("finally" + skel_body(s.finalbody) if s.finalbody else "")
    if isinstance(s, ast.With):
        return "With" + skel_body(s.body)
    if isinstance(s, (ast.FunctionDef, ast.ClassDef)):
        return n + skel_body(s.body)
    return n


# function -> the skeletons that are recognised (several when a recognised variant changes the control flow)
SKELETONS = {
    "utils._evaluate_expression": ["[For[Assign,If[Return]],Return]"],
    "utils._validate_selector": ["[Assign,If[Return]]"],
    "utils._get_marking_id": ["[If[Return],Return]"],
    "utils.validate": ["[If[For[If[Raise]],Return],Raise]"],
    "utils.convert_to_list": ["[If[If[Return]else[Return]]]"],
    "utils.convert_to_marking_list": ["[If[If[Return]else[Return]]]"],
    "utils.compress_markings": ["[If[Return],Assign,For[If[Expr],If[Expr]],Assign,Return]"],
    "utils.expand_markings": ["[Assign,For[Assign,Assign,Assign,If[Expr],If[Expr]],Return]"],
    "utils.build_granular_marking": ["[Return]"],
    "utils.iterpath": [
        # list walked in line (a list inside a list is not entered)
        "[If[Assign],For[Expr,Yield,If[For[Yield]]else[If[For[Assign,Expr,Yield,If[For[Yield]],Expr]]],Expr]]",
        # list walked by _iterlist
        "[If[Assign],For[Expr,Yield,If[For[Yield]]else[If[For[Yield]]],Expr]]",
    ],
    "utils._iterlist": ["[For[Assign,Expr,Yield,If[For[Yield]]else[If[For[Yield]]],Expr]]"],
    "granular_markings.get_markings": ["[Assign,Expr,Assign,If[Return],Assign,For[For[For[If[Assign,Assign,If[Expr],If[Expr]]]]],Return]"],
    "granular_markings.set_markings": ["[Assign,Return]"],
    "granular_markings.remove_markings": ["[Assign,Assign,Expr,Assign,If[Return],Assign,Assign,For[If[Expr]else[Expr]],Assign,If[Raise],Assign,Assign,If[Return]else[Return]]"],
    "granular_markings.add_markings": ["[Assign,Assign,Expr,Assign,For[If[Expr]else[Expr]],If[Expr],Assign,Assign,Return]"],
    "granular_markings.clear_markings": ["[Assign,Expr,Assign,If[Return],Assign,Assign,Assign,If[Raise],For[For[If[Assign,Assign,If[Assign],If[Assign]]]],Assign,If[Return]else[Return]]"],
    "granular_markings.is_marked": ["[If[Raise],Assign,Assign,Expr,Assign,Assign,Assign,For[For[For[If[Assign,Assign,If[Expr],If[Expr],Assign]]]],If[Return],Return]"],
    "object_markings.get_markings": ["[Return]"],
    "object_markings.add_markings": ["[Assign,Assign,Return]"],
    "object_markings.remove_markings": ["[Assign,Assign,If[Return],If[Raise],Assign,If[Return]else[Return]]"],
    "object_markings.set_markings": ["[Return]"],
    "object_markings.clear_markings": ["[Return]"],
    "object_markings.is_marked": ["[Assign,Assign,If[Return]else[Return]]"],
    "__init__.get_markings": ["[If[Return],Assign,If[Expr],Return]"],
    "__init__.set_markings": ["[If[Return]else[Return]]"],
    "__init__.remove_markings": ["[If[Return]else[Return]]"],
    "__init__.add_markings": ["[If[Return]else[Return]]"],
    "__init__.clear_markings": ["[If[Return]else[Return]]"],
    "__init__.is_marked": [
        "[If[Return],Assign,If[Assign,Assign,If[Assign],Assign],Return]",     # pinned `inherited` combination
        "[If[Return],Assign,If[Assign],Return]",
    ],
}
IGNORED = {"utils.check_tlp_marking"}

SELECTOR_REGEXES = {
    r"^([a-z0-9_-]{3,250}(\.(\[\d+\]|[a-z0-9_-]{1,250}))*|id)$": "LowerKeys",
    r"^([a-z0-9_-]{3,250}(\.(\[\d+\]|[a-zA-Z0-9_-]{1,250}))*|id)$": "AnyCaseKeys",
    r"^([a-z0-9_-]{3,250}(\.(\[\d+\]|[a-z0-9_-]{1,250}))*|id)\Z": "LowerKeysZ",
    r"^([a-z0-9_-]{3,250}(\.(\[\d+\]|[a-zA-Z0-9_-]{1,250}))*|id)\Z": "AnyCaseKeysZ",
}


# ---------------------------------------------------------------- helpers

def parse(path):
    with open(path, encoding="utf-8") as f:
        return ast.parse(f.read(), path)


def functions(tree):
    return {n.name: n for n in tree.body if isinstance(n, ast.FunctionDef)}


def up(e):
    return ast.unparse(e)


def one(xs, what):
    if len(xs) != 1:
        raise TranslateError("%s: expected exactly one, found %d" % (what, len(xs)))
    return xs[0]


def agree(values, what):
    s = set(values)
    if len(s) != 1:
        raise TranslateError("%s: the sites disagree or are missing: %s" % (what, sorted(s)))
    return values[0]


def isinstance_tests(fn, var):
    """The type expressions T of every isinstance(var, T) in fn."""
    out = []
    for n in ast.walk(fn):
        if isinstance(n, ast.Call) and isinstance(n.func, ast.Name) and n.func.id == "isinstance" and len(n.args) == 2 \
                and isinstance(n.args[0], ast.Name) and n.args[0].id == var:
            out.append(up(n.args[1]))
    return out


def mapping_kind(t, what):
    if t == "dict":
        return "DictOnly"
    if t in ("collections.abc.Mapping", "Mapping", "abc.Mapping"):
        return "AnyMapping"
    raise TranslateError("%s: unrecognised container test isinstance(_, %s)" % (what, t))


def index_kind(fn, list_var, what):
    """How the number between the brackets is obtained in the loop over list_var."""
    loops = [n for n in ast.walk(fn) if isinstance(n, ast.For)]
    fmt = [n for n in ast.walk(fn) if isinstance(n, ast.Call) and isinstance(n.func, ast.Attribute)
           and n.func.attr == "format" and isinstance(n.func.value, ast.Constant)]
    call = one(fmt, what + ": '[{0}]'.format call")
    if call.func.value.value != "[{0}]" or len(call.args) != 1 or call.keywords:
        raise TranslateError("%s: index text is %s" % (what, up(call)))
    arg = up(call.args[0])
    for lp in loops:
        it = up(lp.iter)
        tg = up(lp.target)
        if it == list_var and arg == "%s.index(%s)" % (list_var, tg):
            return "FirstEqual"
        if it == "enumerate(%s)" % list_var and isinstance(lp.target, ast.Tuple) and len(lp.target.elts) == 2 \
                and arg == up(lp.target.elts[0]):
            return "Position"
    raise TranslateError("%s: unrecognised index expression %s" % (what, arg))


# ---------------------------------------------------------------- the facts

def facts(repo):
    F = {}
    mods = {}
    for m in ("utils", "granular_markings", "object_markings", "__init__"):
        mods[m] = functions(parse(os.path.join(repo, "stix2", "markings", m + ".py")))
    # 1. every function has a recognised skeleton
    seen = set()
    for m, fns in mods.items():
        for name, fn in fns.items():
            key = "%s.%s" % (m, name)
            if key in IGNORED:
                continue
            seen.add(key)
            if key not in SKELETONS:
                raise TranslateError("function %s is not known to the model" % key)
            sk = skel_body(fn.body)
            if sk not in SKELETONS[key]:
                raise TranslateError("control flow of %s is not a recognised one: %s" % (key, sk))
    missing = [k for k in SKELETONS if k not in seen and k != "utils._iterlist"]
    if missing:
        raise TranslateError("functions the model mirrors are gone: %s" % missing)
    U = mods["utils"]
    # 2. _evaluate_expression
    fn = U["_evaluate_expression"]
    body = _strip_doc(fn.body)
    loop = body[0]
    if up(loop.iter) != "iterpath(obj)" or up(loop.body[0]) != "path = '.'.join(items)" \
            or up(loop.body[1].body[0]) != "return [value]" or up(body[1]) != "return []" \
            or up(loop.target) != "(items, value)":
        raise TranslateError("_evaluate_expression: unrecognised statements")
    test = up(loop.body[1].test)
    if test == "path == selector":
        F["falsy"] = "AnyValue"
    elif test == "path == selector and value":
        F["falsy"] = "TruthyOnly"
    else:
        raise TranslateError("_evaluate_expression: unrecognised test `%s`" % test)
    # _validate_selector / validate: fixed text
    if [up(s) for s in _strip_doc(U["_validate_selector"].body)] != [
            "results = list(_evaluate_expression(obj, selector))", "if len(results) >= 1:\n    return True"]:
        raise TranslateError("_validate_selector: unrecognised text")
    if [up(s) for s in _strip_doc(U["validate"].body)] != [
            "if selectors:\n    for s in selectors:\n        if not _validate_selector(obj, s):\n"
            "            raise exceptions.InvalidSelectorError(obj, s)\n    return",
            "raise exceptions.InvalidSelectorError(obj, selectors)"]:
        raise TranslateError("validate: unrecognised text")
    # 3. iterpath
    it = U["iterpath"]
    sk = skel_body(it.body)
    if sk == SKELETONS["utils.iterpath"][0]:
        F["nest"] = "FlatLists"
        if "_iterlist" in U:
            raise TranslateError("iterpath walks lists in line but _iterlist exists")
        F["embed"] = mapping_kind(agree(isinstance_tests(it, "varobj")[:1] + [t for t in isinstance_tests(it, "item")],
                                        "iterpath mapping tests"), "iterpath")
        if isinstance_tests(it, "varobj")[1:] != ["list"]:
            raise TranslateError("iterpath: unrecognised list test")
        F["index"] = index_kind(it, "varobj", "iterpath")
    else:
        if "_iterlist" not in U:
            raise TranslateError("iterpath refers to a missing _iterlist")
        il = U["_iterlist"]
        tv, ti = isinstance_tests(it, "varobj"), isinstance_tests(il, "item")
        if len(tv) != 2 or len(ti) != 2 or tv[1] != "list" or ti[1] != "list":
            raise TranslateError("iterpath/_iterlist: unrecognised container tests %s %s" % (tv, ti))
        F["embed"] = mapping_kind(agree([tv[0], ti[0]], "iterpath/_iterlist mapping tests"), "iterpath")
        calls = [up(n) for fn2 in (it, il) for n in ast.walk(fn2) if isinstance(n, ast.Call) and isinstance(n.func, ast.Name)
                 and n.func.id in ("iterpath", "_iterlist")]
        if sorted(calls) != sorted(["iterpath(varobj, path)", "_iterlist(varobj, path)", "iterpath(item, path)", "_iterlist(item, path)"]):
            raise TranslateError("iterpath/_iterlist: unrecognised recursive calls %s" % calls)
        F["nest"] = "NestedLists"
        F["index"] = index_kind(il, up(il.args.args[0]), "_iterlist")
    # 4. inherited / descendants tests in granular get_markings and is_marked
    G = mods["granular_markings"]
    kinds = []
    for name in ("get_markings", "is_marked"):
        lists = [n for n in ast.walk(G[name]) if isinstance(n, ast.Call) and isinstance(n.func, ast.Name) and n.func.id == "any"
                 and n.args and isinstance(n.args[0], ast.List)]
        lst = one(lists, "granular %s: any([...])" % name).args[0]
        el = [up(e) for e in lst.elts]
        if el == ["user_selector == marking_selector", "user_selector.startswith(marking_selector) and inherited",
                  "marking_selector.startswith(user_selector) and descendants"]:
            kinds.append("ByPrefix")
        elif el == ["user_selector == marking_selector", "user_selector.startswith(marking_selector + '.') and inherited",
                    "marking_selector.startswith(user_selector + '.') and descendants"]:
            kinds.append("ByPathTree")
        else:
            raise TranslateError("granular %s: unrecognised selector tests %s" % (name, el))
    F["inherit"] = agree(kinds, "inherited/descendants tests")
    # 5. the dispatching API
    A = mods["__init__"]
    for name in ("set_markings", "remove_markings", "add_markings", "clear_markings", "get_markings", "is_marked"):
        first = _strip_doc(A[name].body)[0]
        if up(first.test) != "selectors is None":
            raise TranslateError("markings.%s: unrecognised dispatch test" % name)
    gm = _strip_doc(A["get_markings"].body)
    if up(gm[2]) != "if inherited:\n    results.extend(object_markings.get_markings(obj))":
        raise TranslateError("markings.get_markings: unrecognised `inherited` branch")
    im = _strip_doc(A["is_marked"].body)
    branch = im[2]
    if up(branch.test) != "inherited":
        raise TranslateError("markings.is_marked: unrecognised `inherited` branch")
    btxt = [up(s) for s in branch.body]
    if btxt == ["result = result or object_markings.is_marked(obj, marking)"]:
        F["api"] = "SameMarking"
    elif len(btxt) == 4 and btxt[0] == "granular_marks = granular_markings.get_markings(obj, selectors)" \
            and btxt[1] == "object_marks = object_markings.get_markings(obj)" \
            and btxt[3] == "result = result or object_markings.is_marked(obj, object_marks)":
        F["api"] = "AnyObjectMarking"
    else:
        raise TranslateError("markings.is_marked: unrecognised `inherited` branch %s" % btxt)
    # 6. SELECTOR_REGEX
    ptree = parse(os.path.join(repo, "stix2", "properties.py"))
    rx = [n for n in ptree.body if isinstance(n, ast.Assign) and len(n.targets) == 1 and up(n.targets[0]) == "SELECTOR_REGEX"]
    call = one(rx, "SELECTOR_REGEX assignment").value
    if not (isinstance(call, ast.Call) and up(call.func) == "re.compile" and len(call.args) == 1 and not call.keywords
            and isinstance(call.args[0], ast.Constant) and isinstance(call.args[0].value, str)):
        raise TranslateError("SELECTOR_REGEX is not re.compile(<literal>)")
    text = call.args[0].value
    if text not in SELECTOR_REGEXES:
        raise TranslateError("SELECTOR_REGEX text is not one the recogniser was proved for: %r" % text)
    F["syntax"] = SELECTOR_REGEXES[text]
    F["regex_text"] = text
    sp = [n for n in ptree.body if isinstance(n, ast.ClassDef) and n.name == "SelectorProperty"]
    clean = [m for m in one(sp, "class SelectorProperty").body if isinstance(m, ast.FunctionDef) and m.name == "clean"]
    if up(_strip_doc(one(clean, "SelectorProperty.clean").body)[0].test) != "not SELECTOR_REGEX.match(value)":
        raise TranslateError("SelectorProperty.clean: unrecognised test")
    # 7. the constructor's check of granular selectors, and every override of it
    btree = parse(os.path.join(repo, "stix2", "base.py"))
    base = one([n for n in btree.body if isinstance(n, ast.ClassDef) and n.name == "_STIXBase"], "class _STIXBase")
    coc = one([m for m in base.body if isinstance(m, ast.FunctionDef) and m.name == "_check_object_constraints"],
              "_STIXBase._check_object_constraints")
    loops = [s for s in coc.body if isinstance(s, ast.For)]
    lp = one(loops, "_STIXBase._check_object_constraints: loop over granular markings")
    it_txt = up(lp.iter)
    if it_txt == "granular_markings":
        assigns = [up(s) for s in coc.body if isinstance(s, ast.Assign)]
        if "granular_markings = self.get('granular_markings', [])" not in assigns:
            raise TranslateError("_check_object_constraints: unrecognised source of granular_markings")
    elif it_txt != "self.get('granular_markings', [])":
        raise TranslateError("_check_object_constraints: unrecognised loop %s" % it_txt)
    if [up(s) for s in lp.body] != ["validate(self, %s.get('selectors'))" % up(lp.target)]:
        raise TranslateError("_check_object_constraints: the loop does not validate the selectors")
    unchecked = []
    n_over = 0
    for path in sorted(glob.glob(os.path.join(repo, "stix2", "v2*", "*.py"))):
        rel = os.path.relpath(path, os.path.join(repo, "stix2"))[:-3].replace(os.sep, ".")
        for c in [n for n in parse(path).body if isinstance(n, ast.ClassDef)]:
            has_gm = any(isinstance(n, ast.Constant) and n.value == "granular_markings" for n in ast.walk(c))
            for m in c.body:
                if isinstance(m, ast.FunctionDef) and m.name == "_check_object_constraints" and has_gm:
                    n_over += 1
                    body = _strip_doc(m.body)
                    sup = [s for s in body if isinstance(s, ast.Expr) and isinstance(s.value, ast.Call)
                           and up(s.value).startswith("super(") and up(s.value).endswith("._check_object_constraints()")]
                    if not sup:
                        unchecked.append("%s.%s" % (rel, c.name))
                    elif body[0] is not sup[0]:
                        # the base check must come first: anything before it (an early return, a swallowed
                        # exception) could leave the selectors of the granular markings unvalidated
                        raise TranslateError("%s.%s._check_object_constraints: the base check is not the first statement"
                                             % (rel, c.name))
    if unchecked == []:
        F["ind20"] = "Ind20Checked"
    elif unchecked == ["v20.sdo.Indicator"]:
        F["ind20"] = "Ind20Unchecked"
    else:
        raise TranslateError("classes carrying granular_markings whose _check_object_constraints skips the base check: %s" % unchecked)
    F["overrides_checked"] = n_over
    # 8. what the marking functions ask new_version to change: keyword names of every call
    changed = []
    n_calls = 0
    for m in ("granular_markings", "object_markings"):
        for fn in mods[m].values():
            for n in ast.walk(fn):
                if isinstance(n, ast.Call) and isinstance(n.func, ast.Name) and n.func.id == "new_version":
                    n_calls += 1
                    if len(n.args) != 1 or not isinstance(n.args[0], ast.Name) or n.args[0].id != "obj":
                        raise TranslateError("%s: unrecognised new_version call %s" % (m, up(n)))
                    for kw in n.keywords:
                        if kw.arg is None:
                            raise TranslateError("%s: new_version called with **kwargs: %s" % (m, up(n)))
                        if kw.arg == "allow_custom":
                            if up(kw.value) != "True":
                                raise TranslateError("%s: new_version allow_custom is %s" % (m, up(kw.value)))
                        elif kw.arg not in changed:
                            changed.append(kw.arg)
    if n_calls == 0:
        raise TranslateError("no new_version call found in the marking modules")
    F["nv_changed"] = sorted(changed)
    F["nv_calls"] = n_calls
    return F


FIELDS = ["falsy", "index", "embed", "nest", "inherit", "api", "syntax", "ind20"]


def coq_string(s):
    for ch in s:
        if ord(ch) < 32 or ord(ch) > 126:
            raise TranslateError("non-printable character in regex text")
    return '"' + s.replace('"', '""') + '"'


def translate(repo, _py=None):
    F = facts(repo)
    lines = [
        "(* Gen/MarkingFacts.v -- GENERATED by translators/tr_markings.py from the source text of",
        "   stix2/markings/*.py, stix2/base.py, stix2/properties.py, stix2/v20, stix2/v21.  Do not edit. *)",
        "From Coq Require Import String List.",
        "From V Require Import Base.UString Model.Markings.",
        "Import ListNotations.",
        "",
        "(* the variant of the model that the source text denotes *)",
        "Definition src_cfg : cfg := mkcfg %s." % " ".join(F[f] for f in FIELDS),
        "",
        "(* the text of SELECTOR_REGEX (one of the four texts the recogniser selector_syntax_ok was proved for) *)",
        "Definition src_selector_regex : string := %s." % coq_string(F["regex_text"]),
        "",
        "(* number of _check_object_constraints overrides in classes carrying granular_markings that were inspected *)",
        "Definition src_constraint_overrides : nat := %d." % F["overrides_checked"],
        "",
        "(* the properties the marking functions ask versioning.new_version to change: keyword names of the %d" % F["nv_calls"],
        "   new_version(obj, <name>=..., allow_custom=True) calls in granular_markings.py and object_markings.py *)",
        "Definition src_nv_changed_keys : list V.Base.UString.ustring := [%s]." % "; ".join(
            "V.Base.UString.u %s" % coq_string(k) for k in F["nv_changed"]),
        "",
    ]
    return "\n".join(lines), F


if __name__ == "__main__":
    import sys
    repo = sys.argv[1] if len(sys.argv) > 1 else "/repo"
    if "--dump" in sys.argv:
        for m in ("utils", "granular_markings", "object_markings", "__init__"):
            for name, fn in functions(parse(os.path.join(repo, "stix2", "markings", m + ".py"))).items():
                print('    "%s.%s": ["%s"],' % (m, name, skel_body(fn.body)))
    else:
        print(translate(repo)[0])

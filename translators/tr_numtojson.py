"""tr_numtojson -- stix2/canonicalization/NumberToJson.py:convert2Es6Format as a
term of the language of coq/Model/PyMini.v, from its ast, on every run
(-> coq/Gen/NumToJson.v).  Fail closed: any construct outside the language, any
variable not known to the model, raises TranslateError.

What is understood: assignments and augmented assignments to the known string /
int variables, str constants, int constants (with unary minus), `+` on strings
and `+`/`-` on ints, s.find('<one char>'), len(s), int(s), slices s[a:b] without
step, comparisons < > >= == between ints, == between strings, `and`,
if/elif/else, while, return, `raise ValueError(...)`, the first statement
`fvalue = float(value)`, `fvalue == 0`, `str(fvalue)`."""
import ast
import os


class TranslateError(Exception):
    pass


SVARS = {"pyDouble": "VDouble", "pySign": "VSign", "pyExpStr": "VExpStr", "pyFirst": "VFirst", "pyDot": "VDot", "pyLast": "VLast"}
IVARS = {"pyExpVal": "VExpVal", "q": "VQ"}
ARG_FLOAT = "fvalue"


def bad(node, why):
    raise TranslateError("convert2Es6Format line %s: %s: %s" % (getattr(node, "lineno", "?"), why, ast.unparse(node)[:120]))


def ustr(s):
    out = []
    for ch in s:
        c = ord(ch)
        out.append(ch if 32 <= c <= 126 and ch not in '\\"' else "\\%06X" % c)
    return '(u "%s")' % "".join(out)


def zlit(n):
    return "(%d)" % n if n < 0 else "%d" % n


def is_str_expr(n):
    if isinstance(n, ast.Constant):
        return isinstance(n.value, str)
    if isinstance(n, ast.Name):
        return n.id in SVARS
    if isinstance(n, ast.Subscript):
        return True
    if isinstance(n, ast.BinOp) and isinstance(n.op, ast.Add):
        return is_str_expr(n.left) or is_str_expr(n.right)
    if isinstance(n, ast.Call) and isinstance(n.func, ast.Name) and n.func.id == "str":
        return True
    return False


def tr_s(n):
    if isinstance(n, ast.Constant) and isinstance(n.value, str):
        return "(SL %s)" % ustr(n.value)
    if isinstance(n, ast.Name) and n.id in SVARS:
        return "(SV %s)" % SVARS[n.id]
    if isinstance(n, ast.BinOp) and isinstance(n.op, ast.Add):
        return "(SCat %s %s)" % (tr_s(n.left), tr_s(n.right))
    if isinstance(n, ast.Subscript) and isinstance(n.slice, ast.Slice):
        sl = n.slice
        if sl.step is not None:
            bad(n, "slice with a step")
        lo = "None" if sl.lower is None else "(Some %s)" % tr_i(sl.lower)
        hi = "None" if sl.upper is None else "(Some %s)" % tr_i(sl.upper)
        return "(SSlice %s %s %s)" % (tr_s(n.value), lo, hi)
    if (isinstance(n, ast.Call) and isinstance(n.func, ast.Name) and n.func.id == "str" and len(n.args) == 1
            and not n.keywords and isinstance(n.args[0], ast.Name) and n.args[0].id == ARG_FLOAT):
        return "SArgStr"
    bad(n, "string expression not understood")


def tr_i(n):
    if isinstance(n, ast.Constant) and isinstance(n.value, int) and not isinstance(n.value, bool):
        return "(IL %s)" % zlit(n.value)
    if isinstance(n, ast.UnaryOp) and isinstance(n.op, ast.USub) and isinstance(n.operand, ast.Constant) \
            and isinstance(n.operand.value, int) and not isinstance(n.operand.value, bool):
        return "(IL %s)" % zlit(-n.operand.value)
    if isinstance(n, ast.Name) and n.id in IVARS:
        return "(IV %s)" % IVARS[n.id]
    if isinstance(n, ast.BinOp) and isinstance(n.op, (ast.Add, ast.Sub)):
        return "(%s %s %s)" % ("IAdd" if isinstance(n.op, ast.Add) else "ISub", tr_i(n.left), tr_i(n.right))
    if isinstance(n, ast.Call) and not n.keywords and len(n.args) == 1:
        f = n.func
        if isinstance(f, ast.Name) and f.id == "len":
            return "(ILen %s)" % tr_s(n.args[0])
        if isinstance(f, ast.Name) and f.id == "int":
            return "(IInt %s)" % tr_s(n.args[0])
        if isinstance(f, ast.Attribute) and f.attr == "find":
            a = n.args[0]
            if not (isinstance(a, ast.Constant) and isinstance(a.value, str) and len(a.value) == 1):
                bad(n, "find() of something other than a one-character literal")
            return "(IFind %s %d%%N)" % (tr_s(f.value), ord(a.value))
    bad(n, "integer expression not understood")


CMPS = {ast.Lt: "CLt", ast.Gt: "CGt", ast.GtE: "CGe", ast.Eq: "CEq", ast.LtE: "CLe", ast.NotEq: "CNe"}


def tr_b(n):
    if isinstance(n, ast.BoolOp) and isinstance(n.op, ast.And):
        parts = [tr_b(v) for v in n.values]
        out = parts[-1]
        for p in reversed(parts[:-1]):
            out = "(BAnd %s %s)" % (p, out)
        return out
    if isinstance(n, ast.Compare) and len(n.ops) > 1:
        # a < b < c  is  (a < b) and (b < c); the middle operands here are plain names / constants (no side effects)
        operands = [n.left] + list(n.comparators)
        if not all(isinstance(o, (ast.Name, ast.Constant, ast.UnaryOp)) for o in operands):
            bad(n, "chained comparison over compound operands")
        parts = [tr_b(ast.Compare(left=operands[i], ops=[n.ops[i]], comparators=[operands[i + 1]])) for i in range(len(n.ops))]
        out = parts[-1]
        for p in reversed(parts[:-1]):
            out = "(BAnd %s %s)" % (p, out)
        return out
    if isinstance(n, ast.Compare) and len(n.ops) == 1:
        l, r, op = n.left, n.comparators[0], n.ops[0]
        if isinstance(l, ast.Name) and l.id == ARG_FLOAT:
            if isinstance(op, ast.Eq) and isinstance(r, ast.Constant) and r.value == 0 and not isinstance(r.value, bool):
                return "BArgZero"
            bad(n, "test on fvalue other than `fvalue == 0`")
        if is_str_expr(l) or is_str_expr(r):
            if not isinstance(op, ast.Eq):
                bad(n, "string comparison other than ==")
            return "(BStrEq %s %s)" % (tr_s(l), tr_s(r))
        if type(op) not in CMPS:
            bad(n, "comparison operator not understood")
        return "(BCmp %s %s %s)" % (CMPS[type(op)], tr_i(l), tr_i(r))
    bad(n, "condition not understood")


def tr_block(stmts):
    return "[" + "; ".join(x for x in (tr_stmt(s) for s in stmts) if x) + "]"


def tr_stmt(s):
    if isinstance(s, ast.Assign) and len(s.targets) == 1 and isinstance(s.targets[0], ast.Name):
        t = s.targets[0].id
        if t in SVARS:
            return "SSet %s %s" % (SVARS[t], tr_s(s.value))
        if t in IVARS:
            return "ISet %s %s" % (IVARS[t], tr_i(s.value))
        bad(s, "assignment to an unknown variable")
    if isinstance(s, ast.AugAssign) and isinstance(s.target, ast.Name):
        t = s.target.id
        if t in SVARS and isinstance(s.op, ast.Add):
            return "SSet %s (SCat (SV %s) %s)" % (SVARS[t], SVARS[t], tr_s(s.value))
        if t in IVARS and isinstance(s.op, (ast.Add, ast.Sub)):
            return "ISet %s (%s (IV %s) %s)" % (IVARS[t], "IAdd" if isinstance(s.op, ast.Add) else "ISub", IVARS[t], tr_i(s.value))
        bad(s, "augmented assignment not understood")
    if isinstance(s, ast.If):
        return "If %s %s %s" % (tr_b(s.test), tr_block(s.body), tr_block(s.orelse))
    if isinstance(s, ast.While):
        if s.orelse:
            bad(s, "while ... else")
        return "While %s %s" % (tr_b(s.test), tr_block(s.body))
    if isinstance(s, ast.Return):
        if s.value is None:
            bad(s, "bare return")
        return "Return %s" % tr_s(s.value)
    if isinstance(s, ast.Raise):
        e = s.exc
        if isinstance(e, ast.Call) and isinstance(e.func, ast.Name) and e.func.id == "ValueError" and s.cause is None:
            return "RaiseValueError"
        bad(s, "raise of something other than ValueError(...)")
    if isinstance(s, ast.Expr) and isinstance(s.value, ast.Constant) and isinstance(s.value.value, str):
        return None        # docstring
    bad(s, "statement not understood")


def translate(repo, py=None):
    path = os.path.join(repo, "stix2", "canonicalization", "NumberToJson.py")
    tree = ast.parse(open(path, encoding="utf-8").read())
    fns = [n for n in tree.body if isinstance(n, ast.FunctionDef) and n.name == "convert2Es6Format"]
    if len(fns) != 1:
        raise TranslateError("NumberToJson.py: expected exactly one module-level convert2Es6Format")
    others = [n for n in tree.body if not (n in fns or (isinstance(n, ast.Expr) and isinstance(n.value, ast.Constant)))]
    if others:
        bad(others[0], "module-level statement besides the function")
    fn = fns[0]
    a = fn.args
    if len(a.args) != 1 or a.vararg or a.kwarg or a.kwonlyargs or a.defaults or fn.decorator_list:
        raise TranslateError("convert2Es6Format: unexpected signature")
    param = a.args[0].arg
    body = [s for s in fn.body if not (isinstance(s, ast.Expr) and isinstance(s.value, ast.Constant))]
    first = body[0]
    want = "%s = float(%s)" % (ARG_FLOAT, param)
    # the prologue: `fvalue = float(value)`, bare or guarded so that an int too large for a double is refused
    #   try: fvalue = float(value)
    #   except OverflowError: raise ValueError(...)
    if ast.unparse(first).replace(" ", "") == want.replace(" ", ""):
        overflow_guard = False
    elif (isinstance(first, ast.Try) and len(first.body) == 1 and not first.orelse and not first.finalbody
          and ast.unparse(first.body[0]).replace(" ", "") == want.replace(" ", "") and len(first.handlers) == 1
          and first.handlers[0].type is not None and ast.unparse(first.handlers[0].type) == "OverflowError"
          and len(first.handlers[0].body) == 1 and isinstance(first.handlers[0].body[0], ast.Raise)
          and isinstance(first.handlers[0].body[0].exc, ast.Call)
          and ast.unparse(first.handlers[0].body[0].exc.func) == "ValueError"):
        overflow_guard = True
    else:
        bad(first, "first statement is not `%s` (bare or in try/except OverflowError: raise ValueError)" % want)
    for n in ast.walk(ast.Module(body=body[1:], type_ignores=[])):
        if isinstance(n, ast.Name) and n.id == param:
            bad(n, "the raw argument is used after the float() conversion")
    term = "[\n  " + ";\n  ".join(x for x in (tr_stmt(s) for s in body[1:]) if x) + " ]"
    text = "\n".join([
        "(* GENERATED by translators/tr_numtojson.py from stix2/canonicalization/NumberToJson.py -- do not edit *)",
        "From Coq Require Import NArith ZArith List String.",
        "From V Require Import Base.UString Model.PyMini.",
        "Import ListNotations.",
        "Open Scope Z_scope.",
        "",
        "(* convert2Es6Format, statement by statement, after `fvalue = float(value)` *)",
        "Definition gen_convert2es6_raw : list stmt :=",
        term + ".",
        "Definition gen_convert2es6 : list stmt := Eval vm_compute in gen_convert2es6_raw.",
        "",
        "(* the float() conversion of the argument is guarded: OverflowError (an int too large for a double) -> ValueError *)",
        "Definition gen_float_overflow_guard : bool := %s." % ("true" if overflow_guard else "false"),
        "",
    ])
    return text, {"statements": len(body) - 1, "overflow_guard": overflow_guard}


# ---------------------------------------------------------------------------
# Canonicalize.py: facts (-> coq/Gen/CanonFacts.v)

def _find(tree, kind, name):
    out = [n for n in ast.walk(tree) if isinstance(n, kind) and getattr(n, "name", None) == name]
    if len(out) != 1:
        raise TranslateError("Canonicalize.py: expected exactly one %s %s, found %d" % (kind.__name__, name, len(out)))
    return out[0]


def _const_str(n, what):
    if isinstance(n, ast.Constant) and isinstance(n.value, str):
        return n.value
    bad(n, "%s is not a string literal" % what)


def _bool(b):
    return "true" if b else "false"


def translate_canon(repo, py=None):
    path = os.path.join(repo, "stix2", "canonicalization", "Canonicalize.py")
    tree = ast.parse(open(path, encoding="utf-8").read())

    # --- module level: ESCAPE, ESCAPE_DCT, the setdefault loop, the bindings
    regex = table = fill = None
    binding = None
    for n in tree.body:
        if isinstance(n, ast.Assign) and len(n.targets) == 1 and isinstance(n.targets[0], ast.Name):
            t = n.targets[0].id
            if t == "ESCAPE":
                v = n.value
                if not (isinstance(v, ast.Call) and ast.unparse(v.func) == "re.compile" and len(v.args) == 1 and not v.keywords):
                    bad(n, "ESCAPE is not re.compile(<literal>)")
                regex = _const_str(v.args[0], "ESCAPE pattern")
            elif t == "ESCAPE_DCT":
                if not isinstance(n.value, ast.Dict):
                    bad(n, "ESCAPE_DCT is not a dict literal")
                table = []
                for k, v in zip(n.value.keys, n.value.values):
                    ks, vs = _const_str(k, "ESCAPE_DCT key"), _const_str(v, "ESCAPE_DCT value")
                    if len(ks) != 1:
                        bad(k, "ESCAPE_DCT key is not one character")
                    table.append((ord(ks), vs))
            elif t == "encode_basestring":
                src = ast.unparse(n.value).replace(" ", "").strip("()")
                binding = {"c_encode_basestringorpy_encode_basestring": "CAccelOrPython",
                           "py_encode_basestring": "PythonOnly", "c_encode_basestring": "AccelOnly"}.get(src)
                if binding is None:
                    bad(n, "binding of encode_basestring not understood")
        elif isinstance(n, ast.For):
            src = ast.unparse(n).replace(" ", "").replace("\n", "")
            import re as _re
            m = _re.fullmatch(r"foriinrange\((0x20|32)\):ESCAPE_DCT\.setdefault\(chr\(i\),'(.*)'\.format\(i\)\)", src)
            if not m:
                bad(n, "module-level loop is not the setdefault fill of ESCAPE_DCT")
            fill = (32, ast.literal_eval("'" + m.group(2) + "'"))
    if regex is None or table is None or fill is None or binding is None:
        raise TranslateError("Canonicalize.py: ESCAPE / ESCAPE_DCT / fill loop / encode_basestring binding not all found")

    # py_encode_basestring must be: def replace(match): return ESCAPE_DCT[match.group(0)];  return '"' + ESCAPE.sub(replace, s) + '"'
    pe = _find(tree, ast.FunctionDef, "py_encode_basestring")
    pe_src = "".join(ast.unparse(s).replace(" ", "").replace("\n", "") for s in pe.body
                     if not (isinstance(s, ast.Expr) and isinstance(s.value, ast.Constant)))
    if pe_src != "defreplace(match):returnESCAPE_DCT[match.group(0)]" + "return'\"'+ESCAPE.sub(replace,s)+'\"'":
        bad(pe, "py_encode_basestring body not understood")

    # --- JSONEncoder.__init__ defaults
    cls = _find(tree, ast.ClassDef, "JSONEncoder")
    init = [n for n in cls.body if isinstance(n, ast.FunctionDef) and n.name == "__init__"]
    if len(init) != 1:
        raise TranslateError("JSONEncoder.__init__ not found")
    a = init[0].args
    defaults = {k.arg: ast.literal_eval(v) for k, v in zip(a.kwonlyargs, a.kw_defaults) if v is not None}
    for k in ("ensure_ascii", "sort_keys", "indent", "separators", "allow_nan", "skipkeys"):
        if k not in defaults:
            raise TranslateError("JSONEncoder.__init__: no keyword default for %s" % k)
    seps = defaults["separators"]
    if not (isinstance(seps, tuple) and len(seps) == 2 and all(isinstance(x, str) for x in seps)):
        raise TranslateError("JSONEncoder.__init__: separators default is not a pair of strings")
    init_src = ast.unparse(init[0]).replace(" ", "")
    if "self.item_separator,self.key_separator=separators" not in init_src or "self.ensure_ascii=ensure_ascii" not in init_src:
        bad(init[0], "__init__ does not store separators / ensure_ascii as expected")

    # --- canonicalize()
    can = _find(tree, ast.FunctionDef, "canonicalize")
    can_src = ast.unparse(can).replace(" ", "").replace("\n", ";")
    can_sort = "textVal=JSONEncoder(sort_keys=True).encode(obj)" in can_src
    if not can_sort and "JSONEncoder(" not in can_src:
        bad(can, "canonicalize does not build a JSONEncoder")
    if "ifutf8:;returntextVal.encode();returntextVal" not in can_src.replace(";;", ";"):
        bad(can, "canonicalize: utf8 handling not understood")

    # --- the sort in _iterencode_dict
    mk = _find(tree, ast.FunctionDef, "_make_iterencode")
    d = [n for n in ast.walk(mk) if isinstance(n, ast.FunctionDef) and n.name == "_iterencode_dict"]
    if len(d) != 1:
        raise TranslateError("_iterencode_dict not found")
    sort_key = guard = None
    for n in ast.walk(d[0]):
        if isinstance(n, ast.If) and ast.unparse(n.test) == "_sort_keys":
            body = n.body
            if len(body) == 1 and isinstance(body[0], ast.Assign) and ast.unparse(body[0].targets[0]) == "items":
                call = body[0].value
                src = ast.unparse(call).replace(" ", "")
                import re as _re
                m = _re.fullmatch(r"sorted\(dct\.items\(\),key=lambdakv:kv\[0\]\.encode\('([^']*)'\)\)", src)
                if m:
                    enc = m.group(1).lower().replace("-", "_")
                    sort_key = "KeyUtf16BE" if enc in ("utf_16_be", "utf_16be") else "(KeyOtherEncoding %s)" % ustr(m.group(1))
                elif src in ("sorted(dct.items(),key=lambdakv:kv[0])", "sorted(dct.items())"):
                    sort_key = "KeyCodePoints"
                else:
                    bad(call, "sort of the members not understood")
                guard = (len(n.orelse) == 1 and ast.unparse(n.orelse[0]).replace(" ", "") == "items=dct.items()")
    if sort_key is None:
        raise TranslateError("_iterencode_dict: `if _sort_keys: items = sorted(...)` not found")

    # --- numbers and literals in the three encoders
    numbers_ok = True
    lits = set()
    for fname in ("_iterencode_list", "_iterencode_dict", "_iterencode"):
        f = [n for n in ast.walk(mk) if isinstance(n, ast.FunctionDef) and n.name == fname]
        if len(f) != 1:
            raise TranslateError("%s not found" % fname)
        seen_num = 0
        for n in ast.walk(f[0]):
            if isinstance(n, ast.If):
                t = ast.unparse(n.test).replace(" ", "")
                if t in ("isinstance(value,int)", "isinstance(value,float)", "isinstance(o,int)", "isinstance(o,float)"):
                    seen_num += 1
                    var = "value" if "value" in t else "o"
                    b = ast.unparse(n.body[0]).replace(" ", "") if len(n.body) == 1 else ""
                    if b not in ("yield(buf+convert2Es6Format(%s))" % var, "yieldbuf+convert2Es6Format(%s)" % var,
                                 "yieldconvert2Es6Format(%s)" % var):
                        numbers_ok = False
                for val, name in (("None", "null"), ("True", "true"), ("False", "false")):
                    for var in ("value", "o"):
                        if t == "%sis%s" % (var, val):
                            b = ast.unparse(n.body[0]).replace(" ", "") if len(n.body) == 1 else ""
                            m2 = [x for x in ("yieldbuf+'%s'", "yield'%s'") if b.startswith(x.split("%s")[0])]
                            lits.add((val, b.split("'")[1] if "'" in b else "?"))
        if seen_num != 2:
            raise TranslateError("%s: expected one int and one float branch, found %d" % (fname, seen_num))
    litmap = {}
    for val, text in lits:
        litmap.setdefault(val, set()).add(text)
    if any(len(v) != 1 for v in litmap.values()) or set(litmap) != {"None", "True", "False"}:
        raise TranslateError("literal branches not understood: %r" % litmap)

    tbl = "; ".join("(%d%%N, %s)" % (c, ustr(s)) for c, s in table)
    text = "\n".join([
        "(* GENERATED by translators/tr_numtojson.py (translate_canon) from stix2/canonicalization/Canonicalize.py -- do not edit *)",
        "From Coq Require Import NArith List String.",
        "From V Require Import Base.UString Model.CanonSrc.",
        "Import ListNotations.",
        "",
        "Definition src_canon_raw : canon_src :=",
        "  {| cs_sort_key := %s;" % sort_key,
        "     cs_sort_guard_sort_keys := %s;" % _bool(guard),
        "     cs_canonicalize_sort_keys := %s;" % _bool(can_sort),
        "     cs_ensure_ascii_default := %s;" % _bool(defaults["ensure_ascii"]),
        "     cs_separators_default := (%s, %s);" % (ustr(seps[0]), ustr(seps[1])),
        "     cs_indent_default_none := %s;" % _bool(defaults["indent"] is None),
        "     cs_escape_regex := %s;" % ustr(regex),
        "     cs_escape_table := [%s];" % tbl,
        "     cs_escape_fill_format := %s;" % ustr(fill[1]),
        "     cs_escape_fill_bound := %d%%N;" % fill[0],
        "     cs_encode_basestring := %s;" % binding,
        "     cs_numbers_via_convert2es6 := %s;" % _bool(numbers_ok),
        "     cs_literals := (%s, %s, %s) |}." % tuple(ustr(next(iter(litmap[k]))) for k in ("None", "True", "False")),
        "Definition src_canon : canon_src := Eval vm_compute in src_canon_raw.",
        "",
    ])
    return text, {"sort_key": sort_key, "separators": seps, "ensure_ascii": defaults["ensure_ascii"]}

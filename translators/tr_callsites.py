"""tr_callsites -- translate the argument bindings at the parser call sites of
/repo into Gallina (Gen/CallSites.v).

Read with `ast` only (nothing is imported from /repo):

  stix2/parsing.py  stix2/properties.py  stix2/registry.py (signatures only)
  stix2/datastore/__init__.py (the DataStoreMixin forwarders)
  stix2/datastore/memory.py  filesystem.py  taxii.py
  stix2/environment.py  stix2/workbench.py

Emitted (types in coq/Model/CallTable.v):

  signatures : every def of those modules that takes part in a binding, with its
               CURRENT parameter list (name, default) and the parameters that
               the body re-binds by `if not p: p = detect_spec_version(..)`;
  callsites  : one record per call of a *tracked* callee -- parameter name <-
               classified argument expression, positional arguments resolved
               against the callee's def as it is now;
  attr_assigns : `self.a = <expr>` statements of the classes involved;
  forwarders : pure forwarders `def f(self, *args, **kwargs): return g(*args, **kwargs)`;
  components : `super().__init__(source=C1(..), sink=C2(..))` of the store classes;
  aliases    : module level `name = _environ.attr` of workbench.py and the text
               `_environ` is built from.

Tracked callee = a def of the scanned modules (reached by plain name, by
`self.m`, by constructing a scanned class, or through a module attribute)
whose signature has a parameter named version / interoperability /
allow_custom, plus registry.class_for_type and the class construction
`obj_class(..)` inside the two parser functions.

Fail closed (TranslateError, nothing written):
  * a call of one of the NAMED functions whose callee cannot be resolved;
  * `*x` / `**x` at a tracked call, unless the caller is a pure forwarder or
    the call is the `obj_class(.., **data)` construction of the parser;
  * more positional arguments than the callee has parameters, a keyword the
    callee does not have;
  * any call that passes `version` / `interoperability` (a keyword of that
    name, or an argument expression mentioning such a name) to something that
    is neither resolved nor on the small allow-list below;
  * a nested def / lambda containing a tracked call.
"""
import ast
import os

NAMED = {"parse", "dict_to_stix2", "parse_observable", "_add", "_check_object_from_file",
         "_search_versioned", "_search_unversioned", "_validate_id", "_check_uuid"}
FLOW_PARAMS = {"version", "interoperability", "allow_custom"}
SENSITIVE = {"version", "interoperability"}

MODULES = [
    ("parsing", "stix2/parsing.py", "stix2.parsing"),
    ("registry", "stix2/registry.py", "stix2.registry"),
    ("properties", "stix2/properties.py", "stix2.properties"),
    ("datastore", "stix2/datastore/__init__.py", "stix2.datastore"),
    ("memory", "stix2/datastore/memory.py", "stix2.datastore.memory"),
    ("filesystem", "stix2/datastore/filesystem.py", "stix2.datastore.filesystem"),
    ("taxii", "stix2/datastore/taxii.py", "stix2.datastore.taxii"),
    ("environment", "stix2/environment.py", "stix2.environment"),
    ("workbench", "stix2/workbench.py", "stix2.workbench"),
]
# modules whose every function is scanned for call sites; in the others only
# the functions that call a NAMED function are (properties.py is 900 lines of
# clean() methods that mention `interoperability` for other reasons)
FULL_SCAN = {"parsing", "memory", "filesystem", "taxii", "environment", "workbench", "datastore"}
SIG_ONLY = {"registry"}

# calls that may receive version / interoperability without being tracked
ALLOW_UNTRACKED = {
    "detect_spec_version",          # receives the data, never the version
}


class TranslateError(Exception):
    pass


# ---------------------------------------------------------------------------
# Coq text

def cstr(s):
    out = []
    for ch in s:
        c = ord(ch)
        if ch == '"':
            out.append('""')
        elif 32 <= c <= 126:
            out.append(ch)
        elif ch in "\n\t\r":
            out.append(" ")
        else:
            out.append("?")
    return '"' + "".join(out) + '"'


def clist(items, sep="; "):
    return "[" + sep.join(items) + "]"


class AExpr:
    def __init__(self, kind, text, deps=()):
        self.kind, self.text, self.deps = kind, text, tuple(deps)

    def coq(self):
        if self.kind == "Other":
            return "(Other %s %s)" % (cstr(self.text), clist([cstr(d) for d in self.deps]))
        return "(%s %s)" % (self.kind, cstr(self.text))

    def key(self):
        return (self.kind, self.text, self.deps)


# ---------------------------------------------------------------------------
# module model

class Mod:
    def __init__(self, key, path, dotted, tree):
        self.key, self.path, self.dotted, self.tree = key, path, dotted, tree
        self.funcs = {}       # name -> FunctionDef (module level)
        self.classes = {}     # name -> ClassDef
        self.methods = {}     # (cls, name) -> FunctionDef
        self.imports = {}     # local name -> (dotted module, original name | None for a module)
        self.assigns = {}     # module-level simple name -> value expr


def _abs_module(cur_dotted, is_pkg, level, module):
    if level == 0:
        return module or ""
    parts = cur_dotted.split(".")
    if not is_pkg:
        parts = parts[:-1]
    if level > 1:
        parts = parts[:len(parts) - (level - 1)]
    return ".".join(parts + ([module] if module else []))


def load(repo):
    mods = {}
    for key, rel, dotted in MODULES:
        p = os.path.join(repo, rel)
        try:
            src = open(p, encoding="utf-8").read()
        except OSError as e:
            raise TranslateError("cannot read %s: %s" % (rel, e))
        tree = ast.parse(src, filename=rel)
        m = Mod(key, rel, dotted, tree)
        is_pkg = rel.endswith("__init__.py")
        for node in ast.walk(tree):
            # imports anywhere (taxii.py imports inside try:)
            if isinstance(node, ast.ImportFrom):
                src_mod = _abs_module(dotted, is_pkg, node.level, node.module)
                for a in node.names:
                    if a.name == "*":
                        continue
                    m.imports[a.asname or a.name] = (src_mod, a.name)
            elif isinstance(node, ast.Import):
                for a in node.names:
                    m.imports[a.asname or a.name.split(".")[0]] = (a.name if a.asname else a.name.split(".")[0], None)
        for node in tree.body:
            if isinstance(node, (ast.FunctionDef, ast.AsyncFunctionDef)):
                m.funcs[node.name] = node
            elif isinstance(node, ast.ClassDef):
                m.classes[node.name] = node
                for sub in node.body:
                    if isinstance(sub, (ast.FunctionDef, ast.AsyncFunctionDef)):
                        m.methods[(node.name, sub.name)] = sub
            elif isinstance(node, ast.Assign) and len(node.targets) == 1 and isinstance(node.targets[0], ast.Name):
                m.assigns[node.targets[0].id] = node.value
        mods[key] = m
    return mods


class World:
    def __init__(self, repo):
        self.repo = repo
        self.mods = load(repo)
        self.by_dotted = {m.dotted: m for m in self.mods.values()}
        # re-exports of the stix2 package itself
        self.pkg_exports = {}
        try:
            tree = ast.parse(open(os.path.join(repo, "stix2/__init__.py"), encoding="utf-8").read())
        except OSError as e:
            raise TranslateError("cannot read stix2/__init__.py: %s" % e)
        for node in ast.walk(tree):
            if isinstance(node, ast.ImportFrom):
                src = _abs_module("stix2", True, node.level, node.module)
                for a in node.names:
                    if a.name != "*":
                        self.pkg_exports[a.asname or a.name] = (src, a.name)

    # -- name resolution ----------------------------------------------------
    def resolve_global(self, mod, name, depth=0):
        """('func', qual) | ('class', modkey, cls) | ('module', modkey) | None"""
        if depth > 6:
            return None
        if name in mod.funcs:
            return ("func", "%s.%s" % (mod.key, name))
        if name in mod.classes:
            return ("class", mod.key, name)
        if name in mod.imports:
            src, orig = mod.imports[name]
            if orig is None:
                tgt = self.by_dotted.get(src)
                return ("module", tgt.key) if tgt else (("package",) if src == "stix2" else None)
            return self.resolve_dotted(src, orig, depth + 1)
        return None

    def resolve_dotted(self, src, orig, depth=0):
        full = src + "." + orig if src else orig
        if full in self.by_dotted:
            return ("module", self.by_dotted[full].key)
        if src in self.by_dotted:
            return self.resolve_global(self.by_dotted[src], orig, depth + 1)
        if src == "stix2":
            if orig in self.pkg_exports:
                s2, o2 = self.pkg_exports[orig]
                return self.resolve_dotted(s2, o2, depth + 1)
        return None

    def find_method(self, modkey, cls, name, depth=0):
        """Look up a method in a class or its bases (scanned modules only)."""
        mod = self.mods[modkey]
        if (cls, name) in mod.methods:
            return (modkey, cls)
        if depth > 6 or cls not in mod.classes:
            return None
        for b in mod.classes[cls].bases:
            if isinstance(b, ast.Name):
                r = self.resolve_global(mod, b.id)
                if r and r[0] == "class":
                    hit = self.find_method(r[1], r[2], name, depth + 1)
                    if hit:
                        return hit
        return None


# ---------------------------------------------------------------------------
# signatures

def params_of(fn):
    a = fn.args
    pos = [x.arg for x in a.posonlyargs + a.args]
    defaults = [None] * (len(pos) - len(a.defaults)) + list(a.defaults)
    kwonly = [x.arg for x in a.kwonlyargs]
    kwdefaults = list(a.kw_defaults)
    return pos, defaults, kwonly, kwdefaults, (a.vararg.arg if a.vararg else None), (a.kwarg.arg if a.kwarg else None)


def default_expr(e):
    if e is None:
        return None
    if isinstance(e, ast.Constant):
        return AExpr("Const", repr(e.value))
    return AExpr("Other", ast.unparse(e), ())


# ---------------------------------------------------------------------------
# per-function analysis

def own_nodes(fn):
    """Nodes of the function body, not descending into nested defs/lambdas;
    yields (node, nested) where nested marks nodes inside a nested def."""
    out = []

    def go(node, nested):
        for ch in ast.iter_child_nodes(node):
            inner = nested or isinstance(ch, (ast.FunctionDef, ast.AsyncFunctionDef, ast.Lambda, ast.ClassDef))
            out.append((ch, nested))
            go(ch, inner)
    for st in fn.body:
        out.append((st, False))
        go(st, isinstance(st, (ast.FunctionDef, ast.AsyncFunctionDef, ast.ClassDef)))
    return out


class FnInfo:
    def __init__(self, world, mod, cls, fn):
        self.world, self.mod, self.cls, self.fn = world, mod, cls, fn
        self.qual = "%s.%s.%s" % (mod.key, cls, fn.name) if cls else "%s.%s" % (mod.key, fn.name)
        pos, defaults, kwonly, kwdefaults, vararg, kwarg = params_of(fn)
        self.pos, self.defaults, self.kwonly, self.kwdefaults, self.vararg, self.kwarg = pos, defaults, kwonly, kwdefaults, vararg, kwarg
        self.is_method = cls is not None and not any(
            isinstance(d, ast.Name) and d.id == "staticmethod" for d in fn.decorator_list)
        self.self_name = pos[0] if (self.is_method and pos) else None
        self.params = set(pos + kwonly) | ({vararg} if vararg else set()) | ({kwarg} if kwarg else set())
        self.nodes = own_nodes(fn)
        # local assignments: name -> list of (value expr | None, guards)
        self.assigned = {}
        self.plain = {}       # local name -> [(value, guards)] for `name = <expr>` statements only
        self.idioms = []
        self._collect_assignments()

    def _collect_assignments(self):
        guards = {}

        def walk(stmts, tests):
            for st in stmts:
                if isinstance(st, (ast.FunctionDef, ast.AsyncFunctionDef, ast.ClassDef)):
                    continue
                if isinstance(st, ast.Assign):
                    for t in st.targets:
                        self._bind(t, st.value, tests)
                        if isinstance(t, ast.Name) and len(st.targets) == 1:
                            self.plain.setdefault(t.id, []).append((st.value, list(tests)))
                elif isinstance(st, ast.AugAssign):
                    self._bind(st.target, st.value, tests)
                elif isinstance(st, ast.AnnAssign) and st.value is not None:
                    self._bind(st.target, st.value, tests)
                elif isinstance(st, (ast.For, ast.AsyncFor)):
                    self._bind(st.target, st.iter, tests)
                    walk(st.body, tests); walk(st.orelse, tests)
                elif isinstance(st, ast.While):
                    walk(st.body, tests + [st.test]); walk(st.orelse, tests)
                elif isinstance(st, ast.If):
                    walk(st.body, tests + [st.test]); walk(st.orelse, tests + [st.test])
                elif isinstance(st, (ast.With, ast.AsyncWith)):
                    for it in st.items:
                        if it.optional_vars is not None:
                            self._bind(it.optional_vars, it.context_expr, tests)
                    walk(st.body, tests)
                elif isinstance(st, ast.Try):
                    walk(st.body, tests)
                    for h in st.handlers:
                        if h.name:
                            self.assigned.setdefault(h.name, []).append((None, list(tests)))
                        walk(h.body, tests)
                    walk(st.orelse, tests); walk(st.finalbody, tests)
        walk(self.fn.body, [])
        # comprehension / walrus targets
        for node, nested in self.nodes:
            if isinstance(node, ast.comprehension):
                self._bind(node.target, node.iter, [])
            elif isinstance(node, ast.NamedExpr):
                self._bind(node.target, node.value, [])
        # the version idiom:  if not p: p = detect_spec_version(<data>)
        for st in ast.walk(self.fn):
            if isinstance(st, ast.If) and not st.orelse and len(st.body) == 1 \
                    and isinstance(st.test, ast.UnaryOp) and isinstance(st.test.op, ast.Not) \
                    and isinstance(st.test.operand, ast.Name):
                p = st.test.operand.id
                b = st.body[0]
                if isinstance(b, ast.Assign) and len(b.targets) == 1 and isinstance(b.targets[0], ast.Name) \
                        and b.targets[0].id == p and isinstance(b.value, ast.Call) \
                        and isinstance(b.value.func, ast.Name) and b.value.func.id == "detect_spec_version" \
                        and p in self.params and len(self.assigned.get(p, [])) == 1:
                    self.idioms.append(p)

    def _bind(self, target, value, tests):
        if isinstance(target, ast.Name):
            self.assigned.setdefault(target.id, []).append((value, list(tests)))
        elif isinstance(target, (ast.Tuple, ast.List)):
            for t in target.elts:
                self._bind(t, value, tests)
        elif isinstance(target, ast.Starred):
            self._bind(target.value, value, tests)

    # -- dependency closure of an expression on the function's parameters ----
    def deps(self, e, seen=None):
        seen = set() if seen is None else seen
        out = set()
        for n in ast.walk(e):
            if isinstance(n, ast.Attribute) and isinstance(n.value, ast.Name) and n.value.id == self.self_name:
                out.add("self." + n.attr)
            elif isinstance(n, ast.Name):
                if n.id == self.self_name:
                    continue
                if n.id in self.params and n.id not in self.assigned:
                    out.add(n.id)
                elif n.id in self.assigned or n.id in self.params:
                    if n.id in self.params:
                        out.add(n.id)
                    if n.id in seen:
                        continue
                    seen.add(n.id)
                    for val, tests in self.assigned.get(n.id, []):
                        if val is not None:
                            out |= self.deps(val, seen)
                        for t in tests:
                            out |= self.deps(t, seen)
        return out

    def alias_of(self, name):
        """A local bound exactly once in the whole def, by an unconditional top-level
        `name = p` / `name = self.a` / `name = <literal>` (not a loop, with, walrus or
        comprehension target), stands for that parameter / attribute / literal."""
        if name in self.params or len(self.assigned.get(name, [])) != 1 or len(self.plain.get(name, [])) != 1:
            return None
        val, tests = self.plain[name][0]
        if tests or not any(st is not None and isinstance(st, ast.Assign) and st.value is val for st in self.fn.body):
            return None
        if isinstance(val, ast.Name) and val.id in self.params and val.id != self.self_name \
                and (val.id not in self.assigned or val.id in self.idioms):
            return AExpr("FromParam", val.id)
        if isinstance(val, ast.Attribute) and isinstance(val.value, ast.Name) and self.self_name is not None \
                and val.value.id == self.self_name:
            return AExpr("FromAttr", val.attr)
        if isinstance(val, ast.Constant):
            return AExpr("Const", repr(val.value))
        return None

    def classify(self, e):
        if isinstance(e, ast.Name):
            if e.id in self.params and e.id != self.self_name:
                if e.id not in self.assigned or e.id in self.idioms:
                    return AExpr("FromParam", e.id)
                return AExpr("Other", "reassigned " + e.id, sorted(self.deps(e)))
            if e.id == self.self_name:
                return AExpr("Other", "self", ())
            if e.id in self.assigned:
                al = self.alias_of(e.id)
                if al is not None:
                    return al
                return AExpr("Other", "local " + e.id, sorted(self.deps(e)))
            return AExpr("Other", "global " + e.id, ())
        if isinstance(e, ast.Attribute) and isinstance(e.value, ast.Name) and e.value.id == self.self_name \
                and self.self_name is not None:
            return AExpr("FromAttr", e.attr)
        if isinstance(e, ast.Constant):
            return AExpr("Const", repr(e.value))
        return AExpr("Other", ast.unparse(e), sorted(self.deps(e)))


def mentions_sensitive(call):
    for kw in call.keywords:
        if kw.arg in SENSITIVE:
            return True
    def names(e):
        # nested calls are call sites of their own
        if isinstance(e, ast.Call):
            return
        if isinstance(e, ast.Name):
            yield e.id
        for ch in ast.iter_child_nodes(e):
            yield from names(ch)
    for a in list(call.args) + [kw.value for kw in call.keywords]:
        if any(n in SENSITIVE for n in names(a)):
            return True
    return False


def is_pure_forwarder(info):
    """def f(self, *a, **k) whose only call using *a/**k is X(*a, **k), returned."""
    if not (info.vararg and info.kwarg) or info.kwonly:
        return None
    if info.pos != ([info.self_name] if info.self_name else []):
        return None
    hits = []
    for node, nested in info.nodes:
        if isinstance(node, ast.Call):
            star = [a for a in node.args if isinstance(a, ast.Starred)]
            dstar = [k for k in node.keywords if k.arg is None]
            if star or dstar:
                if nested:
                    return None
                ok = (len(node.args) == 1 and len(node.keywords) == 1 and len(star) == 1 and len(dstar) == 1
                      and isinstance(star[0].value, ast.Name) and star[0].value.id == info.vararg
                      and isinstance(dstar[0].value, ast.Name) and dstar[0].value.id == info.kwarg)
                if not ok:
                    return None
                hits.append(node)
    if len(hits) != 1:
        return None
    call = hits[0]
    returned = any(isinstance(n, ast.Return) and n.value is call for n, _ in info.nodes)
    if not returned:
        return None
    # *a / **k must not be used anywhere else
    uses = [n for n, _ in info.nodes if isinstance(n, ast.Name) and n.id in (info.vararg, info.kwarg)]
    if len(uses) != 2:
        return None
    return call


# ---------------------------------------------------------------------------
# built-in registries: keys of OBJ_MAP / OBJ_MAP_OBSERVABLE of stix2/v20, stix2/v21

def registry_keys(repo):
    """{('2.0','objects'): [...], ...} from the dict literals of the two version
    packages (registry._collect_stix2_mappings publishes exactly those dicts)."""
    out = {}
    for ver, rel in (("2.0", "stix2/v20/__init__.py"), ("2.1", "stix2/v21/__init__.py")):
        try:
            tree = ast.parse(open(os.path.join(repo, rel), encoding="utf-8").read(), filename=rel)
        except OSError as e:
            raise TranslateError("cannot read %s: %s" % (rel, e))
        found = {}
        for node in tree.body:
            if isinstance(node, ast.Assign) and len(node.targets) == 1 and isinstance(node.targets[0], ast.Name) \
                    and node.targets[0].id in ("OBJ_MAP", "OBJ_MAP_OBSERVABLE"):
                if node.targets[0].id in found:
                    raise TranslateError("%s: %s assigned twice" % (rel, node.targets[0].id))
                if not isinstance(node.value, ast.Dict):
                    raise TranslateError("%s: %s is not a dict literal" % (rel, node.targets[0].id))
                keys = []
                for k in node.value.keys:
                    if not (isinstance(k, ast.Constant) and isinstance(k.value, str)):
                        raise TranslateError("%s: non-literal key in %s" % (rel, node.targets[0].id))
                    if not all(32 <= ord(c) <= 126 and c not in '\\"' for c in k.value):
                        raise TranslateError("%s: key %r of %s outside printable ASCII" % (rel, k.value, node.targets[0].id))
                    keys.append(k.value)
                if len(set(keys)) != len(keys):
                    raise TranslateError("%s: duplicate key in %s" % (rel, node.targets[0].id))
                found[node.targets[0].id] = keys
        for name, cat in (("OBJ_MAP", "objects"), ("OBJ_MAP_OBSERVABLE", "observables")):
            if name not in found:
                raise TranslateError("%s: %s not found" % (rel, name))
            out[(ver, cat)] = found[name]
    return out


# ---------------------------------------------------------------------------

class Translator:
    def __init__(self, repo):
        self.w = World(repo)
        self.infos = {}        # qual -> FnInfo
        self.sites = []
        self.used_sigs = set()
        self.forwarders = []
        self.components = []
        self.attr_assigns = []
        self.aliases = []
        self.site_counter = {}

    def info(self, modkey, cls, name):
        mod = self.w.mods[modkey]
        fn = mod.methods.get((cls, name)) if cls else mod.funcs.get(name)
        if fn is None:
            return None
        q = "%s.%s.%s" % (modkey, cls, name) if cls else "%s.%s" % (modkey, name)
        if q not in self.infos:
            self.infos[q] = FnInfo(self.w, mod, cls, fn)
        return self.infos[q]

    def info_by_qual(self, q):
        parts = q.split(".")
        if len(parts) == 2:
            return self.info(parts[0], None, parts[1])
        return self.info(parts[0], parts[1], parts[2])

    # -- callee resolution ---------------------------------------------------
    def resolve_call(self, caller, call):
        """-> (callee FnInfo, via, drop_self) | ('leaf', name) | None"""
        f = call.func
        mod = caller.mod
        if isinstance(f, ast.Name):
            if f.id in caller.assigned or (f.id in caller.params):
                if f.id == "obj_class" and mod.key == "parsing":
                    return ("leaf", "<obj_class>")
                return None
            r = self.w.resolve_global(mod, f.id)
            if r is None:
                return None
            if r[0] == "func":
                return (self.info_by_qual(r[1]), "Direct", False)
            if r[0] == "class":
                hit = self.w.find_method(r[1], r[2], "__init__")
                if hit is None:
                    return None
                ci = self.info(hit[0], hit[1], "__init__")
                return (ci, "Construct:%s.%s" % (r[1], r[2]), True)
            return None
        if isinstance(f, ast.Attribute):
            v = f.value
            if isinstance(v, ast.Name) and caller.self_name and v.id == caller.self_name:
                hit = self.w.find_method(mod.key, caller.cls, f.attr)
                if hit is None:
                    return None
                return (self.info(hit[0], hit[1], f.attr), "SelfMethod", True)
            if isinstance(v, ast.Name) and v.id not in caller.assigned and v.id not in caller.params:
                r = self.w.resolve_global(mod, v.id)
                if r and r[0] == "module":
                    tm = self.w.mods[r[1]]
                    if f.attr in tm.funcs:
                        return (self.info(r[1], None, f.attr), "Direct", False)
                    if f.attr in tm.classes:
                        hit = self.w.find_method(r[1], f.attr, "__init__")
                        if hit:
                            return (self.info(hit[0], hit[1], "__init__"), "Construct:%s.%s" % (r[1], f.attr), True)
                    return None
                if r and r[0] == "package":
                    rr = self.w.resolve_dotted("stix2", f.attr)
                    if rr and rr[0] == "func":
                        return (self.info_by_qual(rr[1]), "Direct", False)
                    if rr and rr[0] == "class":
                        hit = self.w.find_method(rr[1], rr[2], "__init__")
                        if hit:
                            return (self.info(hit[0], hit[1], "__init__"), "Construct:%s.%s" % (rr[1], rr[2]), True)
                    return None
            return None
        return None

    @staticmethod
    def terminal_name(call):
        f = call.func
        if isinstance(f, ast.Name):
            return f.id
        if isinstance(f, ast.Attribute):
            return f.attr
        return None

    # -- bindings ------------------------------------------------------------
    def bind(self, caller, call, callee, drop_self):
        where = "%s:%d" % (caller.mod.path, call.lineno)
        pos = list(callee.pos)
        if drop_self:
            if not callee.is_method or not pos:
                raise TranslateError("%s: method call to a def without self: %s" % (where, callee.qual))
            pos = pos[1:]
        binds = []
        taken = set()
        for i, a in enumerate(call.args):
            if isinstance(a, ast.Starred):
                raise TranslateError("%s: *args at a tracked call of %s" % (where, callee.qual))
            if i >= len(pos):
                raise TranslateError("%s: more positional arguments than %s has parameters" % (where, callee.qual))
            binds.append((pos[i], caller.classify(a)))
            taken.add(pos[i])
        for kw in call.keywords:
            if kw.arg is None:
                raise TranslateError("%s: **kwargs at a tracked call of %s" % (where, callee.qual))
            if kw.arg in taken:
                raise TranslateError("%s: parameter %s of %s bound twice" % (where, kw.arg, callee.qual))
            if kw.arg not in pos and kw.arg not in callee.kwonly:
                raise TranslateError("%s: %s has no parameter %r" % (where, callee.qual, kw.arg))
            binds.append((kw.arg, caller.classify(kw.value)))
            taken.add(kw.arg)
        return binds

    def site_id(self, caller_q, callee_q):
        k = (caller_q, callee_q)
        self.site_counter[k] = self.site_counter.get(k, 0) + 1
        return "%s>%s#%d" % (caller_q, callee_q, self.site_counter[k])

    # -- scanning ------------------------------------------------------------
    def scan_function(self, caller):
        mod = caller.mod
        fwd_call = is_pure_forwarder(caller)
        calls = sorted([(n, nested) for n, nested in caller.nodes if isinstance(n, ast.Call)],
                       key=lambda x: (x[0].lineno, x[0].col_offset))
        for call, nested in calls:
            where = "%s:%d" % (mod.path, call.lineno)
            tname = self.terminal_name(call)
            if call is fwd_call:
                self.emit_forwarder(caller, call)
                continue
            if mod.key not in FULL_SCAN and tname not in NAMED:
                continue        # properties.py: only the parser / id-check calls are read
            r = self.resolve_call(caller, call)
            tracked = False
            if r and r[0] == "leaf":
                tracked = True
            elif r:
                callee = r[0]
                if callee is None:
                    r = None
                else:
                    names = set(callee.pos + callee.kwonly)
                    tracked = bool(names & FLOW_PARAMS) or callee.fn.name in NAMED \
                        or callee.qual == "registry.class_for_type"
            if not r:
                if tname in NAMED and not (isinstance(call.func, ast.Attribute) and tname not in ("parse", "parse_observable", "dict_to_stix2")):
                    raise TranslateError("%s: cannot resolve the callee of %s" % (where, ast.unparse(call.func)))
                if tname in NAMED and isinstance(call.func, ast.Attribute):
                    raise TranslateError("%s: cannot resolve the callee of %s" % (where, ast.unparse(call.func)))
                if mentions_sensitive(call) and tname not in ALLOW_UNTRACKED:
                    raise TranslateError("%s: version/interoperability passed to an unresolved callee: %s"
                                         % (where, ast.unparse(call)[:120]))
                continue
            if not tracked:
                if mentions_sensitive(call):
                    raise TranslateError("%s: version/interoperability passed to %s, which has no such parameter"
                                         % (where, r[0].qual))
                continue
            if nested:
                raise TranslateError("%s: tracked call inside a nested def/lambda" % where)
            text = " ".join(ast.unparse(call).split())
            if r[0] == "leaf":
                binds = []
                if any(isinstance(a, ast.Starred) for a in call.args) or call.args:
                    raise TranslateError("%s: positional argument in the class construction" % where)
                dstar = [k for k in call.keywords if k.arg is None]
                if len(dstar) != 1 or not isinstance(dstar[0].value, ast.Name):
                    raise TranslateError("%s: class construction is not obj_class(k=.., **data)" % where)
                for kw in call.keywords:
                    if kw.arg is not None:
                        binds.append((kw.arg, caller.classify(kw.value)))
                binds.append(("**", caller.classify(dstar[0].value)))
                sid = self.site_id(caller.qual, r[1])
                self.sites.append((sid, caller.qual, r[1], "Leaf", binds, call.lineno, text))
                self.used_sigs.add(caller.qual)
                continue
            callee, via, drop_self = r
            binds = self.bind(caller, call, callee, drop_self)
            sid = self.site_id(caller.qual, callee.qual)
            self.sites.append((sid, caller.qual, callee.qual, via, binds, call.lineno, text))
            self.used_sigs.add(caller.qual)
            self.used_sigs.add(callee.qual)

    def emit_forwarder(self, caller, call):
        f = call.func
        where = "%s:%d" % (caller.mod.path, call.lineno)
        if isinstance(f, ast.Name):
            r = self.w.resolve_global(caller.mod, f.id)
            if r and r[0] == "func":
                self.forwarders.append((caller.qual, "", "", r[1]))
                self.used_sigs.add(r[1]); self.info_by_qual(r[1])
                return
            if f.id in NAMED:
                raise TranslateError("%s: forwarder to an unresolved %s" % (where, f.id))
            return
        # self.<role>.<method>(*a, **k)  or  self.<role>.<x>.<method>
        if isinstance(f, ast.Attribute) and isinstance(f.value, ast.Attribute) \
                and isinstance(f.value.value, ast.Name) and f.value.value.id == caller.self_name:
            self.forwarders.append((caller.qual, f.value.attr, f.attr, ""))
            return
        if isinstance(f, ast.Attribute) and f.attr in NAMED:
            raise TranslateError("%s: forwarder to an unresolved %s" % (where, ast.unparse(f)))

    def scan_class_extras(self, mod, cname, cdef):
        # attribute assignments self.a = expr in every method
        for (c, mname), fn in mod.methods.items():
            if c != cname:
                continue
            inf = self.info(mod.key, cname, mname)
            if not inf.self_name:
                continue
            for node, nested in inf.nodes:
                if isinstance(node, (ast.Assign, ast.AugAssign, ast.AnnAssign)):
                    targets = node.targets if isinstance(node, ast.Assign) else [node.target]
                    flat = []
                    for t in targets:
                        flat += t.elts if isinstance(t, (ast.Tuple, ast.List)) else [t]
                    for t in flat:
                        if isinstance(t, ast.Attribute) and isinstance(t.value, ast.Name) and t.value.id == inf.self_name:
                            val = node.value
                            if val is None:
                                continue
                            ex = inf.classify(val) if not isinstance(node, ast.AugAssign) \
                                else AExpr("Other", "augmented " + ast.unparse(val), sorted(inf.deps(val)))
                            self.attr_assigns.append(("%s.%s" % (mod.key, cname), mname, t.attr, ex))
        # components: super(..).__init__(source=C1(..), sink=C2(..))
        init = mod.methods.get((cname, "__init__"))
        if init is None:
            return
        inf = self.info(mod.key, cname, "__init__")
        for node, nested in inf.nodes:
            if isinstance(node, ast.Call) and isinstance(node.func, ast.Attribute) and node.func.attr == "__init__" \
                    and isinstance(node.func.value, ast.Call) and isinstance(node.func.value.func, ast.Name) \
                    and node.func.value.func.id == "super":
                for kw in node.keywords:
                    if kw.arg in ("source", "sink") and isinstance(kw.value, ast.Call):
                        r = self.resolve_call(inf, kw.value)
                        if r and r[0] != "leaf" and r[1].startswith("Construct:"):
                            # the site id is the one scan_function assigned; recompute by matching line/text
                            self.components.append(("%s.%s" % (mod.key, cname), kw.arg, r[1][len("Construct:"):],
                                                    kw.value.lineno, " ".join(ast.unparse(kw.value).split())))
                        else:
                            raise TranslateError("%s:%d: store component %s is not a resolvable construction"
                                                 % (mod.path, node.lineno, kw.arg))

    def run(self):
        for key, rel, dotted in MODULES:
            if key in SIG_ONLY:
                continue
            mod = self.w.mods[key]
            fns = [(None, n) for n in mod.funcs] + list(mod.methods.keys())
            for cls, name in fns:
                inf = self.info(key, cls, name)
                if key not in FULL_SCAN:
                    has_named = any(isinstance(n, ast.Call) and self.terminal_name(n) in NAMED for n, _ in inf.nodes)
                    if not has_named:
                        continue
                self.scan_function(inf)
            for cname, cdef in mod.classes.items():
                if key in FULL_SCAN:
                    self.scan_class_extras(mod, cname, cdef)
        # properties.py: attribute assignments of the classes whose methods hold sites
        pm = self.w.mods["properties"]
        prop_classes = {q.split(".")[1] for q in self.used_sigs if q.startswith("properties.") and q.count(".") == 2}
        for cname in sorted(prop_classes):
            self.scan_class_extras(pm, cname, pm.classes[cname])
        # workbench aliases
        wb = self.w.mods["workbench"]
        env_expr = wb.assigns.get("_environ")
        for name, val in wb.assigns.items():
            if isinstance(val, ast.Attribute) and isinstance(val.value, ast.Name) and val.value.id == "_environ":
                self.aliases.append(("workbench." + name, "_environ." + val.attr))
        self.workbench_env = " ".join(ast.unparse(env_expr).split()) if env_expr is not None else ""
        # component -> site id
        comps = []
        for store, role, ccls, line, text in self.components:
            sid = ""
            for s in self.sites:
                if s[1] == store + ".__init__" and s[5] == line and s[6] == text:
                    sid = s[0]
            if not sid:
                raise TranslateError("component construction of %s.%s has no call-site record" % (store, role))
            comps.append((store, role, ccls, sid))
        self.components = comps
        # every NAMED function must exist where expected
        for q in ("parsing.parse", "parsing.dict_to_stix2", "parsing.parse_observable"):
            if self.info_by_qual(q) is None:
                raise TranslateError("%s is not defined" % q)
            self.used_sigs.add(q)
        # signatures of every def with a version parameter in the fully scanned modules (entry points)
        for key in FULL_SCAN:
            mod = self.w.mods[key]
            for cls, name in [(None, n) for n in mod.funcs] + list(mod.methods.keys()):
                inf = self.info(key, cls, name)
                if "version" in inf.pos + inf.kwonly or is_pure_forwarder(inf) is not None and any(
                        fw[0] == inf.qual for fw in self.forwarders):
                    self.used_sigs.add(inf.qual)
        for store, role, ccls, sid in self.components:
            hit = self.w.find_method(ccls.split(".")[0], ccls.split(".")[1], "__init__")
            self.used_sigs.add("%s.%s.__init__" % hit)
            st = store.split(".")
            if self.info(st[0], st[1], "__init__"):
                self.used_sigs.add(store + ".__init__")

    # -- output ----------------------------------------------------------------
    def emit(self):
        L = []
        L.append("(* GENERATED by translators/tr_callsites.py from the ast of %s -- do not edit. *)" % self.w.repo)
        L.append("From Coq Require Import String List.")
        L.append("From V Require Import Model.CallTable.")
        L.append("Import ListNotations. Open Scope string_scope.")
        L.append("")
        L.append("Definition signatures : list fsig := [")
        rows = []
        for q in sorted(self.used_sigs):
            inf = self.info_by_qual(q)
            if inf is None:
                continue
            ps = []
            for n, d in zip(inf.pos, inf.defaults):
                de = default_expr(d)
                ps.append("(%s, %s)" % (cstr(n), "None" if de is None else "Some " + de.coq()))
            for n, d in zip(inf.kwonly, inf.kwdefaults):
                de = default_expr(d)
                ps.append("(%s, %s)" % (cstr(n), "None" if de is None else "Some " + de.coq()))
            kind = "KFunc" if inf.cls is None else ("KMethod %s" % cstr("%s.%s" % (inf.mod.key, inf.cls)))
            rows.append("  mkSig %s (%s) %s %s %s %s" % (
                cstr(q), kind, clist(ps), cstr(inf.vararg or ""), cstr(inf.kwarg or ""), clist([cstr(p) for p in inf.idioms])))
        L.append(";\n".join(rows))
        L.append("].")
        L.append("")
        L.append("Definition callsites : list site := [")
        rows = []
        for sid, caller, callee, via, binds, line, text in self.sites:
            if via == "Direct":
                v = "VDirect"
            elif via == "SelfMethod":
                v = "VSelf"
            elif via == "Leaf":
                v = "VLeaf"
            else:
                v = "(VConstruct %s)" % cstr(via[len("Construct:"):])
            rows.append("  mkSite %s %s %s %s\n    %s\n    %s %s" % (
                cstr(sid), cstr(caller), cstr(callee), v,
                clist(["(%s, %s)" % (cstr(p), e.coq()) for p, e in binds]),
                cstr(str(line)), cstr(text[:200])))
        L.append(";\n".join(rows))
        L.append("].")
        L.append("")
        # only the attributes some call site reads (self.a as an argument, or in the
        # dependencies of one), plus the store components
        wanted = {"source", "sink"}
        for sid, caller, callee, via, binds, line, text in self.sites:
            for p_, e in binds:
                if e.kind == "FromAttr":
                    wanted.add(e.text)
                for d in e.deps:
                    if d.startswith("self."):
                        wanted.add(d[5:])
        L.append("Definition attr_assigns : list attr_assign := [")
        L.append(";\n".join("  mkAttr %s %s %s %s" % (cstr(c), cstr(m), cstr(a), e.coq())
                            for c, m, a, e in self.attr_assigns if a in wanted))
        L.append("].")
        L.append("")
        L.append("Definition forwarders : list forwarder := [")
        L.append(";\n".join("  mkFwd %s %s %s %s" % (cstr(a), cstr(b), cstr(c), cstr(d)) for a, b, c, d in self.forwarders))
        L.append("].")
        L.append("")
        L.append("Definition components : list component := [")
        L.append(";\n".join("  mkComp %s %s %s %s" % (cstr(a), cstr(b), cstr(c), cstr(d)) for a, b, c, d in self.components))
        L.append("].")
        L.append("")
        L.append("Definition class_bases : list (string * list string) := [")
        rows = []
        for key in sorted(FULL_SCAN):
            mod = self.w.mods[key]
            for cname, cdef in mod.classes.items():
                bs = []
                for b in cdef.bases:
                    if isinstance(b, ast.Name):
                        r = self.w.resolve_global(mod, b.id)
                        if r and r[0] == "class":
                            bs.append("%s.%s" % (r[1], r[2]))
                rows.append("  (%s, %s)" % (cstr("%s.%s" % (key, cname)), clist([cstr(b) for b in bs])))
        L.append(";\n".join(rows))
        L.append("].")
        L.append("")
        L.append("Definition aliases : list (string * string) := [")
        L.append(";\n".join("  (%s, %s)" % (cstr(a), cstr(b)) for a, b in self.aliases))
        L.append("].")
        L.append("Definition workbench_env : string := %s." % cstr(self.workbench_env))
        L.append("")
        L.append("(* keys of the built-in registries (OBJ_MAP / OBJ_MAP_OBSERVABLE dict literals of stix2/v20, stix2/v21) *)")
        rk = registry_keys(self.w.repo)
        for (ver, cat), name in ((("2.0", "objects"), "reg_objects20"), (("2.0", "observables"), "reg_observables20"),
                                 (("2.1", "objects"), "reg_objects21"), (("2.1", "observables"), "reg_observables21")):
            L.append("Definition %s : list string := %s." % (name, clist([cstr(k) for k in rk[(ver, cat)]])))
        L.append("")
        return "\n".join(L)


def translate(repo, _unused=None):
    t = Translator(repo)
    t.run()
    return t.emit(), t


if __name__ == "__main__":
    import sys
    text, t = translate(sys.argv[1] if len(sys.argv) > 1 else "/repo")
    sys.stdout.write(text)

"""tr_stores -- the choices of the data-store code read from the SOURCE TEXT (Gen/StoreFacts.v).

The hand-written model coq/Model/Store.v (properties C11, C18) fixes, at a
dozen places, what the code does: which key the version table of a memory
store uses and which comparison tracks the latest version, which element of
which sort FileSystemSource.get picks, that the sink refuses to overwrite, the
regex and flags of the versioned-directory test, how CompositeDataSource.get
keeps its running maximum and that it asks every member, that get /
all_versions / query merge the filters handed down with their own, what key
deduplicate() uses, the shape of relationships / related_to.  The model is tied
to the behaviour of the code by the correspondence run; this translator reads
the same choices from the `ast` of

    stix2/datastore/memory.py, stix2/datastore/filesystem.py,
    stix2/datastore/__init__.py, stix2/utils.py (deduplicate, get_type_from_id),
    stix2/environment.py (Environment.__init__)

and writes them as a Gallina record `src_store_cfg : store_cfg`
(coq/Model/StoreCfg.v), so that Props/C11Src.v and Props/C18Src.v state the
refinement theorems for the instance the *text* denotes: a regression of the
text to a recognised other choice breaks a proof obligation by name.

Fail closed: every function the model mirrors must have one of the recorded
control-flow skeletons and every site must be one of the recognised
expressions; anything else raises TranslateError (naming the function) and
nothing is written.
"""
import ast
import os


class TranslateError(Exception):
    pass


# ---------------------------------------------------------------- skeletons (as in tr_markings)

def _strip_doc(body):
    if body and isinstance(body[0], ast.Expr) and isinstance(getattr(body[0], "value", None), ast.Constant) \
            and isinstance(body[0].value.value, str):
        return body[1:]
    return body


def skel_body(body):
    return "[" + ",".join(skel(s) for s in _strip_doc(body)) + "]"


def skel(s):
    n = type(s).__name__
    if isinstance(s, ast.Expr):
        return "Expr"
    if isinstance(s, (ast.For, ast.While)):
        return n + skel_body(s.body) + ("else" + skel_body(s.orelse) if s.orelse else "")
    if isinstance(s, ast.If):
        return "If" + skel_body(s.body) + ("else" + skel_body(s.orelse) if s.orelse else "")
    if isinstance(s, ast.Try):
        return "Try" + skel_body(s.body) + "".join("except" + skel_body(h.body) for h in s.handlers) + \
            ("else" + skel_body(s.orelse) if s.orelse else "") + ("finally" + skel_body(s.finalbody) if s.finalbody else "")
    if isinstance(s, ast.With):
        return "With" + skel_body(s.body)
    if isinstance(s, (ast.FunctionDef, ast.ClassDef)):
        return n + skel_body(s.body)
    return n


def up(e):
    return ast.unparse(e)


def parse(path):
    with open(path, encoding="utf-8") as f:
        return ast.parse(f.read(), path)


def collect(tree):
    """name -> FunctionDef for module-level functions and Class.method"""
    out = {}
    for n in tree.body:
        if isinstance(n, ast.FunctionDef):
            out[n.name] = n
        elif isinstance(n, ast.ClassDef):
            for m in n.body:
                if isinstance(m, ast.FunctionDef):
                    out["%s.%s" % (n.name, m.name)] = m
    return out


# function -> recognised skeletons (several when a recognised choice changes the control flow)
SKELETONS = {
    "memory._add": ["[If[For[Expr]]else[If[For[Expr]]else[If[Assign]else[Assign],If[If[Assign]else[Assign,Assign],Expr]else[Assign]]]]"],
    "memory._ObjectFamily.__init__": ["[Assign,Assign]"],
    "memory._ObjectFamily.add": ["[Assign,If[Assign]]", "[Assign,Assign,If[Assign]]"],     # (a key computed first)
    "memory.MemorySink.add": ["[Expr]"],
    "memory.MemorySink.save_to_file": ["[Assign,Assign,If[Assign]else[Assign],If[If[Expr]]else[If[Expr],Assign],With[Assign,Expr],Return]"],
    "memory.MemorySource.get": ["[Assign,Assign,If[If[Assign]else[Assign]],If[Assign,Assign],Return]"],
    "memory.MemorySource.all_versions": ["[Assign,Assign,If[If[Assign]else[Assign],Assign,Expr],Return]"],
    "memory.MemorySource.query": ["[Assign,If[Expr],If[Expr],Assign,Assign,Return]"],
    "memory.MemorySource.load_from_file": ["[With[Assign],Expr]"],
    "filesystem._timestamp2filename": ["[If[Assign],Assign,Assign,Return]"],
    "filesystem._is_versioned_type_dir": ["[Assign,For[Assign,If[Assign,Break]]else[Assign],Return]"],
    "filesystem._check_object_from_file": ["[Try[With[Assign]]except[Raise],Assign,If[Assign],Assign,Return]"],
    "filesystem._search_versioned": ["[Assign,Assign,For[Assign,Assign,For[Assign,Try[Assign,If[Expr]]except[If[Raise]]]],Assign,Expr,Return]"],
    "filesystem._search_unversioned": ["[Assign,Assign,For[Assign,Try[Assign,If[Expr]]except[If[Raise]]],Return]"],
    "filesystem.FileSystemSink._check_path_and_write": [
        "[Assign,If[Assign,Assign]else[Assign,Assign],Assign,If[Expr],If[If[Assign]else[Assign]],If[Raise],With[Expr]]",
        # no refusal to overwrite
        "[Assign,If[Assign,Assign]else[Assign,Assign],Assign,If[Expr],If[If[Assign]else[Assign]],With[Expr]]",
    ],
    "filesystem.FileSystemSink.add": ["[If[For[Expr]]else[If[Expr]else[If[Assign,If[Expr]else[Expr]]else[If[For[Expr]]else[Raise]]]]]"],
    "filesystem.FileSystemSource.get": ["[Assign,If[Assign,If[Assign]else[Assign]]else[Assign],Return]"],
    "filesystem.FileSystemSource.all_versions": ["[Assign,Return]"],
    "filesystem.FileSystemSource.query": ["[Assign,Assign,If[Expr],If[Expr],Assign,Assign,For[Assign,Assign,If[Assign]else[Assign],Expr],Return]"],
    "datastore.DataSource.creator_of": ["[Assign,If[Return]else[Return]]"],
    "datastore.DataSource.relationships": ["[Assign,Assign,Try[Assign]except[Raise]except[Assign],If[Expr],If[Raise],If[Expr],If[Expr],Return]"],
    "datastore.DataSource.related_to": ["[Assign,Assign,Try[Assign]except[Assign],Assign,For[Expr],Expr,Assign,For[Expr],Return]"],
    "datastore.CompositeDataSource.get": [
        "[If[Raise],Assign,Assign,Expr,If[Expr],For[Assign,If[Expr]],Assign,For[Assign,If[Assign,Assign]],Return]",
        # the running maximum updated outside the test
        "[If[Raise],Assign,Assign,Expr,If[Expr],For[Assign,If[Expr]],Assign,For[Assign,If[Assign],Assign],Return]",
        # the members loop stops at the first hit
        "[If[Raise],Assign,Assign,Expr,If[Expr],For[Assign,If[Expr,Break]],Assign,For[Assign,If[Assign,Assign]],Return]",
        # the filters handed down are not merged
        "[If[Raise],Assign,Assign,Expr,For[Assign,If[Expr]],Assign,For[Assign,If[Assign,Assign]],Return]",
    ],
    "datastore.CompositeDataSource.all_versions": [
        "[If[Raise],Assign,Assign,Expr,If[Expr],For[Assign,Expr],If[Assign],Return]",
        "[If[Raise],Assign,Assign,Expr,For[Assign,Expr],If[Assign],Return]",
    ],
    "datastore.CompositeDataSource.query": [
        "[If[Raise],If[Assign],Assign,Assign,Expr,If[Expr],For[Assign,Expr],If[Assign],Return]",
        "[If[Raise],If[Assign],Assign,Assign,Expr,For[Assign,Expr],If[Assign],Return]",
    ],
    "datastore.CompositeDataSource.relationships": ["[If[Raise],Assign,For[Expr],If[Assign],Return]"],
    "datastore.CompositeDataSource.related_to": [
        "[If[Raise],Return]",                                      # delegates to DataSource.related_to
        "[If[Raise],Assign,For[Expr],If[Assign],Return]",           # every member navigates within its own data
    ],
    "datastore.CompositeDataSource.add_data_source": ["[If[If[Expr]]else[Raise],Return]"],
    "utils.deduplicate": ["[Assign,For[Assign,If[Assign]else[Assign]],Return]"],
    "utils.get_type_from_id": ["[Return]"],
    "environment.Environment.__init__": ["[Assign,Assign,If[Expr,Assign],If[Expr],If[If[Raise],Assign]]"],
    "environment.Environment.creator_of": ["[Assign,If[Return]else[Return]]"],
}

FILES = {
    "memory": os.path.join("stix2", "datastore", "memory.py"),
    "filesystem": os.path.join("stix2", "datastore", "filesystem.py"),
    "datastore": os.path.join("stix2", "datastore", "__init__.py"),
    "utils": os.path.join("stix2", "utils.py"),
    "environment": os.path.join("stix2", "environment.py"),
}

CMP = {ast.Gt: "CmpGt", ast.GtE: "CmpGe", ast.Lt: "CmpLt", ast.LtE: "CmpLe"}


def body_of(fn):
    return _strip_doc(fn.body)


def cmp_of(test, left, right, what):
    """the comparison `left OP right` among the operands of an `or` test"""
    cands = [v for v in (test.values if isinstance(test, ast.BoolOp) and isinstance(test.op, ast.Or) else [test])
             if isinstance(v, ast.Compare) and len(v.ops) == 1 and type(v.ops[0]) in CMP]
    if len(cands) != 1:
        raise TranslateError("%s: expected one ordering comparison in `%s`" % (what, up(test)))
    c = cands[0]
    if up(c.left) != left or up(c.comparators[0]) != right:
        raise TranslateError("%s: the comparison is `%s`, expected `%s OP %s`" % (what, up(c), left, right))
    return CMP[type(c.ops[0])], [up(v) for v in test.values if v is not c] if isinstance(test, ast.BoolOp) else []


def merging(fn, what):
    """does the method add the filters handed down (_composite_filters) to its own before passing them on"""
    txt = [up(s) for s in body_of(fn)]
    own = "all_filters.add(self.filters)" in txt
    handed = "if _composite_filters:\n    all_filters.add(_composite_filters)" in txt
    if not own:
        raise TranslateError("%s: the attached filters are not put into all_filters" % what)
    return "Merged" if handed else "OwnOnly"


def members_call(fn, method, what):
    """the loop over self.data_sources calling ds.<method>(..., _composite_filters=all_filters)"""
    loops = [s for s in body_of(fn) if isinstance(s, ast.For) and up(s.iter) == "self.data_sources"]
    if len(loops) != 1:
        raise TranslateError("%s: expected one loop over self.data_sources" % what)
    lp = loops[0]
    first = lp.body[0]
    if not (isinstance(first, ast.Assign) and isinstance(first.value, ast.Call) and up(first.value.func) == "ds." + method):
        raise TranslateError("%s: the loop does not call ds.%s: %s" % (what, method, up(first)))
    kws = {k.arg: up(k.value) for k in first.value.keywords}
    if kws.get("_composite_filters") != "all_filters":
        raise TranslateError("%s: the members are not handed all_filters: %s" % (what, up(first.value)))
    return lp


def facts(repo):
    F = {}
    fns = {}
    for m, rel in FILES.items():
        for name, fn in collect(parse(os.path.join(repo, rel))).items():
            fns["%s.%s" % (m, name)] = fn
    # 1. every function the model mirrors is there and has a recognised skeleton
    for key, allowed in SKELETONS.items():
        if key not in fns:
            raise TranslateError("function %s, which the model mirrors, is gone" % key)
        sk = skel_body(fns[key].body)
        if sk not in allowed:
            raise TranslateError("control flow of %s is not a recognised one: %s" % (key, sk))

    # ---- memory.py
    add = body_of(fns["memory._ObjectFamily.add"])
    stores = [st for st in add if isinstance(st, ast.Assign) and isinstance(st.targets[0], ast.Subscript)
              and up(st.targets[0].value) == "self.all_versions"]
    if len(stores) != 1 or up(stores[0].value) != "obj":
        raise TranslateError("_ObjectFamily.add: expected exactly one `self.all_versions[...] = obj`")
    key = up(stores[0].targets[0].slice)
    # any key expression other than the `modified` value itself is another choice (not this model's)
    F["fam_key"] = "KeyModified" if key == "obj['modified']" and len(add) == 2 else "KeyOther"
    track = add[-1]
    F["latest_cmp"], rest = cmp_of(track.test, "obj['modified']", "self.latest_version['modified']", "_ObjectFamily.add")
    if rest != ["self.latest_version is None"] or up(track.body[0]) != "self.latest_version = obj":
        raise TranslateError("_ObjectFamily.add: unrecognised latest tracking `%s`" % up(track))
    a = body_of(fns["memory._add"])
    single = a[0].orelse[0].orelse          # the branch for a single non-bundle object
    if up(a[0].test) != "isinstance(stix_data, list)" or up(a[0].orelse[0].test) != "stix_data['type'] == 'bundle'" \
            or up(single[1].test) != "'modified' in stix_obj" or up(single[1].orelse[0]) != "store._data[stix_obj['id']] = stix_obj" \
            or up(single[1].body[1]) != "obj_family.add(stix_obj)":
        raise TranslateError("memory._add: unrecognised dispatch on list / bundle / versioned object")
    chain = "all_filters = list(itertools.chain(_composite_filters or [], self.filters))"
    for name in ("get", "all_versions"):
        if chain not in [up(s) for s in ast.walk(fns["memory.MemorySource." + name]) if isinstance(s, ast.Assign)]:
            raise TranslateError("MemorySource.%s: the filters are not chain(_composite_filters, self.filters)" % name)
    q = [up(s) for s in body_of(fns["memory.MemorySource.query"])]
    if "if self.filters:\n    query.add(self.filters)" not in q or "if _composite_filters:\n    query.add(_composite_filters)" not in q \
            or "all_data = list(apply_common_filters(all_objs, query))" not in q:
        raise TranslateError("MemorySource.query: the query is not the given filters + attached + handed down")
    F["mem_filters"] = "AllChained"

    # ---- filesystem.py
    g = fns["filesystem.FileSystemSource.get"]
    picks = [n for n in ast.walk(g) if isinstance(n, ast.Subscript) and isinstance(n.value, ast.Call)
             and up(n.value.func) == "sorted"]
    if len(picks) != 1:
        raise TranslateError("FileSystemSource.get: expected one sorted(...)[i]")
    call = picks[0].value
    idx = up(picks[0].slice)
    if idx not in ("-1", "0"):
        raise TranslateError("FileSystemSource.get: picks element [%s] of the sorted versions" % idx)
    F["pick"] = "PickLast" if idx == "-1" else "PickFirst"
    kw = {k.arg: k.value for k in call.keywords}
    if [up(x) for x in call.args] != ["all_data"] or set(kw) != {"key"}:
        raise TranslateError("FileSystemSource.get: unrecognised sort `%s`" % up(call))
    # any sort key other than the `modified` value itself is another choice (not this model's)
    F["sort_key"] = "SortModified" if (isinstance(kw["key"], ast.Lambda) and len(kw["key"].args.args) == 1
                                       and up(kw["key"].body) == "%s['modified']" % kw["key"].args.args[0].arg) else "SortOther"
    if up(body_of(g)[1].body[0]) != "is_versioned = 'modified' in all_data[0]":
        raise TranslateError("FileSystemSource.get: unrecognised versioned test")
    t2f = [up(s) for s in body_of(fns["filesystem._timestamp2filename"])]
    if t2f != ["if isinstance(timestamp, str):\n    timestamp = parse_into_datetime(timestamp)", "ts = format_datetime(timestamp)",
               "ts = re.sub('[-T:\\\\.Z ]', '', ts)", "return ts"]:
        raise TranslateError("_timestamp2filename: unrecognised text %s" % t2f)
    F["filename"] = "FormatStrip"
    w = fns["filesystem.FileSystemSink._check_path_and_write"]
    refusals = [s for s in body_of(w) if isinstance(s, ast.If) and up(s.test) == "os.path.isfile(file_path)"
                and len(s.body) == 1 and isinstance(s.body[0], ast.Raise) and up(s.body[0].exc).startswith("DataSourceError(")]
    F["overwrite"] = "Refuse" if refusals else "Overwrites"
    wtxt = [up(s) for s in body_of(w)]
    if "type_dir = os.path.join(self._stix_dir, stix_obj['type'])" not in wtxt \
            or not wtxt[1].startswith("if 'modified' in stix_obj:\n    filename = _timestamp2filename(stix_obj['modified'])\n"
                                      "    obj_dir = os.path.join(type_dir, stix_obj['id'])\nelse:\n    filename = stix_obj['id']\n"
                                      "    obj_dir = type_dir"):
        raise TranslateError("_check_path_and_write: unrecognised layout <type>/<id>/<modified>.json | <type>/<id>.json")
    v = body_of(fns["filesystem._is_versioned_type_dir"])
    rc = v[0].value
    if not (isinstance(rc, ast.Call) and up(rc.func) == "re.compile" and 1 <= len(rc.args) <= 2 and not rc.keywords):
        raise TranslateError("_is_versioned_type_dir: id_regex is not re.compile(pattern[, flags])")
    pat = up(rc.args[0])
    if pat != "'^' + re.escape(type_name) + '--[0-9a-f]{8}-[0-9a-f]{4}-[0-9a-f]{4}-[0-9a-f]{4}-[0-9a-f]{12}$'":
        raise TranslateError("_is_versioned_type_dir: unrecognised pattern %s" % pat)
    flags = up(rc.args[1]) if len(rc.args) == 2 else ""
    if flags in ("re.I", "re.IGNORECASE"):
        F["dir_case"] = "CaseInsensitive"
    elif flags == "":
        F["dir_case"] = "CaseSensitive"
    else:
        raise TranslateError("_is_versioned_type_dir: unrecognised flags %s" % flags)
    if up(v[1].body[1].test) != "stat.S_ISDIR(s.st_mode) and id_regex.match(entry)":
        raise TranslateError("_is_versioned_type_dir: unrecognised entry test")
    fq = [up(s) for s in body_of(fns["filesystem.FileSystemSource.query"])]
    if "if self.filters:\n    query.add(self.filters)" not in fq or "if _composite_filters:\n    query.add(_composite_filters)" not in fq \
            or not ({"(auth_types, auth_ids) = _find_search_optimizations(query)",
                     "auth_types, auth_ids = _find_search_optimizations(query)"} & set(fq)):
        raise TranslateError("FileSystemSource.query: the query is not the given filters + attached + handed down")
    if [up(s) for s in body_of(fns["filesystem.FileSystemSource.all_versions"])] != [
            "query = [Filter('id', '=', stix_id)]", "return self.query(query, version=version, _composite_filters=_composite_filters)"]:
        raise TranslateError("FileSystemSource.all_versions: not query([Filter('id', '=', stix_id)])")

    # ---- CompositeDataSource
    cg = fns["datastore.CompositeDataSource.get"]
    F["merge_get"] = merging(cg, "CompositeDataSource.get")
    lp = members_call(cg, "get", "CompositeDataSource.get")
    F["members"] = "FirstHit" if any(isinstance(n, ast.Break) for n in ast.walk(lp)) else "AllMembers"
    if up(lp.body[1].test) != "data" or up(lp.body[1].body[0]) != "all_data.append(data)":
        raise TranslateError("CompositeDataSource.get: unrecognised collection of the members' answers")
    loops = [s for s in body_of(cg) if isinstance(s, ast.For) and up(s.iter) == "all_data"]
    if len(loops) != 1:
        raise TranslateError("CompositeDataSource.get: expected one loop over all_data")
    sl = loops[0]
    if up(sl.body[0]) != "ver = obj.get('modified') or obj.get('created')":
        raise TranslateError("CompositeDataSource.get: the version is `%s`" % up(sl.body[0]))
    F["cget_cmp"], rest = cmp_of(sl.body[1].test, "ver", "latest_ver", "CompositeDataSource.get")
    if rest != ["stix_obj is None", "ver is None"]:
        raise TranslateError("CompositeDataSource.get: unrecognised test `%s`" % up(sl.body[1].test))
    inside = [up(s) for s in sl.body[1].body]
    after = [up(s) for s in sl.body[2:]]
    if inside == ["stix_obj = obj", "latest_ver = ver"] and after == []:
        F["run_max"] = "UpdateOnTake"
    elif inside == ["stix_obj = obj"] and after == ["latest_ver = ver"]:
        F["run_max"] = "UpdateAlways"
    else:
        raise TranslateError("CompositeDataSource.get: unrecognised running maximum: %s / %s" % (inside, after))
    for name, field in (("all_versions", "merge_all"), ("query", "merge_query")):
        fn = fns["datastore.CompositeDataSource." + name]
        F[field] = merging(fn, "CompositeDataSource." + name)
        lp = members_call(fn, name, "CompositeDataSource." + name)
        if up(lp.body[1]) != "all_data.extend(data)":
            raise TranslateError("CompositeDataSource.%s: the members' answers are not all collected" % name)
        if "if len(all_data) > 0:\n    all_data = deduplicate(all_data)" not in [up(s) for s in body_of(fn)]:
            raise TranslateError("CompositeDataSource.%s: the union is not de-duplicated" % name)
    cr = [up(s) for s in body_of(fns["datastore.CompositeDataSource.relationships"])]
    if cr[1:] != ["results = []", "for ds in self.data_sources:\n    results.extend(ds.relationships(*args, **kwargs))",
                  "if len(results) > 0:\n    results = deduplicate(results)", "return results"]:
        raise TranslateError("CompositeDataSource.relationships: not the de-duplicated union of the members' relationships")
    rt = [up(s) for s in body_of(fns["datastore.CompositeDataSource.related_to"])]
    if rt[1:] == ["return super(CompositeDataSource, self).related_to(*args, **kwargs)"]:
        F["related"] = "Federated"
    elif rt[1:] == ["results = []", "for ds in self.data_sources:\n    results.extend(ds.related_to(*args, **kwargs))",
                    "if len(results) > 0:\n    results = deduplicate(results)", "return results"]:
        F["related"] = "PerMember"
    else:
        raise TranslateError("CompositeDataSource.related_to: unrecognised body %s" % rt[1:])
    ads = fns["datastore.CompositeDataSource.add_data_source"]
    if "self.data_sources.append(data_source)" not in [up(n) for n in ast.walk(ads) if isinstance(n, ast.Expr)]:
        raise TranslateError("CompositeDataSource.add_data_source: members are not appended in attachment order")

    # ---- deduplicate
    d = body_of(fns["utils.deduplicate"])
    lp = d[1]
    if up(lp.body[0]) != "ver = obj.get('modified') or obj.get('created')" or up(lp.body[1].test) != "ver is None" \
            or up(lp.body[1].body[0]) != "unique_objs[obj['id']] = obj" or up(d[2]) != "return list(unique_objs.values())":
        raise TranslateError("deduplicate: unrecognised text")
    other = up(lp.body[1].orelse[0])
    if other == "unique_objs[obj['id'], ver] = obj":
        F["dedupe_key"] = "KeyIdVer"
    elif other == "unique_objs[obj['id']] = obj":
        F["dedupe_key"] = "KeyId"
    else:
        raise TranslateError("deduplicate: versioned objects are keyed by `%s`" % other)
    if up(body_of(fns["utils.get_type_from_id"])[0]) != "return stix_id.split('--', 1)[0]":
        raise TranslateError("get_type_from_id: unrecognised text")

    # ---- DataSource navigation: the call shapes
    r = [up(s) for s in body_of(fns["datastore.DataSource.relationships"])]
    want = ["results = []", "filters = [Filter('type', '=', 'relationship')]", None,
            "if relationship_type:\n    filters.append(Filter('relationship_type', '=', relationship_type))",
            "if source_only and target_only:\n    raise ValueError('Search either source only or target only, but not both')",
            "if not target_only:\n    results.extend(self.query(filters + [Filter('source_ref', '=', obj_id)]))",
            "if not source_only:\n    results.extend(self.query(filters + [Filter('target_ref', '=', obj_id)]))", "return results"]
    if len(r) != len(want) or any(w is not None and w != x for w, x in zip(want, r)):
        raise TranslateError("DataSource.relationships: unrecognised call shape")
    rl = [up(s) for s in body_of(fns["datastore.DataSource.related_to"])]
    want = ["results = []", "rels = self.relationships(obj, relationship_type, source_only, target_only)", None, "ids = set()",
            "for r in rels:\n    ids.update((r.source_ref, r.target_ref))", "ids.discard(obj_id)", "filter_list = FilterSet(filters)",
            "for i in ids:\n    results.extend(self.query([f for f in filter_list] + [Filter('id', '=', i)]))", "return results"]
    if len(rl) != len(want) or any(w is not None and w != x for w, x in zip(want, rl)):
        raise TranslateError("DataSource.related_to: unrecognised call shape")
    for key in ("datastore.DataSource.creator_of", "environment.Environment.creator_of"):
        c = [up(s) for s in body_of(fns[key])]
        if c != ["creator_id = obj.get('created_by_ref', '')", "if creator_id:\n    return self.get(creator_id)\nelse:\n    return None"]:
            raise TranslateError("%s: unrecognised text" % key)
    F["navigation"] = "GenericScan"
    e = [up(s) for s in body_of(fns["environment.Environment.__init__"])]
    if e[1] != "self.source = CompositeDataSource()" or \
            e[2] != "if store:\n    self.source.add_data_source(store.source)\n    self.sink = store.sink" or \
            e[3] != "if source:\n    self.source.add_data_source(source)":
        raise TranslateError("Environment.__init__: unrecognised wiring")
    F["environment"] = "StoreThenSource"
    return F


FIELDS = ["fam_key", "latest_cmp", "mem_filters", "sort_key", "pick", "filename", "overwrite", "dir_case",
          "cget_cmp", "run_max", "members", "merge_get", "merge_all", "merge_query", "dedupe_key", "related",
          "navigation", "environment"]


def translate(repo, _py=None):
    F = facts(repo)
    lines = [
        "(* Gen/StoreFacts.v -- GENERATED by translators/tr_stores.py from the source text of",
        "   stix2/datastore/memory.py, filesystem.py, __init__.py, stix2/utils.py, stix2/environment.py.  Do not edit. *)",
        "From V Require Import Model.Store Model.StoreCfg.",
        "",
        "(* the choices the source text makes at the places the store model fixes *)",
        "Definition src_store_cfg : store_cfg :=",
        "  mk_store_cfg %s." % " ".join(F[f] for f in FIELDS),
        "",
    ]
    return "\n".join(lines), F


if __name__ == "__main__":
    import sys
    repo = sys.argv[1] if len(sys.argv) > 1 and not sys.argv[1].startswith("--") else "/repo"
    if "--dump" in sys.argv:
        for m, rel in FILES.items():
            for name, fn in collect(parse(os.path.join(repo, rel))).items():
                print('    "%s.%s": ["%s"],' % (m, name, skel_body(fn.body)))
    else:
        print(translate(repo)[0])

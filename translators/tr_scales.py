"""tr_scales -- translate stix2/confidence/scales.py into Gallina (Gen/Scales.v).

Fail-closed: every function of the module must be a chain of `if` statements
whose tests are boolean combinations of (chained) comparisons of the single
parameter with integer literals (value_to_*) or equality / membership tests of
the parameter against string literals (*_to_value), and whose branches are
`return <literal>` or `raise ValueError(...)`.  Anything else raises
TranslateError and nothing is written.
"""
import ast
import os

VALUE_TO = [
    "value_to_none_low_medium_high", "value_to_zero_ten",
    "value_to_admiralty_credibility", "value_to_wep", "value_to_dni",
]
TO_VALUE = [
    "none_low_med_high_to_value", "zero_ten_to_value",
    "admiralty_credibility_to_value", "wep_to_value", "dni_to_value",
]


class TranslateError(Exception):
    pass


def coq_string(s):
    b = s.encode("utf-8")
    for ch in b:
        if ch < 32 or ch == 127:
            raise TranslateError("control character in label %r" % s)
    return '"' + s.replace('"', '""') + '"'


def coq_Z(n):
    return "(%d)" % n


OPS = {ast.Lt: "OLt", ast.LtE: "OLe", ast.Gt: "OGt", ast.GtE: "OGe", ast.Eq: "OEq", ast.NotEq: "ONe"}


def _term(e, param):
    if isinstance(e, ast.Name) and e.id == param:
        return "X"
    if isinstance(e, ast.Constant) and type(e.value) is int:
        return "(Lit %s)" % coq_Z(e.value)
    if isinstance(e, ast.UnaryOp) and isinstance(e.op, ast.USub) and isinstance(e.operand, ast.Constant) \
            and type(e.operand.value) is int:
        return "(Lit %s)" % coq_Z(-e.operand.value)
    raise TranslateError("unsupported term: %s" % ast.unparse(e))


def _cond(e, param):
    if isinstance(e, ast.Compare):
        parts = []
        left = e.left
        for op, right in zip(e.ops, e.comparators):
            if type(op) not in OPS:
                raise TranslateError("unsupported comparison: %s" % ast.unparse(e))
            parts.append("(Cmp %s %s %s)" % (_term(left, param), OPS[type(op)], _term(right, param)))
            left = right
        out = parts[0]
        for p in parts[1:]:
            out = "(CAnd %s %s)" % (out, p)
        return out
    if isinstance(e, ast.BoolOp):
        ctor = "CAnd" if isinstance(e.op, ast.And) else "COr"
        vals = [_cond(v, param) for v in e.values]
        out = vals[0]
        for p in vals[1:]:
            out = "(%s %s %s)" % (ctor, out, p)
        return out
    if isinstance(e, ast.UnaryOp) and isinstance(e.op, ast.Not):
        return "(CNot %s)" % _cond(e.operand, param)
    raise TranslateError("unsupported condition: %s" % ast.unparse(e))


def _is_value_error(r):
    exc = r.exc
    if exc is None or r.cause is not None:
        return False
    if isinstance(exc, ast.Call):
        exc = exc.func
    return isinstance(exc, ast.Name) and exc.id == "ValueError"


def _action(stmts, want):
    """A branch body: exactly one terminating statement."""
    stmts = [s for s in stmts if not isinstance(s, ast.Pass)]
    if len(stmts) != 1:
        raise TranslateError("branch body is not a single statement")
    s = stmts[0]
    if isinstance(s, ast.Raise):
        if not _is_value_error(s):
            raise TranslateError("raises something other than ValueError: %s" % ast.unparse(s))
        return "RaiseValueError"
    if isinstance(s, ast.Return) and isinstance(s.value, ast.Constant):
        v = s.value.value
        if want == "str" and type(v) is str:
            return "(Ret %s)" % coq_string(v)
        if want == "int" and type(v) is int:
            return "(Ret %s)" % coq_Z(v)
    if isinstance(s, ast.Return) and want == "int" and isinstance(s.value, ast.UnaryOp) \
            and isinstance(s.value.op, ast.USub) and isinstance(s.value.operand, ast.Constant) \
            and type(s.value.operand.value) is int:
        return "(Ret %s)" % coq_Z(-s.value.operand.value)
    raise TranslateError("unsupported branch: %s" % ast.unparse(s))


def _label_tests(e, param):
    """scale_value == 'lit'  |  scale_value in ('a', 'b')  -> list of labels"""
    if isinstance(e, ast.Compare) and len(e.ops) == 1:
        l, op, r = e.left, e.ops[0], e.comparators[0]
        if isinstance(op, ast.Eq):
            if isinstance(l, ast.Name) and l.id == param and isinstance(r, ast.Constant) and type(r.value) is str:
                return [r.value]
            if isinstance(r, ast.Name) and r.id == param and isinstance(l, ast.Constant) and type(l.value) is str:
                return [l.value]
        if isinstance(op, ast.In) and isinstance(l, ast.Name) and l.id == param \
                and isinstance(r, (ast.Tuple, ast.List, ast.Set)) \
                and all(isinstance(x, ast.Constant) and type(x.value) is str for x in r.elts):
            return [x.value for x in r.elts]
    raise TranslateError("unsupported label test: %s" % ast.unparse(e))


def _flatten(stmts, handler):
    """Walk a statement list made of if-chains and a final return/raise.
    handler(test) -> list of guard terms; returns (branches, else_action|None)."""
    branches = []
    stmts = [s for s in stmts if not (isinstance(s, ast.Expr) and isinstance(s.value, ast.Constant))]
    for i, s in enumerate(stmts):
        if isinstance(s, ast.If):
            act = handler("body", s.body)
            for g in handler("test", s.test):
                branches.append((g, act))
            if s.orelse:
                sub, els = _flatten(s.orelse, handler)
                branches.extend(sub)
                if els is not None:
                    if i != len(stmts) - 1:
                        raise TranslateError("unreachable statements after a terminated if-chain")
                    return branches, els
        elif isinstance(s, (ast.Return, ast.Raise)):
            if i != len(stmts) - 1:
                raise TranslateError("unreachable statements after return/raise")
            return branches, handler("body", [s])
        else:
            raise TranslateError("unsupported statement: %s" % ast.unparse(s).split("\n")[0])
    return branches, None


def translate_function(fn, kind):
    if len(fn.args.args) != 1 or fn.args.vararg or fn.args.kwarg or fn.args.kwonlyargs or fn.args.defaults:
        raise TranslateError("%s: unexpected signature" % fn.name)
    if fn.decorator_list:
        raise TranslateError("%s: decorated" % fn.name)
    param = fn.args.args[0].arg

    if kind == "v2l":
        def handler(what, x):
            if what == "test":
                return [_cond(x, param)]
            return _action(x, "str")
        branches, els = _flatten(fn.body, handler)
        items = ["(%s, %s)" % (g, a) for g, a in branches]
        if els is not None:
            items.append("(CTrue, %s)" % els)
        return "Definition %s_chain : vchain :=\n  [ %s ].\n" % (fn.name, ";\n    ".join(items))
    else:
        def handler(what, x):
            if what == "test":
                return [coq_string(l) for l in _label_tests(x, param)]
            return _action(x, "int")
        branches, els = _flatten(fn.body, handler)
        items = ["(%s, %s)" % (g, a) for g, a in branches]
        return ("Definition %s_fun : lfun :=\n  {| lbranches := [ %s ];\n     lelse := %s |}.\n"
                % (fn.name, ";\n    ".join(items), "Some %s" % els if els is not None else "None"))


def translate(repo, out_path):
    src_path = os.path.join(repo, "stix2", "confidence", "scales.py")
    with open(src_path, encoding="utf-8") as f:
        tree = ast.parse(f.read())
    fns = {}
    for node in tree.body:
        if isinstance(node, ast.FunctionDef):
            if node.name in fns:
                raise TranslateError("function %s defined twice" % node.name)
            fns[node.name] = node
        elif isinstance(node, ast.Expr) and isinstance(node.value, ast.Constant):
            continue  # module docstring
        elif isinstance(node, (ast.Import, ast.ImportFrom)):
            continue
        else:
            # a module-level statement could rebind a function after its def
            raise TranslateError("unexpected module-level statement: %s" % ast.unparse(node).split("\n")[0])
    out = ["(* GENERATED by translators/tr_scales.py from stix2/confidence/scales.py -- do not edit *)",
           "From Coq Require Import ZArith List String.",
           "From V Require Import Model.Chain.",
           "Import ListNotations.",
           "Open Scope Z_scope.",
           "Open Scope string_scope.",
           ""]
    for name in VALUE_TO:
        if name not in fns:
            raise TranslateError("missing function %s" % name)
        out.append(translate_function(fns[name], "v2l"))
    for name in TO_VALUE:
        if name not in fns:
            raise TranslateError("missing function %s" % name)
        out.append(translate_function(fns[name], "l2v"))
    extra = sorted(set(fns) - set(VALUE_TO) - set(TO_VALUE))
    text = "\n".join(out)
    return text, extra


if __name__ == "__main__":
    import sys
    text, extra = translate(sys.argv[1] if len(sys.argv) > 1 else "/repo", None)
    sys.stdout.write(text)

"""tr_timestamp_src -- the digit logic of stix2/utils.py as terms of coq/Model/PyTs.v, from the ast,
on every run (-> coq/Gen/TimestampSrc.v).

Two fragments:
  * format_datetime: the statements between `frac_seconds_str = ""` and the final
    `ts = "{}{}{}Z".format(...)` -- the precision branches that build the fraction from
    zoned.microsecond (`"{:06d}".format(..)`, `[:3]`, `.rstrip("0")`, `.ljust(3, "0")`);
  * parse_into_datetime: the "ensure correct precision" branches that replace ts.microsecond
    (`ts.replace(microsecond=0)`, `(ts.microsecond // 1000) * 1000`).
Also recorded: how the fraction is attached (`"." if frac_seconds_str else ""`, the trailing "Z").

Fail closed: any construct outside the language of PyTs.v raises TranslateError naming the line.
"""
import ast
import os


class TranslateError(Exception):
    pass


PREC = {"Precision.ANY": "PAny", "Precision.SECOND": "PSecond", "Precision.MILLISECOND": "PMilli"}
CONS = {"PrecisionConstraint.EXACT": "CExact", "PrecisionConstraint.MIN": "CMin"}
STRVAR = "frac_seconds_str"


def up(e):
    return ast.unparse(e)


def bad(fn, node, why):
    raise TranslateError("stix2/utils.py:%s line %s: %s: %s" % (fn, getattr(node, "lineno", "?"), why, up(node)[:120]))


def one_char(fn, n):
    if isinstance(n, ast.Constant) and isinstance(n.value, str) and len(n.value) == 1 and ord(n.value) < 128:
        return "%d%%N" % ord(n.value)
    bad(fn, n, "not a one-character ASCII literal")


def small_int(fn, n):
    if isinstance(n, ast.Constant) and type(n.value) is int and 0 <= n.value < 10 ** 9:
        return n.value
    bad(fn, n, "not a small non-negative integer literal")


def tr_s(fn, n, usname):
    """string expression over <usname>.microsecond"""
    if isinstance(n, ast.Constant) and isinstance(n.value, str):
        if any(ord(c) > 126 or ord(c) < 32 or c in '\\"' for c in n.value):
            bad(fn, n, "string literal outside plain ASCII")
        return '(SLit (u "%s"))' % n.value
    if isinstance(n, ast.Call) and isinstance(n.func, ast.Attribute):
        m, recv = n.func.attr, n.func.value
        if m == "format" and isinstance(recv, ast.Constant) and recv.value == "{:06d}" and len(n.args) == 1 and not n.keywords \
                and up(n.args[0]) == usname + ".microsecond":
            return "SFmt06"
        if m == "rstrip" and len(n.args) == 1 and not n.keywords:
            return "(SRStrip %s %s)" % (tr_s(fn, recv, usname), one_char(fn, n.args[0]))
        if m == "ljust" and len(n.args) == 2 and not n.keywords:
            return "(SLJust %s %d %s)" % (tr_s(fn, recv, usname), small_int(fn, n.args[0]), one_char(fn, n.args[1]))
    if isinstance(n, ast.Subscript) and isinstance(n.slice, ast.Slice) and n.slice.lower is None and n.slice.step is None \
            and n.slice.upper is not None:
        return "(SSliceTo %s %d)" % (tr_s(fn, n.value, usname), small_int(fn, n.slice.upper))
    bad(fn, n, "string expression not understood")


def tr_i(fn, n, usname, env):
    if isinstance(n, ast.Constant) and type(n.value) is int:
        return "(ILit %d)" % small_int(fn, n)
    if isinstance(n, ast.Name) and n.id in env:
        return env[n.id]
    if up(n) == usname + ".microsecond":
        return "IUs"
    if isinstance(n, ast.BinOp) and isinstance(n.op, ast.FloorDiv):
        return "(IFloorDiv %s %s)" % (tr_i(fn, n.left, usname, env), tr_i(fn, n.right, usname, env))
    if isinstance(n, ast.BinOp) and isinstance(n.op, ast.Mult):
        return "(IMul %s %s)" % (tr_i(fn, n.left, usname, env), tr_i(fn, n.right, usname, env))
    bad(fn, n, "integer expression not understood")


def tr_c(fn, n, usname):
    if isinstance(n, ast.Compare) and len(n.ops) == 1 and isinstance(n.ops[0], ast.Eq):
        l, r = up(n.left), up(n.comparators[0])
        if l == "precision" and r in PREC:
            return "(CPrec %s)" % PREC[r]
        if l == "precision_constraint" and r in CONS:
            return "(CCons %s)" % CONS[r]
    if up(n) == usname + ".microsecond":
        return "CUs"
    bad(fn, n, "condition not understood")


def tr_block(fn, stmts, usname, env=None):
    env = dict(env or {})
    out = []
    for s in stmts:
        if isinstance(s, ast.If):
            out.append("SIf %s %s %s" % (tr_c(fn, s.test, usname), tr_block(fn, s.body, usname, env), tr_block(fn, s.orelse, usname, env)))
        elif isinstance(s, ast.Assign) and len(s.targets) == 1 and up(s.targets[0]) == STRVAR:
            out.append("SAssign %s" % tr_s(fn, s.value, usname))
        elif isinstance(s, ast.Assign) and len(s.targets) == 1 and up(s.targets[0]) == usname and isinstance(s.value, ast.Call) \
                and up(s.value.func) == usname + ".replace" and not s.value.args and len(s.value.keywords) == 1 \
                and s.value.keywords[0].arg == "microsecond":
            out.append("IAssign %s" % tr_i(fn, s.value.keywords[0].value, usname, env))
        elif isinstance(s, ast.Assign) and len(s.targets) == 1 and isinstance(s.targets[0], ast.Name) \
                and s.targets[0].id not in (STRVAR, usname, "precision", "precision_constraint"):
            env[s.targets[0].id] = tr_i(fn, s.value, usname, env)        # a local integer, inlined where it is used
        elif isinstance(s, ast.Pass):
            pass
        else:
            bad(fn, s, "statement not understood")
    return "[" + "; ".join(out) + "]"


def format_fragment(fn):
    name = "format_datetime"
    b = fn.body
    start = [i for i, s in enumerate(b) if isinstance(s, ast.Assign) and up(s.targets[0]) == STRVAR and up(s.value) in ('""', "''")]
    if len(start) != 1:
        raise TranslateError("stix2/utils.py:%s: `%s = \"\"` not found exactly once" % (name, STRVAR))
    last = b[-1]
    fin = b[-2] if isinstance(last, ast.Return) else None
    if not (isinstance(last, ast.Return) and up(last.value) == "ts" and isinstance(fin, ast.Assign) and up(fin.targets[0]) == "ts"):
        raise TranslateError("stix2/utils.py:%s: does not end with `ts = ...; return ts`" % name)
    # which variable holds the UTC datetime whose microsecond is formatted: the one strftime is called on
    st = [s for s in b if isinstance(s, ast.Assign) and up(s.targets[0]) == "ts" and "strftime" in up(s.value)]
    if len(st) != 1:
        raise TranslateError("stix2/utils.py:%s: the strftime statement was not found exactly once" % name)
    names = {n.func.value.id for n in ast.walk(st[0].value) if isinstance(n, ast.Call) and isinstance(n.func, ast.Attribute)
             and n.func.attr == "strftime" and isinstance(n.func.value, ast.Name)}
    if len(names) != 1:
        raise TranslateError("stix2/utils.py:%s: cannot tell which datetime is formatted" % name)
    zoned = names.pop()
    prog = tr_block(name, b[start[0] + 1:len(b) - 2], zoned)
    return prog, up(fin.value), up(st[0].value), zoned


def parse_fragment(fn):
    name = "parse_into_datetime"
    b = fn.body
    last = b[-1]
    if not (isinstance(last, ast.Return) and isinstance(last.value, ast.Call) and up(last.value.func) == "STIXdatetime"
            and last.value.args and up(last.value.args[0]) == "ts"):
        raise TranslateError("stix2/utils.py:%s: does not end with `return STIXdatetime(ts, ...)`" % name)
    # the branches on precision that follow the isinstance(value, dt.date) statement
    first = [i for i, s in enumerate(b) if isinstance(s, ast.If) and "isinstance(value, dt.date)" in up(s.test)]
    if len(first) != 1:
        raise TranslateError("stix2/utils.py:%s: the isinstance(value, dt.date) statement was not found" % name)
    frag = list(b[first[0] + 1:len(b) - 1])
    # an optional prelude that moves a value whose UTC offset has a sub-second part to UTC before the truncation:
    #   offset = ts.utcoffset();  if offset is not None and offset.microseconds: ts = ts.astimezone(pytz.utc)
    utc_first = False
    if len(frag) >= 2 and isinstance(frag[0], ast.Assign) and up(frag[0].value) == "ts.utcoffset()" and isinstance(frag[1], ast.If):
        var = up(frag[0].targets[0])
        t = frag[1]
        if up(t.test) == "%s is not None and %s.microseconds" % (var, var) and len(t.body) == 1 and not t.orelse \
                and up(t.body[0]) == "ts = ts.astimezone(pytz.utc)":
            utc_first = True
            frag = frag[2:]
    return tr_block(name, frag, "ts"), up(last.value), utc_first


def coq_str(s):
    if any(ord(c) < 32 or ord(c) > 126 for c in s):
        raise TranslateError("non-ASCII text in a recorded site: %r" % s)
    return '"' + s.replace('"', '""') + '"'


def translate(repo, py=None, verif=None):
    path = os.path.join(repo, "stix2", "utils.py")
    with open(path, encoding="utf-8") as f:
        tree = ast.parse(f.read(), path)
    fns = {n.name: n for n in tree.body if isinstance(n, ast.FunctionDef)}
    for need in ("format_datetime", "parse_into_datetime"):
        if need not in fns:
            raise TranslateError("stix2/utils.py: function %s not found" % need)
    fprog, attach, stamp, zoned = format_fragment(fns["format_datetime"])
    pprog, ret, utc_first = parse_fragment(fns["parse_into_datetime"])
    text = """(* GENERATED by translators/tr_timestamp_src.py from the source text of stix2/utils.py of the repository
   under check -- do not edit *)
From Coq Require Import ZArith NArith List String.
From V Require Import Base.UString Model.Timestamp Model.PyTs.
Import ListNotations.
Open Scope Z_scope.

(* format_datetime: the statements that build frac_seconds_str from %s.microsecond *)
Definition src_format_prog : list stmt :=
  %s.

(* ... how the text is assembled around it *)
Definition src_format_stamp : string := %s.
Definition src_format_attach : string := %s.

(* parse_into_datetime: the statements that adjust ts.microsecond *)
Definition src_parse_prog : list stmt :=
  %s.
Definition src_parse_return : string := %s.
(* a value whose UTC offset has a sub-second part is moved to UTC before the truncation *)
Definition src_parse_subsecond_utc_first : bool := %s.
""" % (zoned, fprog, coq_str(stamp), coq_str(attach), pprog, coq_str(ret), "true" if utc_first else "false")
    return text, {"format": fprog, "parse": pprog, "attach": attach, "stamp": stamp, "utc_first": utc_first}

"""tr_regflow -- the CONTROL FLOW of the registration module as facts in Gen/RegFlow.v
(property C19):

* stix2/registration.py: for each `_register_object / _register_marking /
  _register_observable / _register_extension` the ordered list of steps
  (subclass check, default version, name check, property check, which map of
  `registry.STIX2_OBJ_MAPS` under which version key, duplicate test, write);
  the shape of `_validate_props` (whether the full property-name loop exists
  and under which guard; the leading-letter loop under `version != "2.0"`;
  `_validate_ref_props` last);
* stix2/custom.py: `_get_properties_dict` copies the caller's properties; stix2/v21/sdo.py,
  v21/observables.py: the `if extension_name:` block of the wrappers registers the
  NameExtension unconditionally;
* stix2/registry.py: `class_for_type` -- the category dispatch (`if category:
  ... else: <the four maps in order>`), and whether the search over all
  categories is an `else` (exclusive) or a fall-through (`if not cls:`).

Every statement is normalised (`raise X(...)` -> `raise X`, ast.unparse) and
must be one of the forms listed here; anything else raises TranslateError
(fail closed) naming the function and the statement.  Props/C19Src.v states
that an interpreter of these steps IS the model's `register_*` function and
that the generated shapes are the ones Model/Registry.v transcribes.
"""
import ast
import os
import re
import sys


class TranslateError(Exception):
    pass


class _NormRaise(ast.NodeTransformer):
    def visit_Raise(self, node):
        e = node.exc
        if isinstance(e, ast.Call):
            e = e.func
        return ast.Raise(exc=e, cause=None)


def _stmts(fn):
    out = []
    for st in fn.body:
        if isinstance(st, ast.Expr) and isinstance(st.value, ast.Constant) and isinstance(st.value.value, str):
            continue
        out.append(ast.unparse(ast.fix_missing_locations(_NormRaise().visit(st))))
    return out


def _function(tree, name, rel):
    fns = [n for n in tree.body if isinstance(n, ast.FunctionDef) and n.name == name]
    if len(fns) != 1:
        raise TranslateError("%s: expected exactly one def %s" % (rel, name))
    if fns[0].decorator_list:
        raise TranslateError("%s: %s is decorated" % (rel, name))
    return fns[0]


CATS = {"objects": "Objects", "observables": "Observables", "markings": "Markings", "extensions": "Extensions"}

EXT_ID_FORM = ("if version == '2.1' and <T>.startswith('extension-definition--'):\n"
               "    if not re.match(EXTENSION_DEFINITION_ID_REGEX, <T>) or len(<T>) > 250:\n"
               "        raise ValueError\n"
               "else:\n"
               "    _validate_type(<T>, version)")
EXT_SUFFIX_FORM = ("if version == '2.1':\n"
                   "    if not (<T>.endswith('-ext') or <T>.startswith('extension-definition--')):\n"
                   "        raise ValueError")
EXT_NONEMPTY_FORM = ("if any((not <P>._properties, tl_props is not None and (not tl_props))):\n"
                     "    raise ValueError")


def register_flow(tree, fname, param):
    """Steps of one _register_* function as Gallina constructor texts."""
    fn = _function(tree, fname, "stix2/registration.py")
    args = ast.unparse(fn.args)
    if args != "%s, version=version.DEFAULT_VERSION" % param:
        raise TranslateError("%s: unexpected signature (%s)" % (fname, args))
    steps = []
    tname = "%s._type" % param          # the expression that names the type; may be aliased
    props = "%s._properties" % param    # the mapping handed to _validate_props; may be aliased (extension)
    mapvar = None
    ext_check = None

    def bad(s):
        raise TranslateError("%s: statement not of a known form: %s" % (fname, s.replace("\n", " / ")))

    for s in _stmts(fn):
        if s == "if not issubclass(%s, _DomainObject):\n    raise ValueError" % param:
            steps.append("SSubclass")
        elif s == "if not version:\n    version = version.DEFAULT_VERSION":
            steps.append("SDefaultVersion")
        elif re.fullmatch(r"(\w+) = %s\._type" % re.escape(param), s):
            tname = s.split(" = ")[0]                      # an alias, no step
        elif s == "tl_props = getattr(%s, '_toplevel_properties', None)" % param:
            pass                                           # read by the two forms below
        elif s == "combined_props = dict(%s._properties, **tl_props or dict())" % param:
            props = "combined_props"
        elif s == "_validate_type(%s, version)" % tname:
            if fname == "_register_extension":
                steps.append("SValidateExtName")
                ext_check = "ViaTypeRegex"
            else:
                steps.append("SValidateType")
        elif s == EXT_ID_FORM.replace("<T>", tname) and fname == "_register_extension":
            steps.append("SValidateExtName")
            ext_check = "OwnRegex"
        elif s == EXT_SUFFIX_FORM.replace("<T>", tname) and fname == "_register_extension":
            steps.append("SExtSuffixRule")
        elif s == EXT_NONEMPTY_FORM.replace("<P>", param) and fname == "_register_extension":
            steps.append("SExtNonEmpty")
        elif s == "_validate_props(%s, version)" % props:
            steps.append("(SValidateProps NeverObs20)")
        elif s == "_validate_props(%s, version, is_observable20=version == '2.0')" % props:
            steps.append("(SValidateProps IfVersion20)")
        else:
            m = re.fullmatch(r"(\w+) = registry\.STIX2_OBJ_MAPS\[(version|'2\.0'|'2\.1')\]\['(\w+)'\]", s)
            if m and m.group(3) in CATS:
                mapvar = m.group(1)
                key = {"version": "ByVersion", "'2.0'": "(FixedVersion V20)", "'2.1'": "(FixedVersion V21)"}[m.group(2)]
                steps.append("(SSelectMap %s %s)" % (CATS[m.group(3)], key))
            elif mapvar and s in ("if %s in %s.keys():\n    raise DuplicateRegistrationError" % (tname, mapvar),
                                  "if %s in %s:\n    raise DuplicateRegistrationError" % (tname, mapvar)):
                steps.append("SDupTest")
            elif mapvar and s == "%s[%s] = %s" % (mapvar, tname, param):
                steps.append("SWrite")
            else:
                bad(s)
    return steps, ext_check


FULL_LOOP = ("for prop_name in props_map:\n"
             "    if prop_name != 'id' and (not re.match(PROPERTY_NAME_REGEX, prop_name)):\n"
             "        raise ValueError")
PREFIX_LOOP = ("if version != '2.0':\n"
               "    for prop_name, prop_value in props_map.items():\n"
               "        if not re.match(PREFIX_21_REGEX, prop_name):\n"
               "            raise ValueError")
# seeded shape: both checks in one loop under the version guard
GUARDED_BOTH = ("if version != '2.0':\n"
                "    for prop_name in props_map:\n"
                "        if prop_name != 'id' and (not re.match(PROPERTY_NAME_REGEX, prop_name)):\n"
                "            raise ValueError\n"
                "        if not re.match(PREFIX_21_REGEX, prop_name):\n"
                "            raise ValueError")


def validate_props_shape(tree):
    fn = _function(tree, "_validate_props", "stix2/registration.py")
    if ast.unparse(fn.args) != "props_map, version, **kwargs":
        raise TranslateError("_validate_props: unexpected signature")
    st = _stmts(fn)
    if not st or st[-1] != "_validate_ref_props(props_map, **kwargs)":
        raise TranslateError("_validate_props: does not end with _validate_ref_props(props_map, **kwargs)")
    body = st[:-1]
    if body == [PREFIX_LOOP]:
        return "FullRuleAbsent"
    if body == [FULL_LOOP, PREFIX_LOOP]:
        return "FullRuleEveryVersion"
    if body == [GUARDED_BOTH]:
        return "FullRuleNot20Only"
    raise TranslateError("_validate_props: body not of a known form: %s" % " // ".join(x.replace("\n", " / ") for x in body))


CFT_HEAD = ["cls = None", "cat_map = STIX2_OBJ_MAPS.get(stix_version)"]
CFT_SEARCH = "cls = " + " or ".join("cat_map['%s'].get(stix_type)" % c for c in ("objects", "observables", "markings", "extensions"))
CFT_BY_CAT = ("    if category:\n"
              "        class_map = cat_map.get(category)\n"
              "        if class_map:\n"
              "            cls = class_map.get(stix_type)\n")


def class_for_type_shape(tree):
    fn = _function(tree, "class_for_type", "stix2/registry.py")
    if ast.unparse(fn.args) != "stix_type, stix_version, category=None":
        raise TranslateError("class_for_type: unexpected signature")
    st = _stmts(fn)
    if len(st) != 4 or st[:2] != CFT_HEAD or st[3] != "return cls":
        raise TranslateError("class_for_type: body not of the known form")
    body = st[2]
    m = re.fullmatch(r"if cat_map:\n" + re.escape(CFT_BY_CAT) + r"    (else|if not cls):\n        (cls = .*)", body)
    if not m:
        raise TranslateError("class_for_type: dispatch not of a known form: %s" % body.replace("\n", " / "))
    search = m.group(2)
    order = re.findall(r"cat_map\['(\w+)'\]\.get\(stix_type\)", search)
    if search != "cls = " + " or ".join("cat_map['%s'].get(stix_type)" % c for c in order) or any(c not in CATS for c in order):
        raise TranslateError("class_for_type: search over the categories not of the known form: %s" % search)
    return m.group(1) == "else", order


GPD_COPY = "try:\n    return OrderedDict(properties)\nexcept TypeError as e:\n    raise ValueError"
GPD_ALIAS = "if isinstance(properties, dict):\n    return properties"

EXTNAME_SDO = ("if extension_name:\n\n    @CustomExtension(type=extension_name, properties={})\n    class NameExtension:\n"
               "        if is_sdo:\n            extension_type = 'new-sdo'\n        else:\n            extension_type = 'new-sro'\n"
               "    extension = extension_name.split('--')[1]\n    extension = extension.replace('-', '')\n"
               "    NameExtension.__name__ = 'ExtensionDefinition' + extension\n    cls.with_extension = extension_name")
EXTNAME_SCO = ("if extension_name:\n\n    @CustomExtension(type=extension_name, properties={})\n    class NameExtension:\n"
               "        extension_type = 'new-sco'\n"
               "    extension = extension_name.split('--')[1]\n    extension = extension.replace('-', '')\n"
               "    NameExtension.__name__ = 'ExtensionDefinition' + extension\n    cls.with_extension = extension_name")


def properties_copied(tree):
    """custom._get_properties_dict: the decorators work on their own OrderedDict copy of `properties`."""
    fn = _function(tree, "_get_properties_dict", "stix2/custom.py")
    st = _stmts(fn)
    if st == [GPD_COPY]:
        return True
    if st == [GPD_ALIAS, GPD_COPY]:
        return False
    raise TranslateError("_get_properties_dict: body not of a known form: %s" % " // ".join(x.replace("\n", " / ") for x in st))


def extname_block(tree, rel, deco, known):
    """The `if extension_name:` block of a v21 wrapper: registers the NameExtension unconditionally (True), or only
    when no extension is registered under that name yet (False)."""
    fn = _function(tree, deco, rel)
    ws = [x for x in fn.body if isinstance(x, ast.FunctionDef) and x.name == "wrapper"]
    if len(ws) != 1:
        raise TranslateError("%s: %s has no single inner `wrapper`" % (rel, deco))
    blocks = [ast.unparse(ast.fix_missing_locations(_NormRaise().visit(x))) for x in ws[0].body
              if isinstance(x, ast.If) and ast.unparse(x.test) == "extension_name"]
    if len(blocks) != 1:
        raise TranslateError("%s: %s.wrapper has %d `if extension_name:` blocks" % (rel, deco, len(blocks)))
    if blocks[0] == known:
        return True
    if re.search(r"if not class_for_type\(extension_name, '2\.1', 'extensions'\):", blocks[0]) \
            and blocks[0].rstrip().endswith("cls.with_extension = extension_name"):
        return False
    raise TranslateError("%s: %s.wrapper: extension_name block not of a known form: %s" % (rel, deco, blocks[0].replace("\n", " / ")))


VRP_HEAD = "if is_observable20:\n    ref_prop_type = ObjectReferenceProperty\nelse:\n    ref_prop_type = ReferenceProperty"
VRP_LOOP = ("for prop_name, prop_obj in props_map.items():\n    tail = prop_name.<SPLIT>('_', 1)[-1]\n"
            "    if tail == 'ref' and (not isinstance(prop_obj, ref_prop_type)):\n        raise ValueError\n"
            "    elif tail == 'refs' and (not (isinstance(prop_obj, ListProperty) and isinstance(prop_obj.contained, ref_prop_type))):\n"
            "        raise ValueError")


def ref_rule_shape(tree):
    """_validate_ref_props: the suffix looked at is what follows the LAST underscore (rsplit) -- True; the first
    underscore (split) -- False."""
    fn = _function(tree, "_validate_ref_props", "stix2/registration.py")
    if ast.unparse(fn.args) != "props_map, is_observable20=False":
        raise TranslateError("_validate_ref_props: unexpected signature")
    st = _stmts(fn)
    if st == [VRP_HEAD, VRP_LOOP.replace("<SPLIT>", "rsplit")]:
        return True
    if st == [VRP_HEAD, VRP_LOOP.replace("<SPLIT>", "split")]:
        return False
    raise TranslateError("_validate_ref_props: body not of a known form: %s" % " // ".join(x.replace("\n", " / ") for x in st))


def translate(repo, out_path=None):
    def mod(rel):
        with open(os.path.join(repo, rel), encoding="utf-8") as f:
            return ast.parse(f.read())
    regn, regy = mod("stix2/registration.py"), mod("stix2/registry.py")
    flows = {}
    ext_check = None
    for fname, param in (("_register_object", "new_type"), ("_register_marking", "new_marking"),
                         ("_register_observable", "new_observable"), ("_register_extension", "new_extension")):
        steps, ec = register_flow(regn, fname, param)
        flows[fname] = steps
        ext_check = ec or ext_check
    if ext_check is None:
        raise TranslateError("_register_extension: no check of the extension name found")
    copied = properties_copied(mod("stix2/custom.py"))
    ext_uncond = extname_block(mod("stix2/v21/sdo.py"), "stix2/v21/sdo.py", "CustomObject", EXTNAME_SDO) \
        and extname_block(mod("stix2/v21/observables.py"), "stix2/v21/observables.py", "CustomObservable", EXTNAME_SCO)
    last_us = ref_rule_shape(regn)
    vp = validate_props_shape(regn)
    exclusive, order = class_for_type_shape(regy)
    out = ["(* GENERATED by translators/tr_regflow.py from stix2/registration.py and stix2/registry.py -- do not edit *)",
           "From Coq Require Import List.",
           "From V Require Import Model.Registry Model.RegistryFlow.",
           "Import ListNotations.",
           ""]
    for fname in ("_register_object", "_register_marking", "_register_observable", "_register_extension"):
        out.append("Definition src%s_flow : list step :=\n  [%s]." % (fname, "; ".join(flows[fname])))
    out += ["",
            "(* the first check of _register_extension: plain _validate_type, or the extension-definition id form *)",
            "Definition src_ext_name_check : extid_mode := %s." % ext_check,
            "",
            "(* _validate_props: the full property-name loop *)",
            "Definition src_validate_props_shape : vp_shape := %s." % vp,
            "",
            "(* registry.class_for_type: `if category: <that map> else: <search>` (true) or `if not cls: <search>` (false) *)",
            "Definition src_cft_category_exclusive : bool := %s." % ("true" if exclusive else "false"),
            "Definition src_cft_search_order : list category := [%s]." % "; ".join(CATS[c] for c in order),
            "",
            "(* custom._get_properties_dict copies the caller's properties into an OrderedDict of its own *)",
            "Definition src_properties_copied : bool := %s." % ("true" if copied else "false"),
            "(* the v21 CustomObject / CustomObservable wrappers register the extension_name= extension unconditionally",
            "   (so a taken name raises DuplicateRegistrationError) *)",
            "Definition src_extname_registers_unconditionally : bool := %s." % ("true" if ext_uncond else "false"),
            "",
            "(* _validate_ref_props: `tail = prop_name.rsplit('_', 1)[-1]` (true) -- what Registry.tail_us computes --,",
            "   ReferenceProperty / ObjectReferenceProperty by is_observable20, ListProperty(contained) for _refs *)",
            "Definition src_ref_rule_last_underscore : bool := %s." % ("true" if last_us else "false"),
            ""]
    text = "\n".join(out)
    if out_path:
        with open(out_path, "w", encoding="utf-8") as f:
            f.write(text)
    return text, {"flows": flows, "ext_check": ext_check, "validate_props": vp, "cft_exclusive": exclusive, "cft_order": order,
                  "properties_copied": copied, "extname_unconditional": ext_uncond,
                  "ref_rule_last_underscore": last_us}


if __name__ == "__main__":
    sys.stdout.write(translate(sys.argv[1] if len(sys.argv) > 1 else "/repo")[0])

"""tr_visitor -- facts about the pattern visitor and the pattern classes read from the SOURCE TEXT
(Gen/VisitorFacts.v), for property C10.

Read with `ast` from stix2/pattern_visitor.py and stix2/patterns.py:

  * for every visit method of STIXPatternVisitorForSTIX2: the constant child indices it reads
    (`children[k]`, both arms of `children[3 if ... else 2]`, the lower bound of `children[2:]`) and the
    class names it hands to self.instantiate, in order of appearance;
  * the variant sites the model Model/PatternSyntax.v has a flag for, as normalised expression text:
    operator position and negation of visitPropTestEqual / visitPropTestOrder, the `negated` argument of the
    five keyword tests, rebuild-vs-append of the AND / OR methods, the name used for `[*]` after a quoted key,
    the isinstance classes of WithinQualifier, FloatConstant.__str__, quote_if_needed, the HexConstant regexes;
  * escape_quotes_and_backslashes (the returned expression), quote_if_needed's regex text and keyword set,
    the template of every __str__ (format string with the formatted expressions in braces), the operator
    spelling every comparison / boolean / observation class passes to its base class, the dispatch order of
    make_constant and of create_ObjectPathComponent, the token-type dispatch of visitTerminal.

Fail closed: a missing function or class, or a file that does not parse, raises TranslateError and nothing is
written.  An expression or body whose shape is not one of the recognised ones is written as "?<source>" so that
the obligation of Props/C10Src.v that names it fails (nothing is claimed about it).  Texts are normalised with
ast.unparse (comments, docstrings, layout and quote style do not matter).
"""
import ast
import os


class TranslateError(Exception):
    pass


def parse(path):
    try:
        return ast.parse(open(path, encoding="utf-8").read(), filename=path)
    except (OSError, SyntaxError) as e:
        raise TranslateError("%s: %s" % (path, e))


def strip_doc(body):
    if body and isinstance(body[0], ast.Expr) and isinstance(getattr(body[0], "value", None), ast.Constant) \
            and isinstance(body[0].value.value, str):
        return body[1:]
    return body


def un(node):
    return ast.unparse(node)


def functions(tree):
    """module functions and methods by qualified name"""
    out = {}
    for n in tree.body:
        if isinstance(n, ast.FunctionDef):
            out[n.name] = n
        elif isinstance(n, ast.ClassDef):
            out[n.name] = n
            for m in n.body:
                if isinstance(m, ast.FunctionDef):
                    out[n.name + "." + m.name] = m
    return out


def need(fs, name):
    if name not in fs:
        raise TranslateError("no %s in the source" % name)
    return fs[name]


# ---------------------------------------------------------------- visitor

VISITOR = "STIXPatternVisitorForSTIX2"


def child_indices(fn):
    """constant indices k of children[k] / children[a if c else b] / children[k:] in a method"""
    out = []
    for n in ast.walk(fn):
        if isinstance(n, ast.Subscript) and isinstance(n.value, ast.Name) and n.value.id == "children":
            s = n.slice
            if isinstance(s, ast.Constant) and isinstance(s.value, int):
                out.append(s.value)
            elif isinstance(s, ast.IfExp):
                for arm in (s.body, s.orelse):
                    if isinstance(arm, ast.Constant) and isinstance(arm.value, int):
                        out.append(arm.value)
                    else:
                        out.append(-1)
            elif isinstance(s, ast.Slice) and isinstance(s.lower, ast.Constant) and s.upper is None:
                out.append(s.lower.value)
            else:
                out.append(-1)          # an index the translator does not understand
    return sorted(set(out))


def instantiated(fn):
    out = []
    for n in ast.walk(fn):
        if isinstance(n, ast.Call) and isinstance(n.func, ast.Attribute) and n.func.attr == "instantiate" \
                and n.args and isinstance(n.args[0], ast.Constant):
            out.append((n.lineno, n.col_offset, n.args[0].value))
    return [c for _, _, c in sorted(out)]


def inst_calls(fn):
    out = []
    for n in ast.walk(fn):
        if isinstance(n, ast.Call) and isinstance(n.func, ast.Attribute) and n.func.attr == "instantiate":
            out.append(n)
    return sorted(out, key=lambda n: (n.lineno, n.col_offset))


def assigned(fn, name):
    """the expression last assigned to a local name at the top level of a method"""
    val = None
    for s in fn.body:
        if isinstance(s, ast.Assign) and len(s.targets) == 1 and isinstance(s.targets[0], ast.Name) and s.targets[0].id == name:
            val = s.value
    return val


def negated_arg(call):
    """the text of the `negated` argument of instantiate(cls, lhs, rhs[, negated]) ('' = not passed)"""
    if len(call.args) >= 4:
        return un(call.args[3])
    for k in call.keywords:
        if k.arg == "negated":
            return un(k.value)
    return ""


def visitor_facts(fs):
    F = {}
    methods = sorted(k.split(".", 1)[1] for k in fs if k.startswith(VISITOR + ".visit"))
    if len(methods) < 30:
        raise TranslateError("only %d visit methods found in %s" % (len(methods), VISITOR))
    F["reads"] = [(m, child_indices(fs[VISITOR + "." + m])) for m in methods]
    F["classes"] = [(m, instantiated(fs[VISITOR + "." + m])) for m in methods]
    # --- variant sites
    eq = need(fs, VISITOR + ".visitPropTestEqual")
    op = assigned(eq, "operator")
    ng = assigned(eq, "negated")
    F["eq_operator"] = un(op) if op is not None else "?"
    F["eq_negated"] = un(ng) if ng is not None else "?"
    has_not = assigned(eq, "has_not")
    F["eq_has_not"] = un(has_not) if has_not is not None else ""
    order = need(fs, VISITOR + ".visitPropTestOrder")
    op = assigned(order, "operator")
    F["order_operator"] = un(op) if op is not None else "?"
    hn = assigned(order, "has_not")
    F["order_has_not"] = un(hn) if hn is not None else ""
    F["order_negated"] = sorted(set(negated_arg(c) for c in inst_calls(order)))
    for key, m in (("set", "visitPropTestSet"), ("like", "visitPropTestLike"), ("regex", "visitPropTestRegex"),
                   ("subset", "visitPropTestIsSubset"), ("superset", "visitPropTestIsSuperset")):
        calls = inst_calls(need(fs, VISITOR + "." + m))
        F["neg_" + key] = negated_arg(calls[0]) if len(calls) == 1 else "?%d calls" % len(calls)

    def chain_shape(m):
        fn = need(fs, VISITOR + "." + m)
        src = un(fn)
        if "operands.append(children[2])" in src and ".operands + [children[2]]" not in src:
            return "append"
        if ".operands + [children[2]]" in src and "operands.append" not in src:
            return "rebuild"
        return "?" + src[:200]
    F["chain_or"] = chain_shape("visitComparisonExpression")
    F["chain_and"] = chain_shape("visitComparisonExpressionAnd")
    # the name given to ListObjectPathComponent when the next step is a TerminalNode ([*])
    op_fn = need(fs, VISITOR + ".visitObjectPath")
    star = "?"
    for n in ast.walk(op_fn):
        if isinstance(n, ast.If) and "isinstance(next, TerminalNode)" == un(n.test):
            calls = [c for c in ast.walk(ast.Module(body=n.body, type_ignores=[])) if isinstance(c, ast.Call)
                     and isinstance(c.func, ast.Attribute) and c.func.attr == "instantiate"]
            if len(calls) == 1 and len(calls[0].args) == 3:
                star = un(calls[0].args[1])
    F["star_name"] = star
    # token type -> class of visitTerminal
    term = need(fs, VISITOR + ".visitTerminal")
    disp = []
    for n in ast.walk(term):
        if isinstance(n, ast.If):
            toks = sorted(set(x.attr for x in ast.walk(n.test) if isinstance(x, ast.Attribute)
                              and isinstance(x.value, ast.Attribute) and x.value.attr == "parser_class"))
            cls = [c.args[0].value for c in ast.walk(ast.Module(body=n.body, type_ignores=[]))
                   if isinstance(c, ast.Call) and isinstance(c.func, ast.Attribute) and c.func.attr == "instantiate"
                   and c.args and isinstance(c.args[0], ast.Constant)]
            if toks and cls:
                disp.append("%s->%s" % ("|".join(toks), "|".join(cls)))
    F["terminal"] = disp
    agg = need(fs, VISITOR + ".aggregateResult")
    F["aggregate"] = " ; ".join(un(s) for s in strip_doc(agg.body)).replace("\n", " ")
    return F


# ---------------------------------------------------------------- patterns.py

def template(fn):
    """the template(s) a __str__ returns: format string with the formatted expressions in braces"""
    def fmt(e):
        if isinstance(e, ast.BinOp) and isinstance(e.op, ast.Mod) and isinstance(e.left, ast.Constant) and isinstance(e.left.value, str):
            args = e.right.elts if isinstance(e.right, ast.Tuple) else [e.right]
            parts = e.left.value.split("%s")
            if len(parts) != len(args) + 1:
                return "?" + un(e)
            out = parts[0]
            for a, p in zip(args, parts[1:]):
                out += "{" + un(a) + "}" + p
            return out
        if isinstance(e, ast.IfExp):
            return fmt(e.body) + " IF " + un(e.test) + " ELSE " + fmt(e.orelse)
        return "=" + un(e)
    def sep_text(e):
        """a separator expression as a template: ' ' + x + ' '  and  ' %s ' % x  read the same"""
        if isinstance(e, ast.BinOp) and isinstance(e.op, ast.Add):
            return sep_text(e.left) + sep_text(e.right)
        if isinstance(e, ast.Constant) and isinstance(e.value, str):
            return e.value
        if isinstance(e, ast.BinOp) and isinstance(e.op, ast.Mod):
            return fmt(e)
        return "{" + un(e) + "}"

    def join_over_operands(r):
        if isinstance(r, ast.Call) and isinstance(r.func, ast.Attribute) and r.func.attr == "join" and len(r.args) == 1:
            a = r.args[0]
            if isinstance(a, (ast.GeneratorExp, ast.ListComp)) and len(a.generators) == 1 and un(a.generators[0].iter) == "self.operands" \
                    and not a.generators[0].ifs and un(a.elt) in ("str(%s)" % un(a.generators[0].target), "'%%s' %% %s" % un(a.generators[0].target)):
                return "JOIN '%s' OVER self.operands" % sep_text(r.func.value)
        return None
    body = strip_doc(fn.body)
    if len(body) == 1 and isinstance(body[0], ast.Return):
        j = join_over_operands(body[0].value)
        return j if j else fmt(body[0].value)
    if len(body) == 1 and isinstance(body[0], ast.If) and len(body[0].body) == 1 and len(body[0].orelse) == 1 \
            and isinstance(body[0].body[0], ast.Return) and isinstance(body[0].orelse[0], ast.Return):
        return fmt(body[0].body[0].value) + " IF " + un(body[0].test) + " ELSE " + fmt(body[0].orelse[0].value)
    # sub_exprs = []; for o in self.operands: sub_exprs.append(str(o) | "%s" % o); return SEP.join(sub_exprs)
    if len(body) == 3 and isinstance(body[0], ast.Assign) and isinstance(body[1], ast.For) and isinstance(body[2], ast.Return):
        r = body[2].value
        if isinstance(r, ast.Call) and isinstance(r.func, ast.Attribute) and r.func.attr == "join" and un(body[1].iter) == "self.operands":
            return "JOIN '%s' OVER self.operands" % sep_text(r.func.value)
    return "?" + " ; ".join(un(s) for s in body).replace("\n", " ")


STR_CLASSES = ["StringConstant", "TimestampConstant", "IntegerConstant", "FloatConstant", "BooleanConstant", "BinaryConstant",
               "HexConstant", "ListConstant", "_ObjectPathComponent", "ListObjectPathComponent", "ObjectPath",
               "_ComparisonExpression", "_BooleanExpression", "ObservationExpression", "_CompoundObservationExpression",
               "ParentheticalExpression", "RepeatQualifier", "WithinQualifier", "StartStopQualifier",
               "QualifiedObservationExpression"]

OPERATOR_CLASSES = ["EqualityComparisonExpression", "GreaterThanComparisonExpression", "LessThanComparisonExpression",
                    "GreaterThanEqualComparisonExpression", "LessThanEqualComparisonExpression", "InComparisonExpression",
                    "LikeComparisonExpression", "MatchesComparisonExpression", "IsSubsetComparisonExpression",
                    "IsSupersetComparisonExpression", "AndBooleanExpression", "OrBooleanExpression",
                    "AndObservationExpression", "OrObservationExpression", "FollowedByObservationExpression"]


def super_operator(fn):
    """the first argument of super(...).__init__(...) in an __init__"""
    for n in ast.walk(fn):
        if isinstance(n, ast.Call) and isinstance(n.func, ast.Attribute) and n.func.attr == "__init__" and n.args \
                and isinstance(n.args[0], ast.Constant) and isinstance(n.args[0].value, str):
            return n.args[0].value
    return "?"


def dispatch(fn):
    """top-level statements of a dispatching function as  test -> what is returned / raised"""
    out = []

    def leaf(stmts):
        s = [x for x in stmts]
        if len(s) == 1 and isinstance(s[0], ast.Return):
            return "return " + un(s[0].value)
        if len(s) == 1 and isinstance(s[0], ast.Raise):
            return "raise " + (un(s[0].exc.func) if isinstance(s[0].exc, ast.Call) else un(s[0].exc))
        if len(s) == 1 and isinstance(s[0], ast.Pass):
            return "pass"
        return "?" + " ; ".join(un(x) for x in s).replace("\n", " ")

    def walk_if(n):
        out.append("if %s: %s" % (un(n.test), leaf(n.body)))
        if len(n.orelse) == 1 and isinstance(n.orelse[0], ast.If):
            walk_if(n.orelse[0])
        elif n.orelse:
            out.append("else: %s" % leaf(n.orelse))
    for s in strip_doc(fn.body):
        if isinstance(s, ast.If):
            walk_if(s)
        elif isinstance(s, ast.Try):
            out.append("try: %s except %s: %s" % (leaf(s.body), "|".join(un(h.type) for h in s.handlers),
                                                  "|".join(leaf(h.body) for h in s.handlers)))
        else:
            out.append("?" + un(s).replace("\n", " "))
    return out


def regex_texts(fn):
    out = []
    for n in ast.walk(fn):
        if isinstance(n, ast.Call) and isinstance(n.func, ast.Attribute) and n.func.attr in ("match", "compile") \
                and isinstance(n.func.value, ast.Name) and n.func.value.id == "re" and n.args and isinstance(n.args[0], ast.Constant):
            out.append((n.lineno, n.args[0].value))
    return [t for _, t in sorted(out)]


def patterns_facts(tree, fs):
    F = {}
    esc = need(fs, "escape_quotes_and_backslashes")
    body = strip_doc(esc.body)
    F["escape"] = un(body[0].value) if len(body) == 1 and isinstance(body[0], ast.Return) else "?" + " ; ".join(un(s) for s in body)
    q = need(fs, "quote_if_needed")
    F["quote_body"] = " ; ".join(un(s) for s in strip_doc(q.body)).replace("\n", " ")
    # module-level constants used by quote_if_needed
    F["quote_regex"], F["quote_keywords"] = "", []
    for s in tree.body:
        if isinstance(s, ast.Assign) and len(s.targets) == 1 and isinstance(s.targets[0], ast.Name):
            name = s.targets[0].id
            if name in F["quote_body"]:
                for n in ast.walk(s.value):
                    if isinstance(n, ast.Call) and un(n.func) == "re.compile" and n.args and isinstance(n.args[0], ast.Constant):
                        F["quote_regex"] = n.args[0].value
                strs = [n.value for n in ast.walk(s.value) if isinstance(n, ast.Constant) and isinstance(n.value, str)]
                if len(strs) > 3:
                    F["quote_keywords"] = strs
    F["templates"] = [(c, template(need(fs, c + ".__str__"))) for c in STR_CLASSES]
    F["operators"] = [(c, super_operator(need(fs, c + ".__init__"))) for c in OPERATOR_CLASSES]
    F["make_constant"] = dispatch(need(fs, "make_constant"))
    F["create_component"] = dispatch(need(fs, "_ObjectPathComponent.create_ObjectPathComponent"))
    mop = need(fs, "ObjectPath.make_object_path")
    F["make_object_path"] = " ; ".join(un(x) for x in strip_doc(mop.body)).replace("\n", " ")
    F["hex_regexes"] = regex_texts(need(fs, "HexConstant.__init__"))
    F["binary_regexes"] = regex_texts(need(fs, "BinaryConstant.__init__"))
    w = need(fs, "WithinQualifier.__init__")
    F["within_tests"] = [un(n.test) for n in ast.walk(w) if isinstance(n, ast.If)]
    r = need(fs, "RepeatQualifier.__init__")
    F["repeat_tests"] = [un(n.test) for n in ast.walk(r) if isinstance(n, ast.If)]
    b = need(fs, "_BooleanExpression.__init__")
    F["bool_updates"] = sorted(un(n).replace("\n", " ") for n in ast.walk(b) if isinstance(n, ast.AugAssign))
    return F


# ---------------------------------------------------------------- the variant the text denotes

def flag(known_true, known_false, text):
    if text in known_true:
        return "true"
    if text in known_false:
        return "false"
    return None


IDX_NEG = "len(children) > 3"


def variant(V, P):
    """(flags, unrecognised): one entry per flag of PatternSyntax.cfg, None where the text is not a known one"""
    fl = {}
    eq_rep = (V["eq_operator"] == "children[2 if has_not else 1].symbol.type" and V["eq_has_not"] == IDX_NEG
              and V["eq_negated"] == "(operator != self.parser_class.EQ) != has_not")
    eq_pin = (V["eq_operator"] == "children[1].symbol.type" and V["eq_negated"] == "operator != self.parser_class.EQ")
    fl["neg_eq"] = "true" if eq_rep else "false" if eq_pin else None
    or_rep = (V["order_operator"] == "children[2 if has_not else 1].symbol.type" and V["order_has_not"] == IDX_NEG
              and V["order_negated"] == ["has_not"])
    or_pin = (V["order_operator"] == "children[1].symbol.type" and V["order_negated"] == ["False"])
    fl["neg_order"] = "true" if or_rep else "false" if or_pin else None
    for f, k in (("neg_set", "neg_set"), ("neg_like", "neg_like"), ("neg_regex", "neg_regex"), ("neg_subset", "neg_subset"),
                 ("neg_superset", "neg_superset")):
        fl[f] = flag([IDX_NEG], ["False", ""], V[k])
    fl["within_float"] = flag(["isinstance(number_of_seconds, (IntegerConstant, FloatConstant))"],
                              ["isinstance(number_of_seconds, IntegerConstant)"], (P["within_tests"] or ["?"])[0])
    ft = dict(P["templates"])["FloatConstant"]
    fl["float_pos"] = "true" if ("format(Decimal(text), 'f')" in ft and "'e' in text" in ft) else "false" if ft == "{self.value}" else None
    qb = P["quote_body"]
    fl["key_quote"] = "true" if (".match(x)" in qb and "in _PATTERN_KEYWORDS" in qb and "x.find('-')" not in qb
                                 and P["quote_regex"] == "^[a-zA-Z_][a-zA-Z0-9_]*\\Z") \
        else "false" if ("x.find('-') != -1" in qb and ".match(" not in qb) else None
    fl["hex_empty"] = flag([("^([a-fA-F0-9]{2})*$", "^h'(([a-fA-F0-9]{2})*)'$")], [("^([a-fA-F0-9]{2})+$", "^h'(([a-fA-F0-9]{2})+)'$")],
                           tuple(P["hex_regexes"]))
    fl["rt_append"] = "true" if (V["chain_or"] == "rebuild" and V["chain_and"] == "rebuild") \
        else "false" if (V["chain_or"] == "append" and V["chain_and"] == "append") else None
    fl["star_quoted"] = flag(["current.property_name if isinstance(current, BasicObjectPathComponent) else str(current)"],
                             ["current.property_name"], V["star_name"])
    return fl


FLAGS = ["neg_eq", "neg_order", "neg_set", "neg_like", "neg_regex", "neg_subset", "neg_superset", "within_float",
         "float_pos", "key_quote", "hex_empty", "rt_append", "star_quoted"]


# ---------------------------------------------------------------- Gallina

def cstr(s):
    if any(ord(c) < 32 or ord(c) > 126 for c in s):
        s = "".join(c if 32 <= ord(c) <= 126 else "?" for c in s)
    return '"' + s.replace('"', '""') + '"'


def clist(xs):
    return "[" + "; ".join(xs) + "]"


def facts(repo):
    vt = parse(os.path.join(repo, "stix2", "pattern_visitor.py"))
    pt = parse(os.path.join(repo, "stix2", "patterns.py"))
    V = visitor_facts(functions(vt))
    P = patterns_facts(pt, functions(pt))
    return V, P, variant(V, P)


def translate(repo, _py=None):
    V, P, fl = facts(repo)
    L = ["(* Gen/VisitorFacts.v -- GENERATED by translators/tr_visitor.py from the source text of",
         "   stix2/pattern_visitor.py and stix2/patterns.py.  Do not edit. *)",
         "From Coq Require Import List String.",
         "From V Require Import Model.PatternSyntax.",
         "Import ListNotations.",
         "Open Scope string_scope.",
         "",
         "(* constant child indices read by every visit method (children[k], both arms of children[a if c else b],",
         "   the lower bound of children[k:]; -1 = an index expression the translator does not understand) *)",
         "Definition src_reads : list (string * list nat) :=",
         "  " + clist(["(%s, %s)" % (cstr(m), clist(["%d%%nat" % i if i >= 0 else "999%nat" for i in idx])) for m, idx in V["reads"]]) + ".",
         "",
         "(* class names handed to self.instantiate, in order of appearance *)",
         "Definition src_classes : list (string * list string) :=",
         "  " + clist(["(%s, %s)" % (cstr(m), clist([cstr(c) for c in cs])) for m, cs in V["classes"]]) + ".",
         "",
         "(* the variant of Model/PatternSyntax.v the text denotes, flag by flag (None: the text at that site is",
         "   not one of the two the model has a variant for) *)",
         "Definition src_flags : list (string * option bool) :=",
         "  " + clist(["(%s, %s)" % (cstr(f), "Some " + fl[f] if fl[f] else "None") for f in FLAGS]) + ".",
         "",
         "(* the texts at the variant sites *)",
         "Definition src_sites : list (string * string) :=",
         "  " + clist(["(%s, %s)" % (cstr(k), cstr(v if isinstance(v, str) else " | ".join(v))) for k, v in [
             ("eq_operator", V["eq_operator"]), ("eq_has_not", V["eq_has_not"]), ("eq_negated", V["eq_negated"]),
             ("order_operator", V["order_operator"]), ("order_negated", V["order_negated"]),
             ("neg_set", V["neg_set"]), ("neg_like", V["neg_like"]), ("neg_regex", V["neg_regex"]),
             ("neg_subset", V["neg_subset"]), ("neg_superset", V["neg_superset"]),
             ("chain_or", V["chain_or"]), ("chain_and", V["chain_and"]), ("star_name", V["star_name"]),
             ("within_tests", P["within_tests"]), ("repeat_tests", P["repeat_tests"]), ("hex_regexes", P["hex_regexes"]),
             ("binary_regexes", P["binary_regexes"]), ("bool_updates", P["bool_updates"]), ("aggregate", V["aggregate"])]]) + ".",
         "",
         "Definition src_terminal : list string := " + clist([cstr(x) for x in V["terminal"]]) + ".",
         "",
         "(* escape_quotes_and_backslashes: the returned expression *)",
         "Definition src_escape : string := " + cstr(P["escape"]) + ".",
         "",
         "(* quote_if_needed *)",
         "Definition src_quote_body : string := " + cstr(P["quote_body"]) + ".",
         "Definition src_quote_regex : string := " + cstr(P["quote_regex"]) + ".",
         "Definition src_quote_keywords : list string := " + clist([cstr(x) for x in P["quote_keywords"]]) + ".",
         "",
         "(* the template of every __str__ *)",
         "Definition src_templates : list (string * string) :=",
         "  " + clist(["(%s, %s)" % (cstr(c), cstr(t)) for c, t in P["templates"]]) + ".",
         "",
         "(* the operator spelling each class passes to its base class *)",
         "Definition src_operators : list (string * string) :=",
         "  " + clist(["(%s, %s)" % (cstr(c), cstr(t)) for c, t in P["operators"]]) + ".",
         "",
         "Definition src_make_constant : list string := " + clist([cstr(x) for x in P["make_constant"]]) + ".",
         "Definition src_create_component : list string := " + clist([cstr(x) for x in P["create_component"]]) + ".",
         "(* ObjectPath.make_object_path: the statements of its body *)",
         "Definition src_make_object_path : string := " + cstr(P["make_object_path"]) + ".",
         ""]
    F = {"flags": fl, "visitor": V, "patterns": P}
    return "\n".join(L), F


if __name__ == "__main__":
    import sys
    print(translate(sys.argv[1] if len(sys.argv) > 1 else "/repo")[0])

"""tr_scoid -- tables for C06 regenerated from /repo on every run:

  * the STIX 2.1 observable registry (live: stix2.registry after import, so
    what class_for_type would return) with each class's
    `_id_contributing_properties`;
  * SCO_DET_ID_NAMESPACE (stix2/base.py) as text;
  * the preference chain of `_choose_one_hash` (stix2/base.py, via ast): the
    names tested by the if/elif chain in order, and the shape of the final
    `else` (first key in dictionary order, or least key by name).

Fail closed: anything not understood raises TranslateError."""
import ast
import json
import os
import subprocess

HERE = os.path.dirname(os.path.abspath(__file__))


class TranslateError(Exception):
    pass


DUMP = r'''
import json, sys
import stix2, stix2.base, stix2.registry
reg = stix2.registry.STIX2_OBJ_MAPS["2.1"]["observables"]
out = {}
for ty, cls in reg.items():
    if not hasattr(cls, "_id_contributing_properties"):
        sys.exit("class for %r has no _id_contributing_properties" % ty)
    l = cls._id_contributing_properties
    if not isinstance(l, (list, tuple)) or not all(isinstance(x, str) for x in l):
        sys.exit("_id_contributing_properties of %r is not a list of str: %r" % (ty, l))
    if getattr(cls, "_type", None) != ty:
        sys.exit("registry key %r names a class of _type %r" % (ty, getattr(cls, "_type", None)))
    out[ty] = list(l)
print(json.dumps({"table": out, "namespace": str(stix2.base.SCO_DET_ID_NAMESPACE)}))
'''


def ustr(s):
    out = []
    for ch in s:
        c = ord(ch)
        if 32 <= c <= 126 and ch not in '\\"':
            out.append(ch)
        else:
            out.append("\\%06X" % c)
    return '(u "%s")' % "".join(out)


def _is_name(n, name):
    return isinstance(n, ast.Name) and n.id == name


def _single_member_dict(node, arg, key_pred):
    """`{K: arg[K]}` with key_pred(K)"""
    if not (isinstance(node, ast.Dict) and len(node.keys) == 1):
        return False
    k, v = node.keys[0], node.values[0]
    if not key_pred(k):
        return False
    return (isinstance(v, ast.Subscript) and _is_name(v.value, arg)
            and ast.dump(v.slice) == ast.dump(k))


def hash_chain(repo):
    src = open(os.path.join(repo, "stix2", "base.py"), encoding="utf-8").read()
    tree = ast.parse(src)
    fns = [n for n in tree.body if isinstance(n, ast.FunctionDef) and n.name == "_choose_one_hash"]
    if len(fns) != 1:
        raise TranslateError("_choose_one_hash: expected exactly one module-level definition")
    fn = fns[0]
    if len(fn.args.args) != 1 or fn.args.vararg or fn.args.kwarg or fn.args.kwonlyargs or fn.args.defaults:
        raise TranslateError("_choose_one_hash: unexpected signature")
    arg = fn.args.args[0].arg
    body = [s for s in fn.body if not (isinstance(s, ast.Expr) and isinstance(s.value, ast.Constant))]
    if len(body) != 2 or not isinstance(body[0], ast.If):
        raise TranslateError("_choose_one_hash: body is not `if ... chain; return None`")
    last = body[1]
    if not (isinstance(last, ast.Return) and isinstance(last.value, ast.Constant) and last.value.value is None):
        raise TranslateError("_choose_one_hash: does not end in `return None`")
    prefs = []
    node = body[0]
    while True:
        t = node.test
        if not (isinstance(t, ast.Compare) and len(t.ops) == 1 and isinstance(t.ops[0], ast.In)
                and isinstance(t.left, ast.Constant) and isinstance(t.left.value, str)
                and _is_name(t.comparators[0], arg)):
            raise TranslateError("_choose_one_hash: test is not `\"NAME\" in %s`: %s" % (arg, ast.unparse(t)))
        name = t.left.value
        if not (len(node.body) == 1 and isinstance(node.body[0], ast.Return)
                and _single_member_dict(node.body[0].value, arg,
                                        lambda k: isinstance(k, ast.Constant) and k.value == name)):
            raise TranslateError("_choose_one_hash: branch for %r does not return {%r: %s[%r]}" % (name, name, arg, name))
        prefs.append(name)
        if len(node.orelse) == 1 and isinstance(node.orelse[0], ast.If):
            node = node.orelse[0]
            continue
        tail = node.orelse
        break
    # else: k = <pick>; if k is not None: return {k: arg[k]}
    if not (len(tail) == 2 and isinstance(tail[0], ast.Assign) and len(tail[0].targets) == 1
            and isinstance(tail[0].targets[0], ast.Name) and isinstance(tail[1], ast.If)):
        raise TranslateError("_choose_one_hash: else branch not understood: %s" % " ; ".join(ast.unparse(s) for s in tail))
    kvar = tail[0].targets[0].id
    pick = ast.unparse(tail[0].value).replace(" ", "")
    picks = {
        "next(iter(%s),None)" % arg: "ByDictOrder",
        "min(%s,default=None)" % arg: "ByName",
        "min(%s.keys(),default=None)" % arg: "ByName",
    }
    if pick not in picks:
        raise TranslateError("_choose_one_hash: unknown way to pick the fallback hash: %s" % ast.unparse(tail[0].value))
    g = tail[1]
    gt = ast.unparse(g.test).replace(" ", "")
    if gt != "%sisnotNone" % kvar or g.orelse or not (
            len(g.body) == 1 and isinstance(g.body[0], ast.Return)
            and _single_member_dict(g.body[0].value, arg, lambda k: _is_name(k, kvar))):
        raise TranslateError("_choose_one_hash: fallback guard/return not understood")
    return prefs, picks[pick]


def dump(repo, py="/venv/bin/python"):
    env = dict(os.environ)
    env["PYTHONPATH"] = repo
    env["PYTHONHASHSEED"] = "0"
    env["PYTHONDONTWRITEBYTECODE"] = "1"
    p = subprocess.run([py, "-c", DUMP], stdout=subprocess.PIPE, stderr=subprocess.PIPE, text=True, env=env, cwd="/")
    if p.returncode != 0:
        raise TranslateError("registry dump failed: " + p.stderr.strip()[-800:])
    return json.loads(p.stdout)


def translate(repo, py="/venv/bin/python"):
    d = dump(repo, py)
    prefs, pick = hash_chain(repo)
    rows = ";\n    ".join("(%s, [%s])" % (ustr(ty), "; ".join(ustr(x) for x in l)) for ty, l in d["table"].items())
    text = "\n".join([
        "(* GENERATED by translators/tr_scoid.py from /repo (live 2.1 observable registry, stix2/base.py) -- do not edit *)",
        "From Coq Require Import NArith List String.",
        "From V Require Import Base.UString Model.ScoId.",
        "Import ListNotations.",
        "",
        "Definition gen_sco_table_raw : list (ustring * list ustring) :=",
        "  [ %s ]." % rows,
        "Definition gen_sco_table : list (ustring * list ustring) := Eval vm_compute in gen_sco_table_raw.",
        "",
        "(* _choose_one_hash: names tested by the if/elif chain, in order; shape of the else branch *)",
        "Definition gen_hash_prefs : list ustring := Eval vm_compute in [%s]." % "; ".join(ustr(x) for x in prefs),
        "Definition gen_hash_else : hash_pick := %s." % pick,
        "",
        "Definition gen_namespace : ustring := Eval vm_compute in %s." % ustr(d["namespace"]),
        "",
    ])
    return text, {"table": d["table"], "namespace": d["namespace"], "prefs": prefs, "pick": pick}

"""tr_scoid -- tables for C06 regenerated from /repo on every run:

  * the STIX 2.1 observable registry (live: stix2.registry after import, so
    what class_for_type would return) with each class's
    `_id_contributing_properties`;
  * SCO_DET_ID_NAMESPACE (stix2/base.py) as text;
  * the preference chain of `_choose_one_hash` (stix2/base.py, via ast): the
    names tested by the if/elif chain in order, and the shape of the final
    `else` (first key in dictionary order, or least key by name).

Fail closed: anything not understood raises TranslateError."""
import ast
import json
import os
import subprocess

HERE = os.path.dirname(os.path.abspath(__file__))


class TranslateError(Exception):
    pass


DUMP = r'''
import json, sys
import stix2, stix2.base, stix2.registry
reg = stix2.registry.STIX2_OBJ_MAPS["2.1"]["observables"]
out = {}
for ty, cls in reg.items():
    if not hasattr(cls, "_id_contributing_properties"):
        sys.exit("class for %r has no _id_contributing_properties" % ty)
    l = cls._id_contributing_properties
    if not isinstance(l, (list, tuple)) or not all(isinstance(x, str) for x in l):
        sys.exit("_id_contributing_properties of %r is not a list of str: %r" % (ty, l))
    if getattr(cls, "_type", None) != ty:
        sys.exit("registry key %r names a class of _type %r" % (ty, getattr(cls, "_type", None)))
    out[ty] = list(l)
print(json.dumps({"table": out, "namespace": str(stix2.base.SCO_DET_ID_NAMESPACE)}))
'''


def ustr(s):
    out = []
    for ch in s:
        c = ord(ch)
        if 32 <= c <= 126 and ch not in '\\"':
            out.append(ch)
        else:
            out.append("\\%06X" % c)
    return '(u "%s")' % "".join(out)


def _is_name(n, name):
    return isinstance(n, ast.Name) and n.id == name


def _single_member_dict(node, arg, key_pred):
    """`{K: arg[K]}` with key_pred(K)"""
    if not (isinstance(node, ast.Dict) and len(node.keys) == 1):
        return False
    k, v = node.keys[0], node.values[0]
    if not key_pred(k):
        return False
    return (isinstance(v, ast.Subscript) and _is_name(v.value, arg)
            and ast.dump(v.slice) == ast.dump(k))


def hash_chain(repo):
    src = open(os.path.join(repo, "stix2", "base.py"), encoding="utf-8").read()
    tree = ast.parse(src)
    fns = [n for n in tree.body if isinstance(n, ast.FunctionDef) and n.name == "_choose_one_hash"]
    if len(fns) != 1:
        raise TranslateError("_choose_one_hash: expected exactly one module-level definition")
    fn = fns[0]
    if len(fn.args.args) != 1 or fn.args.vararg or fn.args.kwarg or fn.args.kwonlyargs or fn.args.defaults:
        raise TranslateError("_choose_one_hash: unexpected signature")
    arg = fn.args.args[0].arg
    body = [s for s in fn.body if not (isinstance(s, ast.Expr) and isinstance(s.value, ast.Constant))]
    if len(body) != 2 or not isinstance(body[0], ast.If):
        raise TranslateError("_choose_one_hash: body is not `if ... chain; return None`")
    last = body[1]
    if not (isinstance(last, ast.Return) and isinstance(last.value, ast.Constant) and last.value.value is None):
        raise TranslateError("_choose_one_hash: does not end in `return None`")
    prefs = []
    node = body[0]
    while True:
        t = node.test
        if not (isinstance(t, ast.Compare) and len(t.ops) == 1 and isinstance(t.ops[0], ast.In)
                and isinstance(t.left, ast.Constant) and isinstance(t.left.value, str)
                and _is_name(t.comparators[0], arg)):
            raise TranslateError("_choose_one_hash: test is not `\"NAME\" in %s`: %s" % (arg, ast.unparse(t)))
        name = t.left.value
        if not (len(node.body) == 1 and isinstance(node.body[0], ast.Return)
                and _single_member_dict(node.body[0].value, arg,
                                        lambda k: isinstance(k, ast.Constant) and k.value == name)):
            raise TranslateError("_choose_one_hash: branch for %r does not return {%r: %s[%r]}" % (name, name, arg, name))
        prefs.append(name)
        if len(node.orelse) == 1 and isinstance(node.orelse[0], ast.If):
            node = node.orelse[0]
            continue
        tail = node.orelse
        break
    # else: k = <pick>; if k is not None: return {k: arg[k]}
    if not (len(tail) == 2 and isinstance(tail[0], ast.Assign) and len(tail[0].targets) == 1
            and isinstance(tail[0].targets[0], ast.Name) and isinstance(tail[1], ast.If)):
        raise TranslateError("_choose_one_hash: else branch not understood: %s" % " ; ".join(ast.unparse(s) for s in tail))
    kvar = tail[0].targets[0].id
    pick = ast.unparse(tail[0].value).replace(" ", "")
    picks = {
        "next(iter(%s),None)" % arg: "ByDictOrder",
        "min(%s,default=None)" % arg: "ByName",
        "min(%s.keys(),default=None)" % arg: "ByName",
    }
    if pick not in picks:
        raise TranslateError("_choose_one_hash: unknown way to pick the fallback hash: %s" % ast.unparse(tail[0].value))
    g = tail[1]
    gt = ast.unparse(g.test).replace(" ", "")
    if gt != "%sisnotNone" % kvar or g.orelse or not (
            len(g.body) == 1 and isinstance(g.body[0], ast.Return)
            and _single_member_dict(g.body[0].value, arg, lambda k: _is_name(k, kvar))):
        raise TranslateError("_choose_one_hash: fallback guard/return not understood")
    return prefs, picks[pick]


def _nodoc(body):
    return [x for x in body if not (isinstance(x, ast.Expr) and isinstance(x.value, ast.Constant) and isinstance(x.value.value, str))]


def _u(n):
    return ast.unparse(n).replace(" ", "")


def generate_id_shape(repo):
    """shape of _Observable._generate_id (stix2/base.py) -> dict of facts; aborts on an unknown statement pattern"""
    tree = ast.parse(open(os.path.join(repo, "stix2", "base.py"), encoding="utf-8").read())
    cls = [n for n in tree.body if isinstance(n, ast.ClassDef) and n.name == "_Observable"]
    if len(cls) != 1:
        raise TranslateError("stix2/base.py: class _Observable not found")
    fn = [n for n in cls[0].body if isinstance(n, ast.FunctionDef) and n.name == "_generate_id"]
    if len(fn) != 1:
        raise TranslateError("_Observable._generate_id not found")
    body = _nodoc(fn[0].body)
    if len(body) != 5:
        raise TranslateError("_generate_id: expected 5 statements (id_ = None; dict = {}; for; if; return), found %d" % len(body))
    a0, a1, loop, guard, ret = body
    if _u(a0) != "id_=None" or not (isinstance(a1, ast.Assign) and _u(a1.value) == "{}") or _u(ret) != "returnid_":
        raise TranslateError("_generate_id: prologue / return not understood")
    dname = _u(a1.targets[0])
    if not isinstance(loop, ast.For) or loop.orelse or _u(loop.target) != "key":
        raise TranslateError("_generate_id: loop not understood")
    facts = {"loop_over": ast.unparse(loop.iter)}
    lb = _nodoc(loop.body)
    # presence test and value
    if len(lb) == 1 and isinstance(lb[0], ast.If) and not lb[0].orelse:
        test = _u(lb[0].test)
        inner = _nodoc(lb[0].body)
        facts["presence"] = "PresenceIn" if test == "keyinself" else "(PresenceOther %s)" % ustr(ast.unparse(lb[0].test))
        if not (inner and isinstance(inner[0], ast.Assign) and _u(inner[0].targets[0]) == "obj_value"):
            raise TranslateError("_generate_id: `obj_value = ...` not found")
        vsrc = _u(inner[0].value)
        facts["value"] = {"self[key]": "ValueIndex", "self.get(key)": "ValueGet"}.get(vsrc, "(ValueOther %s)" % ustr(vsrc))
        rest = inner[1:]
    elif len(lb) == 2 and isinstance(lb[0], ast.Assign) and _u(lb[0].targets[0]) == "obj_value" and isinstance(lb[1], ast.If) \
            and not lb[1].orelse:
        vsrc = _u(lb[0].value)
        facts["value"] = {"self[key]": "ValueIndex", "self.get(key)": "ValueGet"}.get(vsrc, "(ValueOther %s)" % ustr(vsrc))
        test = _u(lb[1].test)
        facts["presence"] = {"obj_value": "PresenceTruthy", "keyinself": "PresenceIn"}.get(
            test, "(PresenceOther %s)" % ustr(ast.unparse(lb[1].test)))
        rest = _nodoc(lb[1].body)
    else:
        raise TranslateError("_generate_id: loop body not understood")
    # if key == "hashes": v = f(obj_value); if v is None: raise E(...)  else: v = g(obj_value);  d[key] = v
    if not (len(rest) == 2 and isinstance(rest[0], ast.If) and isinstance(rest[1], ast.Assign)):
        raise TranslateError("_generate_id: hashes dispatch / store not understood")
    disp, store = rest
    t = disp.test
    if not (isinstance(t, ast.Compare) and len(t.ops) == 1 and isinstance(t.ops[0], ast.Eq) and _u(t.left) == "key"
            and isinstance(t.comparators[0], ast.Constant) and isinstance(t.comparators[0].value, str)):
        raise TranslateError("_generate_id: special-case test is not `key == <literal>`")
    facts["hashes_key"] = t.comparators[0].value
    hb, ob = _nodoc(disp.body), _nodoc(disp.orelse)
    def call_of(st):
        if isinstance(st, ast.Assign) and _u(st.targets[0]) == "serializable_value" and isinstance(st.value, ast.Call) \
                and len(st.value.args) == 1 and not st.value.keywords and _u(st.value.args[0]) == "obj_value":
            return ast.unparse(st.value.func)
        raise TranslateError("_generate_id: `serializable_value = f(obj_value)` expected, got " + ast.unparse(st)[:80])
    if len(hb) != 2 or len(ob) != 1:
        raise TranslateError("_generate_id: branches of the hashes dispatch not understood")
    facts["hashes_fn"] = call_of(hb[0])
    g = hb[1]
    if not (isinstance(g, ast.If) and _u(g.test) == "serializable_valueisNone" and not g.orelse and len(g.body) == 1
            and isinstance(g.body[0], ast.Raise) and isinstance(g.body[0].exc, ast.Call)):
        raise TranslateError("_generate_id: `if serializable_value is None: raise ...` not understood")
    facts["hashes_none_raises"] = ast.unparse(g.body[0].exc.func)
    facts["other_fn"] = call_of(ob[0])
    if _u(store) != "%s[key]=serializable_value" % dname:
        raise TranslateError("_generate_id: store into the dictionary not understood")
    # if d: data = canonicalize(d, utf8=False); uuid_ = uuid.uuid5(NS, data); id_ = "{}--{}".format(self._type, str(uuid_))
    facts["nonempty_guard"] = isinstance(guard, ast.If) and _u(guard.test) == dname and not guard.orelse
    gb = _nodoc(guard.body) if isinstance(guard, ast.If) else []
    if len(gb) != 3 or not all(isinstance(x, ast.Assign) and isinstance(x.value, ast.Call) for x in gb):
        raise TranslateError("_generate_id: id computation not understood")
    c, u5, fm = gb
    if not (_u(c.targets[0]) == "data" and len(c.value.args) == 1 and _u(c.value.args[0]) == dname):
        raise TranslateError("_generate_id: canonicalization call not understood")
    facts["canon_fn"] = ast.unparse(c.value.func)
    kws = {k.arg: k.value for k in c.value.keywords}
    if set(kws) - {"utf8"}:
        raise TranslateError("_generate_id: unexpected keyword of the canonicalization call")
    facts["canon_utf8"] = None if "utf8" not in kws else ast.literal_eval(kws["utf8"])
    if not (_u(u5.targets[0]) == "uuid_" and len(u5.value.args) == 2 and not u5.value.keywords and _u(u5.value.args[1]) == "data"):
        raise TranslateError("_generate_id: uuid call not understood")
    facts["uuid_fn"] = ast.unparse(u5.value.func)
    facts["namespace_name"] = ast.unparse(u5.value.args[0])
    f = fm.value
    if not (_u(fm.targets[0]) == "id_" and isinstance(f.func, ast.Attribute) and f.func.attr == "format"
            and isinstance(f.func.value, ast.Constant) and isinstance(f.func.value.value, str) and not f.keywords):
        raise TranslateError("_generate_id: id formatting not understood")
    facts["id_format"] = f.func.value.value
    facts["id_args"] = [ast.unparse(x) for x in f.args]
    return facts


def mjs_shape(repo):
    """dispatch of _make_json_serializable (stix2/base.py), test by test"""
    tree = ast.parse(open(os.path.join(repo, "stix2", "base.py"), encoding="utf-8").read())
    fn = [n for n in tree.body if isinstance(n, ast.FunctionDef) and n.name == "_make_json_serializable"]
    if len(fn) != 1 or [a.arg for a in fn[0].args.args] != ["value"]:
        raise TranslateError("_make_json_serializable(value) not found")
    body = _nodoc(fn[0].body)
    if len(body) != 4:
        raise TranslateError("_make_json_serializable: expected 4 statements, found %d" % len(body))
    none, init, chain, ret = body
    steps = []
    if not (isinstance(none, ast.If) and _u(none.test) == "valueisNone" and len(none.body) == 1 and isinstance(none.body[0], ast.Raise)
            and isinstance(none.body[0].exc, ast.Call) and not none.orelse):
        raise TranslateError("_make_json_serializable: None test not understood")
    steps.append("(MNoneRaises %s)" % ustr(ast.unparse(none.body[0].exc.func)))
    if _u(init) != "json_value=value" or _u(ret) != "returnjson_value":
        raise TranslateError("_make_json_serializable: default / return not understood")
    node = chain
    while True:
        if not isinstance(node, ast.If):
            raise TranslateError("_make_json_serializable: dispatch is not an if/elif chain")
        t = _u(node.test)
        b = "".join(_u(x) for x in _nodoc(node.body))
        if t == "isinstance(value,collections.abc.Mapping)":
            if b != "json_value={k:_make_json_serializable(v)fork,vinvalue.items()}":
                raise TranslateError("_make_json_serializable: Mapping branch not understood")
            steps.append("MMappingRecurse")
        elif t == "isinstance(value,list)":
            if b != "json_value=[_make_json_serializable(v)forvinvalue]":
                raise TranslateError("_make_json_serializable: list branch not understood")
            steps.append("MListRecurse")
        elif t.startswith("notisinstance(value,(") and t.endswith("))"):
            excluded = t[len("notisinstance(value,("):-2].split(",")
            nb = _nodoc(node.body)
            if len(nb) != 2 or not isinstance(nb[0], ast.Assign) or not isinstance(nb[0].value, ast.Call):
                raise TranslateError("_make_json_serializable: fallback branch not understood")
            call = nb[0].value
            kws = {k.arg: _u(k.value) for k in call.keywords}
            if ast.unparse(call.func) != "json.dumps" or _u(call.args[0]) != "value" or set(kws) != {"ensure_ascii", "cls"}:
                raise TranslateError("_make_json_serializable: json.dumps call not understood")
            strip = _u(nb[1]).replace("\n", "").replace("(", "").replace(")", "") == (
                "iflenjson_value>=2andjson_value[0]=='\"'andjson_value[-1]=='\"':"
                "json_value=_un_json_escapejson_value[1:-1]")
            steps.append("(MOtherDumps [%s] %s %s %s)" % ("; ".join(ustr(x) for x in excluded), ustr(kws["cls"]),
                                                          "true" if kws["ensure_ascii"] == "True" else "false",
                                                          "true" if strip else "false"))
        else:
            raise TranslateError("_make_json_serializable: test not understood: " + ast.unparse(node.test)[:80])
        if len(node.orelse) == 1 and isinstance(node.orelse[0], ast.If):
            node = node.orelse[0]
        elif not node.orelse:
            break
        else:
            raise TranslateError("_make_json_serializable: trailing else not understood")
    return steps


def init21_shape(repo):
    tree = ast.parse(open(os.path.join(repo, "stix2", "v21", "base.py"), encoding="utf-8").read())
    cls = [n for n in tree.body if isinstance(n, ast.ClassDef) and n.name == "_Observable"]
    if len(cls) != 1:
        raise TranslateError("stix2/v21/base.py: class _Observable not found")
    fn = [n for n in cls[0].body if isinstance(n, ast.FunctionDef) and n.name == "__init__"]
    if len(fn) != 1:
        raise TranslateError("v21 _Observable.__init__ not found")
    body = _nodoc(fn[0].body)
    if len(body) != 2 or _u(body[0]) != "super(_Observable,self).__init__(**kwargs)" or not isinstance(body[1], ast.If):
        raise TranslateError("v21 _Observable.__init__: body not understood")
    g = body[1]
    gb = _nodoc(g.body)
    # `if 'id' not in kwargs:` (an explicit id=None counts as given) or `if kwargs.get('id') is None:` (it does not)
    guard = _u(g.test) in ("'id'notinkwargs", "kwargs.get('id')isNone") and not g.orelse
    init21_shape.none_is_absent = _u(g.test) == "kwargs.get('id')isNone"
    calls = len(gb) == 2 and _u(gb[0]) == "id_=self._generate_id()"
    repl = len(gb) == 2 and isinstance(gb[1], ast.If) and _u(gb[1].test) == "id_isnotNone" and not gb[1].orelse \
        and "".join(_u(x) for x in _nodoc(gb[1].body)) == "self._inner['id']=id_"
    return guard, calls, repl


def dump(repo, py="/venv/bin/python"):
    env = dict(os.environ)
    env["PYTHONPATH"] = repo
    env["PYTHONHASHSEED"] = "0"
    env["PYTHONDONTWRITEBYTECODE"] = "1"
    p = subprocess.run([py, "-c", DUMP], stdout=subprocess.PIPE, stderr=subprocess.PIPE, text=True, env=env, cwd="/")
    if p.returncode != 0:
        raise TranslateError("registry dump failed: " + p.stderr.strip()[-800:])
    return json.loads(p.stdout)


def translate(repo, py="/venv/bin/python"):
    d = dump(repo, py)
    prefs, pick = hash_chain(repo)
    gi = generate_id_shape(repo)
    mjs = mjs_shape(repo)
    i21 = init21_shape(repo)
    b = lambda x: "true" if x else "false"
    rows = ";\n    ".join("(%s, [%s])" % (ustr(ty), "; ".join(ustr(x) for x in l)) for ty, l in d["table"].items())
    text = "\n".join([
        "(* GENERATED by translators/tr_scoid.py from /repo (live 2.1 observable registry, stix2/base.py) -- do not edit *)",
        "From Coq Require Import NArith List String.",
        "From V Require Import Base.UString Model.ScoId Model.ScoIdSrc.",
        "Import ListNotations.",
        "",
        "Definition gen_sco_table_raw : list (ustring * list ustring) :=",
        "  [ %s ]." % rows,
        "Definition gen_sco_table : list (ustring * list ustring) := Eval vm_compute in gen_sco_table_raw.",
        "",
        "(* _choose_one_hash: names tested by the if/elif chain, in order; shape of the else branch *)",
        "Definition gen_hash_prefs : list ustring := Eval vm_compute in [%s]." % "; ".join(ustr(x) for x in prefs),
        "Definition gen_hash_else : hash_pick := %s." % pick,
        "",
        "Definition gen_namespace : ustring := Eval vm_compute in %s." % ustr(d["namespace"]),
        "",
        "(* shape of _Observable._generate_id, _make_json_serializable (stix2/base.py), v21 _Observable.__init__ *)",
        "Definition gen_genid : genid_src := Eval vm_compute in",
        "  {| gs_loop_over := %s; gs_presence := %s; gs_value := %s;" % (ustr(gi["loop_over"]), gi["presence"], gi["value"]),
        "     gs_hashes_key := %s; gs_hashes_fn := %s; gs_hashes_none_raises := %s;" % (
            ustr(gi["hashes_key"]), ustr(gi["hashes_fn"]), ustr(gi["hashes_none_raises"])),
        "     gs_other_fn := %s; gs_nonempty_guard := %s;" % (ustr(gi["other_fn"]), b(gi["nonempty_guard"])),
        "     gs_canon_fn := %s; gs_canon_utf8 := %s;" % (ustr(gi["canon_fn"]),
                                                          "None" if gi["canon_utf8"] is None else "(Some %s)" % b(gi["canon_utf8"])),
        "     gs_uuid_fn := %s; gs_namespace_name := %s;" % (ustr(gi["uuid_fn"]), ustr(gi["namespace_name"])),
        "     gs_id_format := %s; gs_id_args := [%s] |}." % (ustr(gi["id_format"]), "; ".join(ustr(x) for x in gi["id_args"])),
        "Definition gen_mjs : list mjs_step := Eval vm_compute in [%s]." % "; ".join(mjs),
        "Definition gen_init21 : init21_src :=",
        "  {| is_guard_id_not_in_kwargs := %s; is_calls_generate_id := %s; is_replaces_only_when_not_none := %s |}." % tuple(b(x) for x in i21),
        "",
    ])
    return text, {"table": d["table"], "namespace": d["namespace"], "prefs": prefs, "pick": pick,
                  "none_is_absent": getattr(init21_shape, "none_is_absent", None),
                  "presence": gi["presence"], "value": gi["value"]}

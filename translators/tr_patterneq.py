"""tr_patterneq -- the choices of the pattern-equivalence code read from the SOURCE TEXT
(Gen/PatternEqFacts.v).

The hand-written model coq/Model/PatternEq.v (property C09) fixes what
stix2/equivalence/pattern does.  It is tied to the behaviour of the code by the
correspondence run; this translator reads the same choices from the `ast` of

    compare/comparison.py   _COMPARISON_OP_ORDER, _CONSTANT_TYPE_ORDER, constant_cmp (numbers against the
                            rest), simple_comparison_expression_cmp (which fields in which order, incl.
                            `negated`), comparison_expression_cmp (the order of the cases)
    compare/observation.py  _OBSERVATION_EXPRESSION_TYPE_ORDER, _QUALIFIER_TYPE_ORDER,
                            observation_expression_cmp (the order of the cases)
    transform/__init__.py   ChainTransformer.transform, SettleTransformer.transform
    transform/comparison.py _dupe_ast (the constructor arguments, incl. negated), AbsorptionTransformer (the
                            deletion order), SpecialValueCanonicalization (the MATCHES guard, the dispatch)
    transform/observation.py AbsorptionTransformer (__is_contained_and consuming the matched operand, the
                            deletion order), NormalizeComparisonExpressionsTransformer.__init__ (the chains)
    transform/specials.py   _mask_bytes (its arithmetic, as Gallina functions), the StringConstant guards and
                            the ValueError handlers of windows_reg_key / ipv4_addr / ipv6_addr
    pattern/__init__.py     _get_pattern_normalizer (the chains), equivalent_patterns,
                            find_equivalent_patterns (every member parsed, normalised and compared; no cache)

and writes them as Gallina definitions `src_*` (vocabulary: coq/Proofs/PatternEqSrcDefs.v), so that
Props/C09Src.v states, by name, that each is the choice the model makes: a regression of the text to a
recognised other choice breaks that obligation.

Fail closed: a function whose text is neither the recorded one nor a recognised alternative raises
TranslateError (naming the function) and nothing is written.
"""
import ast
import os


class TranslateError(Exception):
    pass


def up(e):
    return ast.unparse(e)


def _strip_doc(body):
    if body and isinstance(body[0], ast.Expr) and isinstance(getattr(body[0], "value", None), ast.Constant) \
            and isinstance(body[0].value.value, str):
        return body[1:]
    return body


def parse(path):
    with open(path, encoding="utf-8") as f:
        return ast.parse(f.read(), path)


def collect(tree):
    out = {}
    for n in tree.body:
        if isinstance(n, ast.FunctionDef):
            out[n.name] = n
        elif isinstance(n, ast.ClassDef):
            for m in n.body:
                if isinstance(m, ast.FunctionDef):
                    out["%s.%s" % (n.name, m.name)] = m
        elif isinstance(n, ast.Assign) and len(n.targets) == 1 and isinstance(n.targets[0], ast.Name):
            out["=" + n.targets[0].id] = n.value
    return out


def text(fn):
    return [up(s) for s in _strip_doc(fn.body)]


def need(fns, key):
    if key not in fns:
        raise TranslateError("%s: not found" % key)
    return fns[key]


P = os.path.join("stix2", "equivalence", "pattern")
FILES = {
    "ccmp": os.path.join(P, "compare", "comparison.py"),
    "ocmp": os.path.join(P, "compare", "observation.py"),
    "tr": os.path.join(P, "transform", "__init__.py"),
    "ctr": os.path.join(P, "transform", "comparison.py"),
    "otr": os.path.join(P, "transform", "observation.py"),
    "sp": os.path.join(P, "transform", "specials.py"),
    "top": os.path.join(P, "__init__.py"),
}

COPS = {"=": "OpEq", "!=": "OpNeq", "<>": "OpNeq2", "<": "OpLt", "<=": "OpLe", ">": "OpGt", ">=": "OpGe", "IN": "OpIn",
        "LIKE": "OpLike", "MATCHES": "OpMatches", "ISSUBSET": "OpSubset", "ISSUPERSET": "OpSuperset"}
CKINDS = {"StringConstant": "KStr", "BooleanConstant": "KBool", "TimestampConstant": "KTime", "HexConstant": "KHex",
          "BinaryConstant": "KBin", "ListConstant": "KLst", "IntegerConstant": "KNum", "FloatConstant": "KNum"}
OKINDS = {"ObservationExpression": "KObs", "AndObservationExpression": "KAnd", "OrObservationExpression": "KOr",
          "FollowedByObservationExpression": "KFby", "QualifiedObservationExpression": "KQual"}
QKINDS = {"RepeatQualifier": "QKRepeat", "WithinQualifier": "QKWithin", "StartStopQualifier": "QKStartStop"}


def table(fns, name, mapping, of_const):
    v = need(fns, "=" + name)
    if not isinstance(v, ast.Tuple):
        raise TranslateError("%s: not a tuple" % name)
    out = []
    for e in v.elts:
        k = e.value if (of_const and isinstance(e, ast.Constant)) else e.id if isinstance(e, ast.Name) else None
        if k not in mapping:
            raise TranslateError("%s: unrecognised element %s" % (name, up(e)))
        out.append(mapping[k])
    return out


def sign(stmt_text, what):
    if stmt_text == "result = -1":
        return "Lt"
    if stmt_text == "result = 1":
        return "Gt"
    raise TranslateError("%s: expected `result = -1` or `result = 1`, found `%s`" % (what, stmt_text))


def if_chain(node):
    """[(test text | None, [statement texts])] of an if / elif / else chain"""
    out = []
    while True:
        out.append((up(node.test), [up(s) for s in node.body]))
        if len(node.orelse) == 1 and isinstance(node.orelse[0], ast.If):
            node = node.orelse[0]
        else:
            if node.orelse:
                out.append((None, [up(s) for s in node.orelse]))
            return out


NUM1 = "isinstance(value1, (IntegerConstant, FloatConstant))"
NUM2 = "isinstance(value2, (IntegerConstant, FloatConstant))"
CONST_ELSE = [
    "type1 = type(value1)", "type2 = type(value2)", "type1_idx = _CONSTANT_TYPE_ORDER.index(type1)",
    "type2_idx = _CONSTANT_TYPE_ORDER.index(type2)", "result = generic_cmp(type1_idx, type2_idx)",
    "if result == 0:\n    cmp_func = _CONSTANT_COMPARATORS.get(type1)\n    if not cmp_func:\n"
    "        raise TypeError(\"Don't know how to compare \" + type1.__name__)\n    result = cmp_func(value1, value2)",
]
CONST_COMPARATORS = "{StringConstant: generic_constant_cmp, BooleanConstant: bool_cmp, TimestampConstant: generic_constant_cmp, " \
                    "HexConstant: hex_cmp, BinaryConstant: bin_cmp, ListConstant: list_cmp}"


class _Subst(ast.NodeTransformer):
    def __init__(self, env):
        self.env = env

    def visit_Name(self, n):
        return self.env.get(n.id, n)


def f_constant_cmp(fns, F):
    body = list(_strip_doc(need(fns, "constant_cmp").body))
    env = {}
    while body and isinstance(body[0], ast.Assign) and len(body[0].targets) == 1 and isinstance(body[0].targets[0], ast.Name) \
            and isinstance(body[0].value, ast.Call) and up(body[0].value.func) == "isinstance":
        env[body[0].targets[0].id] = body[0].value          # is_num1 = isinstance(value1, (...)): read through
        body.pop(0)
    if len(body) != 2 or not isinstance(body[0], ast.If) or up(body[1]) != "return result":
        raise TranslateError("constant_cmp: unrecognised shape")
    node = body[0]
    ch = []
    while True:
        ch.append((up(_Subst(env).visit(ast.parse(up(node.test), mode="eval").body)), [up(x) for x in node.body]))
        if len(node.orelse) == 1 and isinstance(node.orelse[0], ast.If):
            node = node.orelse[0]
        else:
            ch.append((None, [up(x) for x in node.orelse]))
            break
    if ch[0] != (NUM1 + " and " + NUM2, ["result = generic_constant_cmp(value1, value2)"]) or ch[-1] != (None, CONST_ELSE):
        raise TranslateError("constant_cmp: the first case is not `both numbers`, or the last not `by type order`: %s" % [c[0] for c in ch])
    for test, stmts in ch[1:-1]:
        if len(stmts) != 1:
            raise TranslateError("constant_cmp: unrecognised case `%s`" % test)
        sg = sign(stmts[0], "constant_cmp, case `%s`" % test)
        if test == NUM1:
            F.setdefault("num_first", sg)
        elif test == NUM2:
            F.setdefault("num_second", sg)
        elif test in (NUM1 + " or " + NUM2, NUM2 + " or " + NUM1):
            F.setdefault("num_first", sg)
            F.setdefault("num_second", sg)
        else:
            raise TranslateError("constant_cmp: unrecognised case `%s`" % test)
    if "num_first" not in F or "num_second" not in F:
        raise TranslateError("constant_cmp: a number against another type is not decided before the type order is consulted")
    if up(need(fns, "=_CONSTANT_COMPARATORS")) != CONST_COMPARATORS:
        raise TranslateError("_CONSTANT_COMPARATORS: unrecognised table")
    if text(need(fns, "generic_constant_cmp")) != ["return generic_cmp(const1.value, const2.value)"]:
        raise TranslateError("generic_constant_cmp: unrecognised text")


NEG_FALSE_FIRST = "if not expr1.negated and expr2.negated:\n    result = -1\nelif expr1.negated and (not expr2.negated):\n    result = 1"
NEG_TRUE_FIRST = "if not expr1.negated and expr2.negated:\n    result = 1\nelif expr1.negated and (not expr2.negated):\n    result = -1"
ASTEPS = {
    "result = object_path_cmp(expr1.lhs, expr2.lhs)": "ALhs",
    "result = comparison_operator_cmp(expr1.operator, expr2.operator)": "AOp",
    NEG_FALSE_FIRST: "ANegFalseFirst",
    NEG_TRUE_FIRST: "ANegTrueFirst",
    "result = constant_cmp(expr1.rhs, expr2.rhs)": "ARhs",
}


def f_simple_cmp(fns, F):
    body = _strip_doc(need(fns, "simple_comparison_expression_cmp").body)
    if not body or up(body[-1]) != "return result":
        raise TranslateError("simple_comparison_expression_cmp: does not end in `return result`")
    steps = []
    for k, s in enumerate(body[:-1]):
        if k == 0:
            t = up(s)
        else:
            if not (isinstance(s, ast.If) and up(s.test) == "result == 0" and not s.orelse and len(s.body) == 1):
                raise TranslateError("simple_comparison_expression_cmp: step %d is not `if result == 0: <one statement>`" % k)
            t = up(s.body[0])
        if t not in ASTEPS:
            raise TranslateError("simple_comparison_expression_cmp: unrecognised step `%s`" % t)
        steps.append(ASTEPS[t])
    F["atom_steps"] = steps
    pc = text(need(fns, "object_path_component_cmp"))
    if pc == ["if isinstance(comp1, int) and isinstance(comp2, int) or (isinstance(comp1, str) and isinstance(comp2, str)):\n"
              "    result = generic_cmp(comp1, comp2)\nelif isinstance(comp1, int):\n    result = -1\nelse:\n    result = 1", "return result"]:
        F["step_cmp"] = "IndexBeforeKey"
    elif len(pc) == 2 and pc[1] == "return result" and "generic_cmp(str(comp1), str(comp2))" in pc[0]:
        F["step_cmp"] = "StepsAsText"          # an index and the key spelt the same compare equal
    else:
        raise TranslateError("object_path_component_cmp: unrecognised text")
    if text(need(fns, "object_path_cmp")) != [
            "if path1.object_type_name < path2.object_type_name:\n    result = -1\nelif path1.object_type_name > path2.object_type_name:\n"
            "    result = 1\nelse:\n    path_vals1 = object_path_to_raw_values(path1)\n    path_vals2 = object_path_to_raw_values(path2)\n"
            "    result = iter_lex_cmp(path_vals1, path_vals2, object_path_component_cmp)", "return result"]:
        raise TranslateError("object_path_cmp: unrecognised text")
    if text(need(fns, "object_path_to_raw_values")) != [
            "for comp in path.property_path:\n    if isinstance(comp, ListObjectPathComponent):\n        yield comp.property_name\n"
            "        if comp.index == '*' or isinstance(comp.index, int):\n            yield comp.index\n        else:\n"
            "            yield int(comp.index)\n    else:\n        yield comp.property_name"]:
        raise TranslateError("object_path_to_raw_values: unrecognised text")
    for name, want in (("comparison_operator_cmp", ["op1_idx = _COMPARISON_OP_ORDER.index(op1)", "op2_idx = _COMPARISON_OP_ORDER.index(op2)",
                                                    "result = generic_cmp(op1_idx, op2_idx)", "return result"]),):
        if text(need(fns, name)) != want:
            raise TranslateError("%s: unrecognised text" % name)


CCMP_CHAIN = [
    ("isinstance(expr1, _ComparisonExpression) and isinstance(expr2, _ComparisonExpression)", ["result = simple_comparison_expression_cmp(expr1, expr2)"]),
    ("isinstance(expr1, _ComparisonExpression)", ["result = -1"]),
    ("isinstance(expr2, _ComparisonExpression)", ["result = 1"]),
    ("isinstance(expr1, AndBooleanExpression) and isinstance(expr2, OrBooleanExpression)", ["result = -1"]),
    ("isinstance(expr1, OrBooleanExpression) and isinstance(expr2, AndBooleanExpression)", ["result = 1"]),
    (None, ["result = iter_lex_cmp(expr1.operands, expr2.operands, comparison_expression_cmp)"]),
]


def f_ccmp(fns, F):
    body = _strip_doc(need(fns, "comparison_expression_cmp").body)
    if len(body) != 2 or not isinstance(body[0], ast.If) or up(body[1]) != "return result" or if_chain(body[0]) != CCMP_CHAIN:
        raise TranslateError("comparison_expression_cmp: the cases are not (simple/simple, simple first, AND before OR, operands lexicographically)")
    F["ccmp_cases"] = "SimpleFirstAndBeforeOr"


OCMP_TEXT = [
    "type1 = type(expr1)", "type2 = type(expr2)", "type1_idx = _OBSERVATION_EXPRESSION_TYPE_ORDER.index(type1)",
    "type2_idx = _OBSERVATION_EXPRESSION_TYPE_ORDER.index(type2)",
    "if type1_idx != type2_idx:\n    result = generic_cmp(type1_idx, type2_idx)\n"
    "elif type1 is ObservationExpression:\n    result = comparison_expression_cmp(expr1.operand, expr2.operand)\n"
    "elif isinstance(expr1, _CompoundObservationExpression):\n    result = iter_lex_cmp(expr1.operands, expr2.operands, observation_expression_cmp)\n"
    "else:\n    qual1_type = type(expr1.qualifier)\n    qual2_type = type(expr2.qualifier)\n"
    "    qual1_type_idx = _QUALIFIER_TYPE_ORDER.index(qual1_type)\n    qual2_type_idx = _QUALIFIER_TYPE_ORDER.index(qual2_type)\n"
    "    result = generic_cmp(qual1_type_idx, qual2_type_idx)\n"
    "    if result == 0:\n        qual_cmp = _QUALIFIER_COMPARATORS.get(qual1_type)\n        if qual_cmp:\n"
    "            result = qual_cmp(expr1.qualifier, expr2.qualifier)\n        else:\n"
    "            raise TypeError(\"Can't compare qualifier type: \" + qual1_type.__name__)\n"
    "    if result == 0:\n        result = observation_expression_cmp(expr1.observation_expression, expr2.observation_expression)",
    "return result",
]


def f_ocmp(fns, F):
    if text(need(fns, "observation_expression_cmp")) != OCMP_TEXT:
        raise TranslateError("observation_expression_cmp: unrecognised text")
    if up(need(fns, "=_QUALIFIER_COMPARATORS")) != "{RepeatQualifier: repeats_cmp, WithinQualifier: within_cmp, StartStopQualifier: startstop_cmp}":
        raise TranslateError("_QUALIFIER_COMPARATORS: unrecognised table")
    F["ocmp_cases"] = "TypeThenContentsQualifierFirst"
    if text(need(fns, "repeats_cmp")) != ["return generic_constant_cmp(qual1.times_to_repeat, qual2.times_to_repeat)"]:
        helper = text(need(fns, "repeats_cmp"))
        if not (len(helper) == 1 and helper[0].startswith("return ") and "qual1.times_to_repeat, qual2.times_to_repeat" in helper[0]):
            raise TranslateError("repeats_cmp: unrecognised text")
    w = need(fns, "within_cmp")
    wt = text(w)
    if wt == ["return generic_constant_cmp(qual1.number_of_seconds, qual2.number_of_seconds)"]:
        F["within_cmp"] = "WithinExact"
    else:
        # a helper that converts the number of seconds with int(): the fraction of the window is lost
        b = _strip_doc(w.body)
        callee = up(b[0].value.func) if len(b) == 1 and isinstance(b[0], ast.Return) and isinstance(b[0].value, ast.Call) else None
        if callee in fns and [up(a) for a in b[0].value.args] == ["qual1.number_of_seconds", "qual2.number_of_seconds"] \
                and any(isinstance(n, ast.Call) and up(n.func) == "int" for n in ast.walk(fns[callee])):
            F["within_cmp"] = "WithinTruncated"
        else:
            raise TranslateError("within_cmp: unrecognised text")
    if text(need(fns, "startstop_cmp")) != [
            "return iter_lex_cmp((qual1.start_time, qual1.stop_time), (qual2.start_time, qual2.stop_time), generic_constant_cmp)"]:
        raise TranslateError("startstop_cmp: unrecognised text")


CHAIN_TEXT = ["changed = False",
              "for transformer in self.__transformers:\n    ast, this_changed = transformer.transform(ast)\n    if this_changed:\n        changed = True",
              "return (ast, changed)"]
SETTLE_TEXT = ["changed = False", "ast, this_changed = self.__transformer.transform(ast)",
               "while this_changed:\n    changed = True\n    ast, this_changed = self.__transformer.transform(ast)", "return (ast, changed)"]


def f_chain(fns, F):
    ct = text(need(fns, "ChainTransformer.transform"))
    if text(need(fns, "ChainTransformer.__init__")) != ["self.__transformers = transformers"]:
        raise TranslateError("ChainTransformer.__init__: unrecognised text")
    if ct == CHAIN_TEXT:
        F["chain_flag"] = "AnyChanged"
    elif ct == ["changed = False", "for transformer in self.__transformers:\n    ast, changed = transformer.transform(ast)", "return (ast, changed)"]:
        F["chain_flag"] = "LastOnly"
    else:
        raise TranslateError("ChainTransformer.transform: unrecognised text")
    if text(need(fns, "SettleTransformer.transform")) != SETTLE_TEXT or \
            text(need(fns, "SettleTransformer.__init__")) != ["self.__transformer = transform"]:
        raise TranslateError("SettleTransformer: unrecognised text")


def chains(fn, what, classes):
    """resolve the local names of a function that wires transformers: name -> description"""
    env = {}
    for s in _strip_doc(fn.body):
        if isinstance(s, ast.If):          # `if not _pattern_normalizer:` of the lazy initialiser
            stmts = s.body
        else:
            stmts = [s]
        for a in stmts:
            if not (isinstance(a, ast.Assign) and len(a.targets) == 1 and isinstance(a.value, ast.Call)):
                continue
            tgt = up(a.targets[0])
            callee = up(a.value.func)
            args = [up(x) for x in a.value.args]
            if a.value.keywords:
                raise TranslateError("%s: keyword arguments in `%s`" % (what, up(a)))
            if callee == "ChainTransformer":
                for x in args:
                    if x not in env:
                        raise TranslateError("%s: `%s` in `%s` is not a transformer built here" % (what, x, up(a)))
                env[tgt] = ("chain", [env[x] for x in args])
            elif callee == "SettleTransformer":
                if len(args) != 1 or args[0] not in env:
                    raise TranslateError("%s: unrecognised `%s`" % (what, up(a)))
                env[tgt] = ("settle", env[args[0]])
            elif callee in classes and not args:
                env[tgt] = ("leaf", classes[callee])
            else:
                raise TranslateError("%s: unrecognised `%s`" % (what, up(a)))
    return env


def passes(d, what):
    if d[0] != "chain" or any(x[0] != "leaf" or x[1] not in ("PFlatten", "POrder", "PAbsorb") for x in d[1]):
        raise TranslateError("%s: the simplification chain is not made of flatten / order / absorb" % what)
    return [x[1] for x in d[1]]


def stages(d, what):
    if d[0] != "chain":
        raise TranslateError("%s: not a ChainTransformer" % what)
    out, inner = [], None
    for x in d[1]:
        if x[0] == "leaf" and x[1] in ("SSpecial", "SNormCmp", "SDnf"):
            out.append(x[1])
        elif x[0] == "settle":
            p = passes(x[1], what)
            if inner is not None and inner != p:
                raise TranslateError("%s: two different settle loops" % what)
            inner = p
            out.append("SSettle")
        else:
            raise TranslateError("%s: unrecognised stage %s" % (what, x))
    return out, inner


DEL_LOOP = {"for i in reversed(sorted(to_delete)):\n    del ast.operands[i]": "Descending",
            "for i in sorted(to_delete, reverse=True):\n    del ast.operands[i]": "Descending",
            "for i in sorted(to_delete):\n    del ast.operands[i]": "Ascending"}


def delete_order(fn, what):
    body = _strip_doc(fn.body)
    if len(body) < 2 or up(body[-1]) != "return (ast, changed)" or not isinstance(body[-2], ast.If) or up(body[-2].test) != "to_delete" \
            or len(body[-2].body) != 2 or up(body[-2].body[0]) != "changed = True" or body[-2].orelse:
        raise TranslateError("%s: does not end in `if to_delete: changed = True; <deletion loop>; return ast, changed`" % what)
    t = up(body[-2].body[1])
    if t not in DEL_LOOP:
        raise TranslateError("%s: unrecognised deletion loop `%s`" % (what, t))
    return DEL_LOOP[t]


CONTAINED_AND = ["container = list(exprs_container)", "result = True", None, "return result"]
CONTAINED_LOOP = "for ee in exprs_containee:\n    for i, er in enumerate(container):\n        if observation_expression_cmp(ee, er) == 0:\n%s" \
                 "            break\n    else:\n        result = False\n        break"


def f_contained_and(fns, F):
    t = text(need(fns, "AbsorptionTransformer.__is_contained_and"))
    if len(t) != 4 or [t[0], t[1], t[3]] != [CONTAINED_AND[0], CONTAINED_AND[1], CONTAINED_AND[3]]:
        raise TranslateError("AbsorptionTransformer.__is_contained_and: unrecognised text")
    if t[2] == CONTAINED_LOOP % "            del container[i]\n":
        F["contained_and_consumes"] = "true"
    elif t[2] == CONTAINED_LOOP % "":
        F["contained_and_consumes"] = "false"
    else:
        raise TranslateError("AbsorptionTransformer.__is_contained_and: unrecognised loop")


DUPE_C = {"ast.operator": "DOp", "ast.rhs": "DRhs", "ast.negated": "DNeg"}
DUPE_KW = {"operator": "DOp", "rhs": "DRhs", "negated": "DNeg"}


def f_dupe(fn, what):
    """the arguments of the _ComparisonExpression built for a comparison, in constructor order (operator, lhs, rhs, negated)"""
    body = _strip_doc(fn.body)
    if len(body) != 2 or not isinstance(body[0], ast.If) or up(body[1]) != "return result":
        raise TranslateError("%s: unrecognised shape" % what)
    node = body[0]
    branch = None
    while True:
        if up(node.test) == "isinstance(ast, _ComparisonExpression)":
            branch = node.body
        if len(node.orelse) == 1 and isinstance(node.orelse[0], ast.If):
            node = node.orelse[0]
        else:
            break
    if branch is None:
        raise TranslateError("%s: no case for _ComparisonExpression" % what)
    paths = {}
    out = None
    for s in branch:
        if not (isinstance(s, ast.Assign) and len(s.targets) == 1 and isinstance(s.value, ast.Call)):
            raise TranslateError("%s: unrecognised statement `%s`" % (what, up(s)))
        callee, args = up(s.value.func), [up(a) for a in s.value.args]
        if callee == "ObjectPath" and not s.value.keywords:
            fs = []
            for a in args:
                if a == "ast.lhs.object_type_name":
                    fs.append("DType")
                elif a == "ast.lhs.property_path":
                    fs.append("DPath")
                else:
                    raise TranslateError("%s: ObjectPath built from `%s`" % (what, a))
            if fs[:2] != ["DType", "DPath"][:len(fs)]:
                raise TranslateError("%s: ObjectPath arguments out of order" % what)
            paths[up(s.targets[0])] = fs
        elif callee == "_ComparisonExpression" and up(s.targets[0]) == "result":
            out = []
            for pos, a in enumerate(args):
                if pos == 1:
                    if a == "ast.lhs":
                        out += ["DType", "DPath"]
                    elif a in paths:
                        out += paths[a]
                    else:
                        raise TranslateError("%s: lhs built from `%s`" % (what, a))
                elif (pos, a) in ((0, "ast.operator"), (2, "ast.rhs"), (3, "ast.negated")):
                    out.append(DUPE_C[a])
                else:
                    raise TranslateError("%s: argument %d of _ComparisonExpression is `%s`" % (what, pos, a))
            for k in s.value.keywords:
                if k.arg in DUPE_KW and up(k.value) == "ast." + k.arg:
                    out.append(DUPE_KW[k.arg])
                else:
                    raise TranslateError("%s: keyword `%s=%s`" % (what, k.arg, up(k.value)))
        else:
            raise TranslateError("%s: unrecognised statement `%s`" % (what, up(s)))
    if out is None:
        raise TranslateError("%s: no _ComparisonExpression built" % what)
    return out


SPECIAL_DISPATCH = "if ast.lhs.object_type_name == 'windows-registry-key':\n    windows_reg_key(ast)\n" \
                   "elif ast.lhs.object_type_name == 'ipv4-addr':\n    ipv4_addr(ast)\n" \
                   "elif ast.lhs.object_type_name == 'ipv6-addr':\n    ipv6_addr(ast)"
MATCHES_GUARD = "if ast.operator == 'MATCHES':\n    return (ast, False)"
STRING_GUARD = "if not isinstance(comp_expr.rhs, StringConstant):\n    return"


def f_specials(cfns, sfns, F):
    t = text(need(cfns, "SpecialValueCanonicalization.transform_comparison"))
    if t == [MATCHES_GUARD, SPECIAL_DISPATCH, "return (ast, False)"]:
        F["regex_mode"] = "KeepRegex"
    elif t == [SPECIAL_DISPATCH, "return (ast, False)"]:
        F["regex_mode"] = "LowerRegex"
    else:
        raise TranslateError("SpecialValueCanonicalization.transform_comparison: unrecognised text")
    guards = []
    for name in ("windows_reg_key", "ipv4_addr", "ipv6_addr"):
        b = text(need(sfns, name))
        g = bool(b) and b[0] == STRING_GUARD
        if name != "windows_reg_key":
            src = ast.unparse(sfns[name])
            wide = src.count("except (OSError, ValueError):")
            narrow = src.count("except OSError:") + src.count("except socket.error:")
            if (wide, narrow) == (1, 0):
                h = True            # an embedded NUL (ValueError from inet_aton / inet_pton) leaves the constant alone
            elif (wide, narrow) == (0, 1):
                h = False
            else:
                raise TranslateError("%s: unrecognised exception handlers" % name)
            if h != g:
                raise TranslateError("%s: the StringConstant guard and the ValueError handler disagree" % name)
        guards.append(g)
    if all(guards):
        F["special_mode"] = "Guarded"
    elif not any(guards):
        F["special_mode"] = "Unguarded"
    else:
        raise TranslateError("transform/specials.py: the three special-value functions are guarded differently: %s" % guards)


DUPE_O_CHAIN = [
    ("isinstance(ast, AndObservationExpression)", ["result = AndObservationExpression([_dupe_ast(child) for child in ast.operands])"]),
    ("isinstance(ast, OrObservationExpression)", ["result = OrObservationExpression([_dupe_ast(child) for child in ast.operands])"]),
    ("isinstance(ast, FollowedByObservationExpression)", ["result = FollowedByObservationExpression([_dupe_ast(child) for child in ast.operands])"]),
    ("isinstance(ast, QualifiedObservationExpression)", ["result = QualifiedObservationExpression(_dupe_ast(ast.observation_expression), ast.qualifier)"]),
    ("isinstance(ast, ObservationExpression)", ["result = ast"]),
    (None, ["raise TypeError(\"Can't duplicate \" + type(ast).__name__)"]),
]
DUPE_C_COMPOUND = [
    ("isinstance(ast, AndBooleanExpression)", ["result = AndBooleanExpression([_dupe_ast(operand) for operand in ast.operands])"]),
    ("isinstance(ast, OrBooleanExpression)", ["result = OrBooleanExpression([_dupe_ast(operand) for operand in ast.operands])"]),
]


def f_dupe_shapes(cfns, ofns, F):
    body = _strip_doc(need(ofns, "_dupe_ast").body)
    if len(body) != 2 or not isinstance(body[0], ast.If) or up(body[1]) != "return result" or if_chain(body[0]) != DUPE_O_CHAIN:
        raise TranslateError("transform/observation.py _dupe_ast: unrecognised text")
    body = _strip_doc(need(cfns, "_dupe_ast").body)
    ch = if_chain(body[0])
    if ch[:2] != DUPE_C_COMPOUND or len(ch) != 4 or ch[3] != DUPE_O_CHAIN[5]:
        raise TranslateError("transform/comparison.py _dupe_ast: unrecognised cases")
    F["dupe_compound"] = "true"


MASK_TEXT = {
    0: "addr_size_bytes = len(ip_bytes)",
    1: "addr_size_bits = 8 * addr_size_bytes",
    2: "assert 0 <= prefix_size <= addr_size_bits",
    5: "if num_zero_bytes > 0:\n    ip_bytes[addr_size_bytes - num_zero_bytes:] = b'\\x00' * num_zero_bytes",
}
BINOPS = {ast.FloorDiv: "(%s / %s)", ast.Mod: "(%s mod %s)", ast.Add: "(%s + %s)", ast.Sub: "(%s - %s)", ast.Mult: "(%s * %s)",
          ast.LShift: "(Z.shiftl %s %s)", ast.RShift: "(Z.shiftr %s %s)", ast.BitAnd: "(Z.land %s %s)", ast.BitOr: "(Z.lor %s %s)"}


def zexpr(e, names, what):
    """an integer expression of Python as a Gallina term over Z (// is floor division, % has the sign of the divisor: Z./ and Z.modulo)"""
    if isinstance(e, ast.Constant) and isinstance(e.value, int) and not isinstance(e.value, bool):
        return "%d" % e.value if e.value >= 0 else "(%d)" % e.value
    if isinstance(e, ast.Name) and e.id in names:
        return e.id
    if isinstance(e, ast.BinOp) and type(e.op) in BINOPS:
        return BINOPS[type(e.op)] % (zexpr(e.left, names, what), zexpr(e.right, names, what))
    raise TranslateError("%s: unrecognised arithmetic `%s`" % (what, up(e)))


def f_mask(sfns, F):
    fn = need(sfns, "_mask_bytes")
    if [a.arg for a in fn.args.args] != ["ip_bytes", "prefix_size"]:
        raise TranslateError("_mask_bytes: unrecognised parameters")
    body = _strip_doc(fn.body)
    if len(body) != 7:
        raise TranslateError("_mask_bytes: unrecognised shape")
    for k, want in MASK_TEXT.items():
        if up(body[k]) != want:
            raise TranslateError("_mask_bytes: statement %d is `%s`" % (k, up(body[k])))

    def assign(s, name):
        if not (isinstance(s, ast.Assign) and len(s.targets) == 1 and up(s.targets[0]) == name):
            raise TranslateError("_mask_bytes: expected an assignment to %s, found `%s`" % (name, up(s)))
        return s.value
    F["mb_fixed"] = zexpr(assign(body[3], "num_fixed_bytes"), {"prefix_size"}, "_mask_bytes")
    F["mb_zero"] = zexpr(assign(body[4], "num_zero_bytes"), {"prefix_size", "addr_size_bits"}, "_mask_bytes")
    last = body[6]
    if not (isinstance(last, ast.If) and up(last.test) == "num_fixed_bytes + num_zero_bytes != addr_size_bytes" and not last.orelse
            and len(last.body) == 3 and up(last.body[2]) == "ip_bytes[num_fixed_bytes] &= mask"):
        raise TranslateError("_mask_bytes: unrecognised partial-byte step")
    F["mb_ones"] = zexpr(assign(last.body[0], "num_1_bits"), {"prefix_size"}, "_mask_bytes")
    F["mb_mask"] = zexpr(assign(last.body[1], "mask"), {"num_1_bits"}, "_mask_bytes")


EQUIV_TEXT = [
    "patt_ast1 = pattern_visitor.create_pattern_object(pattern1, version=stix_version)",
    "patt_ast2 = pattern_visitor.create_pattern_object(pattern2, version=stix_version)",
    "pattern_normalizer = _get_pattern_normalizer()",
    "norm_patt1, _ = pattern_normalizer.transform(patt_ast1)",
    "norm_patt2, _ = pattern_normalizer.transform(patt_ast2)",
    "result = observation_expression_cmp(norm_patt1, norm_patt2)",
    "return result == 0",
]
FIND_HEAD = [
    "search_pattern_ast = pattern_visitor.create_pattern_object(search_pattern, version=stix_version)",
    "pattern_normalizer = _get_pattern_normalizer()",
    "norm_search_pattern_ast, _ = pattern_normalizer.transform(search_pattern_ast)",
]
FIND_LOOP = "for pattern in patterns:\n    pattern_ast = pattern_visitor.create_pattern_object(pattern, version=stix_version)\n" \
            "    norm_pattern_ast, _ = pattern_normalizer.transform(pattern_ast)\n" \
            "    result = observation_expression_cmp(norm_search_pattern_ast, norm_pattern_ast)\n" \
            "    if result == 0:\n        yield pattern"


def f_entry(tfns, F):
    t = text(need(tfns, "equivalent_patterns"))
    positional = ["patt_ast1 = pattern_visitor.create_pattern_object(pattern1, stix_version)",
                  "patt_ast2 = pattern_visitor.create_pattern_object(pattern2, stix_version)"]
    if t == EQUIV_TEXT:
        F["equiv_version"] = "ByKeyword"
    elif t[2:] == EQUIV_TEXT[2:] and t[:2] == positional:
        # create_pattern_object(pattern, module_suffix='', module_name='', version=...): the second positional
        # parameter is not the version
        F["equiv_version"] = "Positional"
    else:
        raise TranslateError("equivalent_patterns: unrecognised text")
    F["equiv_test"] = "CmpIsZero"
    sig = need(tfns, "equivalent_patterns").args
    sigf = need(tfns, "find_equivalent_patterns").args
    if [a.arg for a in sig.args] != ["pattern1", "pattern2", "stix_version"] or [up(d) for d in sig.defaults] != ["DEFAULT_VERSION"] \
            or [a.arg for a in sigf.args] != ["search_pattern", "patterns", "stix_version"] or [up(d) for d in sigf.defaults] != ["DEFAULT_VERSION"]:
        raise TranslateError("equivalent_patterns / find_equivalent_patterns: unrecognised parameters")
    fn = need(tfns, "find_equivalent_patterns")
    t = text(fn)
    if t == FIND_HEAD + [FIND_LOOP]:
        F["find_loop"] = "FindEveryMember"
        return
    # a recognised other choice: verdicts remembered under some key of the member, so that not every member is
    # parsed, normalised and compared
    loops = [s for s in _strip_doc(fn.body) if isinstance(s, ast.For) and up(s.iter) == "patterns"]
    if t[:3] == FIND_HEAD and len(loops) == 1 and any(
            isinstance(n, ast.Compare) and any(isinstance(o, (ast.In, ast.NotIn)) for o in n.ops) for n in ast.walk(loops[0])):
        F["find_loop"] = "FindCached"
        return
    raise TranslateError("find_equivalent_patterns: unrecognised text")


HEX_BYTES = ["bytes1 = bytes.fromhex(value1.value)", "bytes2 = bytes.fromhex(value2.value)", "return generic_cmp(bytes1, bytes2)"]
BIN_BYTES = ["bytes1 = base64.standard_b64decode(value1.value)", "bytes2 = base64.standard_b64decode(value2.value)",
             "return generic_cmp(bytes1, bytes2)"]
BOOL_TEXT = ["value1 = value1.value", "value2 = value2.value",
             "if value1 and value2 or (not value1 and (not value2)):\n    result = 0\nelif value1:\n    result = -1\nelse:\n    result = 1",
             "return result"]
LIST_SORT = ["sorted_value1 = sorted(value1.value, key=functools.cmp_to_key(constant_cmp))",
             "sorted_value2 = sorted(value2.value, key=functools.cmp_to_key(constant_cmp))"]
ITER_LEX = ["it1 = iter(seq1)", "it2 = iter(seq2)", "it1_exhausted = it2_exhausted = False",
            "while True:\n    try:\n        val1 = next(it1)\n    except StopIteration:\n        it1_exhausted = True\n"
            "    try:\n        val2 = next(it2)\n    except StopIteration:\n        it2_exhausted = True\n"
            "    if it1_exhausted and it2_exhausted:\n        result = 0\n        break\n"
            "    elif it1_exhausted:\n        result = -1\n        break\n"
            "    elif it2_exhausted:\n        result = 1\n        break\n"
            "    else:\n        val_cmp = cmp(val1, val2)\n        if val_cmp != 0:\n            result = val_cmp\n            break",
            "return result"]


def _is_int16(e, var):
    return up(e) == "int(%s.value, 16)" % var


def f_const_comparators(fns, gfns, F):
    if text(need(gfns, "generic_cmp")) != ["return -1 if value1 < value2 else 1 if value1 > value2 else 0"]:
        raise TranslateError("generic_cmp: unrecognised text")
    if text(need(gfns, "iter_lex_cmp")) != ITER_LEX:
        raise TranslateError("iter_lex_cmp: unrecognised text")
    if text(need(gfns, "iter_in")) != ["result = False", "for seq_val in seq:\n    if cmp(value, seq_val) == 0:\n        result = True\n        break",
                                       "return result"]:
        raise TranslateError("iter_in: unrecognised text")
    h = need(fns, "hex_cmp")
    t = text(h)
    if t == HEX_BYTES:
        F["hex_cmp"] = "HexBytes"
    else:
        b = _strip_doc(h.body)
        if len(b) == 3 and all(isinstance(x, ast.Assign) and len(x.targets) == 1 for x in b[:2]) and _is_int16(b[0].value, "value1") \
                and _is_int16(b[1].value, "value2") and up(b[2]) == "return generic_cmp(%s, %s)" % (up(b[0].targets[0]), up(b[1].targets[0])):
            F["hex_cmp"] = "HexNumber"
        else:
            raise TranslateError("hex_cmp: unrecognised text")
    if text(need(fns, "bin_cmp")) != BIN_BYTES:
        raise TranslateError("bin_cmp: unrecognised text")
    if text(need(fns, "bool_cmp")) != BOOL_TEXT:
        raise TranslateError("bool_cmp: unrecognised text")
    lfn = need(fns, "list_cmp")
    t = text(lfn)
    if t[:2] != LIST_SORT or t[-1] != "return result":
        raise TranslateError("list_cmp: the two lists are not sorted by constant_cmp first")
    if t[2:-1] == ["result = iter_lex_cmp(sorted_value1, sorted_value2, constant_cmp)"]:
        F["list_cmp"] = "ListLex"
    elif any(isinstance(n, ast.Call) and up(n) == "zip(sorted_value1, sorted_value2)" for n in ast.walk(lfn)) \
            and "iter_lex_cmp" not in ast.unparse(lfn):
        F["list_cmp"] = "ListZip"
    else:
        raise TranslateError("list_cmp: unrecognised comparison of the sorted lists")


RECURSE = "distributed_children = [self.transform(child)[0] for child in distributed_children]"
DNF_O = ("if any((isinstance(child, OrObservationExpression) for child in ast.operands)):\n    iterables = []\n    for child in ast.operands:\n"
         "        if isinstance(child, OrObservationExpression):\n            iterables.append(child.operands)\n        else:\n"
         "            iterables.append((child,))\n    root_type = type(ast)\n"
         "    distributed_children = [root_type([_dupe_ast(sub_ast) for sub_ast in itertools.chain(prod_seq)]) for prod_seq in itertools.product(*iterables)]\n"
         "%s    result = OrObservationExpression(distributed_children)\n    changed = True\nelse:\n    result = ast\n    changed = False")
DNF_C_HEAD = ["or_children = []", "other_children = []", "changed = False",
              "for child in ast.operands:\n    if isinstance(child, _BooleanExpression) and child.operator == 'OR':\n"
              "        or_children.append(child.operands)\n    else:\n        other_children.append(child)"]
DNF_C = ("if or_children:\n    distributed_and_arg_sets = (itertools.chain(other_children, prod_seq) for prod_seq in itertools.product(*or_children))\n"
         "    distributed_children = []\n    for and_arg_set in distributed_and_arg_sets:\n        try:\n"
         "            and_node = AndBooleanExpression((_dupe_ast(arg) for arg in and_arg_set))\n        except ValueError:\n            pass\n"
         "        else:\n            distributed_children.append(and_node)\n"
         "%s    result = OrBooleanExpression(distributed_children)\n    changed = True\nelse:\n    result = ast")


def f_dnf(cfns, ofns, F):
    t = text(need(ofns, "DNFTransformer.__transform"))
    if len(t) == 2 and t[1] == "return (result, changed)" and t[0] == DNF_O % ("    " + RECURSE + "\n"):
        F["dnf_o_recursive"] = "true"
    elif len(t) == 2 and t[1] == "return (result, changed)" and t[0] == DNF_O % "":
        F["dnf_o_recursive"] = "false"
    else:
        raise TranslateError("observation DNFTransformer.__transform: unrecognised text")
    t = text(need(cfns, "DNFTransformer.transform_and"))
    if len(t) == 6 and t[:4] == DNF_C_HEAD and t[5] == "return (result, changed)" and t[4] == DNF_C % ("    " + RECURSE + "\n"):
        F["dnf_c_recursive"] = "true"
    elif len(t) == 6 and t[:4] == DNF_C_HEAD and t[5] == "return (result, changed)" and t[4] == DNF_C % "":
        F["dnf_c_recursive"] = "false"
    else:
        raise TranslateError("comparison DNFTransformer.transform_and: unrecognised text")
    for k, names in ((ofns, ("DNFTransformer.transform_and", "DNFTransformer.transform_followedby")),):
        for n in names:
            if text(need(k, n)) != ["return self.__transform(ast)"]:
                raise TranslateError("observation %s: unrecognised text" % n)


C_CLASSES = {"FlattenTransformer": "PFlatten", "OrderDedupeTransformer": "POrder", "AbsorptionTransformer": "PAbsorb"}


def facts(repo):
    fns = {k: collect(parse(os.path.join(repo, rel))) for k, rel in FILES.items()}
    F = {}
    F["cop_order"] = table(fns["ccmp"], "_COMPARISON_OP_ORDER", COPS, True)
    F["const_type_order"] = table(fns["ccmp"], "_CONSTANT_TYPE_ORDER", CKINDS, False)
    F["obs_type_order"] = table(fns["ocmp"], "_OBSERVATION_EXPRESSION_TYPE_ORDER", OKINDS, False)
    F["qual_type_order"] = table(fns["ocmp"], "_QUALIFIER_TYPE_ORDER", QKINDS, False)
    f_constant_cmp(fns["ccmp"], F)
    f_const_comparators(fns["ccmp"], collect(parse(os.path.join(repo, P, "compare", "__init__.py"))), F)
    f_dnf(fns["ctr"], fns["otr"], F)
    f_simple_cmp(fns["ccmp"], F)
    f_ccmp(fns["ccmp"], F)
    f_ocmp(fns["ocmp"], F)
    f_chain(fns["tr"], F)
    F["dupe_c_args"] = f_dupe(need(fns["ctr"], "_dupe_ast"), "transform/comparison.py _dupe_ast")
    f_dupe_shapes(fns["ctr"], fns["otr"], F)
    F["absorb_delete_c"] = delete_order(need(fns["ctr"], "AbsorptionTransformer.__transform"), "comparison AbsorptionTransformer.__transform")
    F["absorb_delete_o"] = delete_order(need(fns["otr"], "AbsorptionTransformer.transform_or"), "observation AbsorptionTransformer.transform_or")
    f_contained_and(fns["otr"], F)
    env = chains(need(fns["otr"], "NormalizeComparisonExpressionsTransformer.__init__"), "NormalizeComparisonExpressionsTransformer.__init__",
                 {"CFlattenTransformer": "PFlatten", "COrderDedupeTransformer": "POrder", "CAbsorptionTransformer": "PAbsorb",
                  "SpecialValueCanonicalization": "SSpecial", "CDNFTransformer": "SDnf"})
    if "self.__comp_normalize" not in env:
        raise TranslateError("NormalizeComparisonExpressionsTransformer.__init__: self.__comp_normalize is not built")
    F["comp_normalize"], F["comp_simplify"] = stages(env["self.__comp_normalize"], "NormalizeComparisonExpressionsTransformer.__init__")
    if text(need(fns["otr"], "NormalizeComparisonExpressionsTransformer.transform_observation")) != [
            "comp_expr = ast.operand", "norm_comp_expr, changed = self.__comp_normalize.transform(comp_expr)",
            "ast.operand = norm_comp_expr", "return (ast, changed)"]:
        raise TranslateError("NormalizeComparisonExpressionsTransformer.transform_observation: unrecognised text")
    aliases = {}
    for n in parse(os.path.join(repo, FILES["otr"])).body:
        if isinstance(n, ast.ImportFrom) and n.module == "stix2.equivalence.pattern.transform.comparison":
            for a in n.names:
                aliases[a.asname or a.name] = a.name
    want_alias = {"CAbsorptionTransformer": "AbsorptionTransformer", "CDNFTransformer": "DNFTransformer",
                  "CFlattenTransformer": "FlattenTransformer", "COrderDedupeTransformer": "OrderDedupeTransformer",
                  "SpecialValueCanonicalization": "SpecialValueCanonicalization"}
    if aliases != want_alias:
        raise TranslateError("transform/observation.py: the comparison transformers are not imported under the recorded names: %s" % aliases)
    env = chains(need(fns["top"], "_get_pattern_normalizer"), "_get_pattern_normalizer",
                 dict(C_CLASSES, NormalizeComparisonExpressionsTransformer="SNormCmp", DNFTransformer="SDnf"))
    if "_pattern_normalizer" not in env:
        raise TranslateError("_get_pattern_normalizer: _pattern_normalizer is not built")
    F["pattern_normalize"], F["obs_simplify"] = stages(env["_pattern_normalizer"], "_get_pattern_normalizer")
    if F["comp_simplify"] is None or F["obs_simplify"] is None:
        raise TranslateError("no settle loop in a normalisation chain")
    f_specials(fns["ctr"], fns["sp"], F)
    f_mask(fns["sp"], F)
    f_entry(fns["top"], F)
    return F


def coq_list(xs):
    return "[" + "; ".join(xs) + "]"


def translate(repo, _py=None):
    F = facts(repo)
    L = [
        "(* Gen/PatternEqFacts.v -- GENERATED by translators/tr_patterneq.py from the source text of",
        "   stix2/equivalence/pattern/{__init__,compare/comparison,compare/observation,transform/__init__,",
        "   transform/comparison,transform/observation,transform/specials}.py.  Do not edit. *)",
        "From Coq Require Import ZArith List.",
        "From V Require Import Model.PatternEq Proofs.PatternEqSrcDefs.",
        "Import ListNotations.",
        "Open Scope Z_scope.",
        "",
        "Definition src_cop_order : list cop := %s." % coq_list(F["cop_order"]),
        "Definition src_const_type_order : list ckind := %s." % coq_list(F["const_type_order"]),
        "Definition src_obs_type_order : list okind := %s." % coq_list(F["obs_type_order"]),
        "Definition src_qual_type_order : list qkind := %s." % coq_list(F["qual_type_order"]),
        "(* constant_cmp: a number against a constant of another type, on the left / on the right *)",
        "Definition src_num_first : comparison := %s." % F["num_first"],
        "Definition src_num_second : comparison := %s." % F["num_second"],
        "(* hex_cmp on the decoded bytes; list_cmp lexicographic on the sorted members *)",
        "Definition src_hex_cmp : hex_kind := %s." % F["hex_cmp"],
        "Definition src_list_cmp : list_kind := %s." % F["list_cmp"],
        "(* both DNF transformers transform the terms they have just built again *)",
        "Definition src_dnf_redistributes_c : bool := %s." % F["dnf_c_recursive"],
        "Definition src_dnf_redistributes_o : bool := %s." % F["dnf_o_recursive"],
        "(* within_cmp: the numbers of seconds compared as they are *)",
        "Definition src_within_cmp : within_kind := %s." % F["within_cmp"],
        "(* object_path_component_cmp: list indices before keys, never compared as text *)",
        "Definition src_step_cmp : step_kind := %s." % F["step_cmp"],
        "(* simple_comparison_expression_cmp: the fields compared, in order *)",
        "Definition src_atom_steps : list astep := %s." % coq_list(F["atom_steps"]),
        "(* _dupe_ast (comparison level): what the duplicate of a comparison is built from *)",
        "Definition src_dupe_c_args : list dfield := %s." % coq_list(F["dupe_c_args"]),
        "(* both _dupe_ast: AND / OR / FOLLOWEDBY / qualified nodes are rebuilt from the duplicates of their operands (same qualifier) *)",
        "Definition src_dupe_compound_faithful : bool := %s." % F["dupe_compound"],
        "(* AbsorptionTransformer: the order in which the operands marked for deletion are deleted *)",
        "Definition src_absorb_delete_c : del_order := %s." % F["absorb_delete_c"],
        "Definition src_absorb_delete_o : del_order := %s." % F["absorb_delete_o"],
        "(* __is_contained_and: the matched operand of the container is deleted *)",
        "Definition src_contained_and_consumes : bool := %s." % F["contained_and_consumes"],
        "(* the chains; ChainTransformer reports a change when ANY of its transformers does *)",
        "Definition src_chain_flag : chain_flag_kind := %s." % F["chain_flag"],
        "Definition src_comp_simplify : list pass := %s." % coq_list(F["comp_simplify"]),
        "Definition src_obs_simplify : list pass := %s." % coq_list(F["obs_simplify"]),
        "Definition src_comp_normalize : list stage := %s." % coq_list(F["comp_normalize"]),
        "Definition src_pattern_normalize : list stage := %s." % coq_list(F["pattern_normalize"]),
        "(* SpecialValueCanonicalization: the StringConstant guards / ValueError handlers, the MATCHES guard *)",
        "Definition src_variant : variant := mkVariant %s %s." % (F["special_mode"], F["regex_mode"]),
        "(* _mask_bytes: its arithmetic *)",
        "Definition src_mb_fixed (prefix_size : Z) : Z := %s." % F["mb_fixed"],
        "Definition src_mb_zero (addr_size_bits prefix_size : Z) : Z := %s." % F["mb_zero"],
        "Definition src_mb_ones (prefix_size : Z) : Z := %s." % F["mb_ones"],
        "Definition src_mb_mask (num_1_bits : Z) : Z := %s." % F["mb_mask"],
        "(* equivalent_patterns / find_equivalent_patterns *)",
        "Definition src_equiv_test : equiv_test := %s." % F["equiv_test"],
        "Definition src_find_loop : find_loop := %s." % F["find_loop"],
        "(* how equivalent_patterns hands stix_version to the parser (find_equivalent_patterns: exact text, by keyword) *)",
        "Definition src_equiv_version : version_arg := %s." % F["equiv_version"],
        "",
    ]
    return "\n".join(L), {k: (v if isinstance(v, str) else list(v)) for k, v in F.items()}


if __name__ == "__main__":
    import sys
    print(translate(sys.argv[1] if len(sys.argv) > 1 else "/repo")[0])

"""tr_filters -- the choices of the filter / search-shortcut code read from the SOURCE TEXT (Gen/FilterFacts.v).

The hand-written model coq/Model/Filters.v (property C12) fixes what the code does at a dozen places: the list
of operators, what Filter._check_property converts before comparing (the filter value, when the stored value is
a datetime and the filter value a string) and what each operator evaluates, that an object must pass every filter
(apply_common_filters), how _check_filter walks a dotted path and a list-valued property ("any element"), that a
FilterSet copies what it is given and adds only filters it does not hold yet, how _update_allow combines allowed
values, which filters _find_search_optimizations derives shortcuts from (every value: the code before fix 4d5628c,
OptAnyValue; only strings / lists of strings: OptStringsOnly), how AuthSet combines allowed and prohibited values
and how _get_matching_dir_entries applies the result.  The model is tied to the behaviour of the code by the
correspondence run; this translator reads the same choices from the `ast` of

    stix2/datastore/filters.py, stix2/datastore/filesystem.py

and writes them as a Gallina record `src_filter_cfg : filter_cfg` (coq/Model/FiltersCfg.v), so that Props/C12Src.v
states, by name, that each place of the text is the choice the model makes, and instantiates the main theorems at
the shortcut variant the text denotes.

Fail closed.  A function the model mirrors that is missing (or a module that does not parse) raises
TranslateError and nothing is written.  A function whose text (docstring and comments apart) is not the recorded
one is written as the `...Other` value of its field: no obligation of Props/C12Src.v about that field holds of it,
and the build names the obligation.
"""
import ast
import os


class TranslateError(Exception):
    pass


def _strip_doc(body):
    if body and isinstance(body[0], ast.Expr) and isinstance(getattr(body[0], "value", None), ast.Constant) \
            and isinstance(body[0].value.value, str):
        return body[1:]
    return body


def text_of(stmts):
    return "".join(ast.unparse(s) + "\n" for s in stmts)


def collect(path):
    try:
        with open(path, encoding="utf-8") as f:
            tree = ast.parse(f.read(), path)
    except (OSError, SyntaxError) as e:
        raise TranslateError("%s: %s" % (path, e))
    out = {}
    for n in tree.body:
        if isinstance(n, ast.FunctionDef):
            out[n.name] = n
        elif isinstance(n, ast.ClassDef):
            for m in n.body:
                if isinstance(m, ast.FunctionDef):
                    out["%s.%s" % (n.name, m.name)] = m
        elif isinstance(n, ast.Assign) and len(n.targets) == 1:
            out["=" + ast.unparse(n.targets[0])] = n
    return out


# the recorded texts (ast.unparse of the bodies, docstrings apart) -- the choices Model/Filters.v mirrors
EXPECT = {
    'AuthSet.__init__': (
        'if allowed is None:\n'
        '    self.__values = prohibited\n'
        '    self.__type = AuthSet.BLACK\n'
        'else:\n'
        '    self.__values = allowed - prohibited\n'
        '    self.__type = AuthSet.WHITE\n'
    ),
    'FILTER_OPS': (
        "['=', '!=', 'in', '>', '<', '>=', '<=', 'contains']\n"
    ),
    'Filter.__new__': (
        'if isinstance(value, list):\n'
        '    value = tuple(value)\n'
        '_check_filter_components(prop, op, value)\n'
        'self = super(Filter, cls).__new__(cls, prop, op, value)\n'
        'return self\n'
    ),
    'Filter._check_property#coerce': (
        'if isinstance(stix_obj_property, datetime) and isinstance(self.value, str):\n'
        '    filter_value = stix2.utils.parse_into_datetime(self.value)\n'
        'else:\n'
        '    filter_value = self.value\n'
    ),
    'Filter._check_property#dispatch': (
        "if self.op == '=':\n"
        '    return stix_obj_property == filter_value\n'
        "elif self.op == '!=':\n"
        '    return stix_obj_property != filter_value\n'
        "elif self.op == 'in':\n"
        '    return stix_obj_property in filter_value\n'
        "elif self.op == 'contains':\n"
        '    if isinstance(filter_value, dict):\n'
        '        return filter_value in stix_obj_property.values()\n'
        '    else:\n'
        '        return filter_value in stix_obj_property\n'
        "elif self.op == '>':\n"
        '    return stix_obj_property > filter_value\n'
        "elif self.op == '<':\n"
        '    return stix_obj_property < filter_value\n'
        "elif self.op == '>=':\n"
        '    return stix_obj_property >= filter_value\n'
        "elif self.op == '<=':\n"
        '    return stix_obj_property <= filter_value\n'
        'else:\n'
        "    raise ValueError('Filter operator: {0} not supported for specified property: {1}'.format(self.op, self.property))\n"
    ),
    'FilterSet.__init__': (
        'self._filters = []\n'
        'if filters:\n'
        '    self.add(filters)\n'
    ),
    'FilterSet.__iter__': (
        'for f in self._filters:\n'
        '    yield f\n'
    ),
    'FilterSet.add': (
        'if not filters:\n'
        '    return\n'
        'if not isinstance(filters, (FilterSet, list)):\n'
        '    filters = [filters]\n'
        'for f in filters:\n'
        '    if f not in self._filters:\n'
        '        self._filters.append(f)\n'
    ),
    'FilterSet.remove': (
        'if not filters:\n'
        '    return\n'
        'if not isinstance(filters, (FilterSet, list)):\n'
        '    filters = [filters]\n'
        'for f in filters:\n'
        '    self._filters.remove(f)\n'
    ),
    '_check_filter': (
        "prop = filter_.property.split('.')[0]\n"
        'if prop not in stix_obj.keys():\n'
        '    return False\n'
        "if '.' in filter_.property:\n"
        "    sub_property = filter_.property.split('.', 1)[1]\n"
        '    sub_filter = filter_._replace(property=sub_property)\n'
        '    if isinstance(stix_obj[prop], list):\n'
        '        for elem in stix_obj[prop]:\n'
        '            if _check_filter(sub_filter, elem) is True:\n'
        '                return True\n'
        '        return False\n'
        '    else:\n'
        '        return _check_filter(sub_filter, stix_obj[prop])\n'
        'elif isinstance(stix_obj[prop], list):\n'
        '    for elem in stix_obj[prop]:\n'
        '        if filter_._check_property(elem) is True:\n'
        '            return True\n'
        '    return False\n'
        'else:\n'
        '    return filter_._check_property(stix_obj[prop])\n'
    ),
    '_check_filter_components': (
        'if op not in FILTER_OPS:\n'
        '    raise ValueError("Filter operator \'%s\' not supported for specified property: \'%s\'" % (op, prop))\n'
        'if not isinstance(value, FILTER_VALUE_TYPES):\n'
        '    raise TypeError("Filter value of \'%s\' is not supported. The type must be a Python immutable type or dictionary" % type(value))\n'
        "if prop == 'type' and '_' in value:\n"
        '    raise ValueError("Filter for property \'type\' cannot have its value \'%s\' include underscores" % value)\n'
        'return True\n'
    ),
    '_find_search_optimizations': (
        'allowed_types = allowed_ids = None\n'
        'prohibited_types = set()\n'
        'prohibited_ids = set()\n'
        'for filter_ in filters:\n'
        "    if filter_.property == 'type':\n"
        "        if filter_.op in ('=', 'in'):\n"
        '            allowed_types = _update_allow(allowed_types, filter_.value)\n'
        "        elif filter_.op == '!=':\n"
        '            prohibited_types.add(filter_.value)\n'
        "    elif filter_.property == 'id':\n"
        "        if filter_.op == '=':\n"
        '            allowed_ids = _update_allow(allowed_ids, filter_.value)\n'
        '            allowed_types = _update_allow(allowed_types, get_type_from_id(filter_.value))\n'
        "        elif filter_.op == '!=':\n"
        '            prohibited_ids.add(filter_.value)\n'
        "        elif filter_.op == 'in':\n"
        '            allowed_ids = _update_allow(allowed_ids, filter_.value)\n'
        '            allowed_types = _update_allow(allowed_types, (get_type_from_id(id_) for id_ in filter_.value))\n'
        'opt_types = AuthSet(allowed_types, prohibited_types)\n'
        'opt_ids = AuthSet(allowed_ids, prohibited_ids)\n'
        'if opt_types.auth_type == AuthSet.WHITE and opt_ids.auth_type == AuthSet.WHITE:\n'
        '    opt_types.values.intersection_update((get_type_from_id(id_) for id_ in opt_ids.values))\n'
        '    opt_ids.values.intersection_update((id_ for id_ in opt_ids.values if get_type_from_id(id_) in opt_types.values))\n'
        'return (opt_types, opt_ids)\n'
    ),
    '_find_search_optimizations#guard': (
        "if filter_.op == 'in':\n"
        '    if not _is_str_seq(filter_.value):\n'
        '        continue\n'
        'elif not isinstance(filter_.value, str):\n'
        '    continue\n'
    ),
    '_get_matching_dir_entries': (
        'results = []\n'
        'if auth_set.auth_type == AuthSet.WHITE:\n'
        '    for value in auth_set.values:\n'
        '        filename = value + ext\n'
        '        try:\n'
        '            if st_mode_test:\n'
        '                s = os.stat(os.path.join(parent_dir, filename))\n'
        '                type_pass = st_mode_test(s.st_mode)\n'
        '            else:\n'
        '                type_pass = True\n'
        '            if type_pass:\n'
        '                results.append(filename)\n'
        '        except OSError as e:\n'
        '            if e.errno != errno.ENOENT:\n'
        '                raise\n'
        'else:\n'
        '    for entry in os.listdir(parent_dir):\n'
        '        if ext:\n'
        '            auth_name, this_ext = os.path.splitext(entry)\n'
        '            if this_ext != ext:\n'
        '                continue\n'
        '        else:\n'
        '            auth_name = entry\n'
        '        if auth_name in auth_set.values:\n'
        '            continue\n'
        '        try:\n'
        '            if st_mode_test:\n'
        '                s = os.stat(os.path.join(parent_dir, entry))\n'
        '                type_pass = st_mode_test(s.st_mode)\n'
        '            else:\n'
        '                type_pass = True\n'
        '            if type_pass:\n'
        '                results.append(entry)\n'
        '        except OSError as e:\n'
        '            if e.errno != errno.ENOENT:\n'
        '                raise\n'
        'return results\n'
    ),
    '_is_str_seq': (
        'return isinstance(value, (list, tuple)) and all((isinstance(v, str) for v in value))\n'
    ),
    '_update_allow': (
        "adding_seq = hasattr(value, '__iter__') and (not isinstance(value, str))\n"
        'if allow_set is None:\n'
        '    allow_set = set()\n'
        '    if adding_seq:\n'
        '        allow_set.update(value)\n'
        '    else:\n'
        '        allow_set.add(value)\n'
        'elif adding_seq:\n'
        '    allow_set.intersection_update(value)\n'
        'else:\n'
        '    allow_set.intersection_update({value})\n'
        'return allow_set\n'
    ),
    'apply_common_filters': (
        'for stix_obj in stix_objs:\n'
        '    clean = True\n'
        '    for filter_ in query:\n'
        '        match = _check_filter(filter_, stix_obj)\n'
        '        if not match:\n'
        '            clean = False\n'
        '            break\n'
        '    if clean:\n'
        '        yield stix_obj\n'
    ),
}


def need(fns, name, where):
    if name not in fns:
        raise TranslateError("%s: `%s`, which the model mirrors, is gone" % (where, name))
    return fns[name]


def same(fns, name, where, key=None):
    return text_of(_strip_doc(need(fns, name, where).body)) == EXPECT[key or name]


def facts(repo):
    F, other = {}, []
    fl = collect(os.path.join(repo, "stix2", "datastore", "filters.py"))
    fs = collect(os.path.join(repo, "stix2", "datastore", "filesystem.py"))

    def field(name, ok, good, bad, what):
        F[name] = good if ok else bad
        if not ok:
            other.append(what)

    # ---- filters.py
    ops = need(fl, "=FILTER_OPS", "filters.py").value
    if not (isinstance(ops, ast.List) and all(isinstance(e, ast.Constant) and isinstance(e.value, str) for e in ops.elts)):
        raise TranslateError("filters.py: FILTER_OPS is not a literal list of strings")
    F["ops"] = [e.value for e in ops.elts]
    field("components", same(fl, "_check_filter_components", "filters.py") and same(fl, "Filter.__new__", "filters.py"),
          "ComponentsChecked", "ComponentsOther", "_check_filter_components / Filter.__new__")
    cp = _strip_doc(need(fl, "Filter._check_property", "filters.py").body)
    if len(cp) < 2:
        raise TranslateError("Filter._check_property: fewer than two statements")
    field("coerce", text_of(cp[:1]) == EXPECT["Filter._check_property#coerce"],
          "CoerceParseFilterValue", "CoerceOther", "Filter._check_property (conversion before the comparison)")
    field("dispatch", text_of(cp[1:]) == EXPECT["Filter._check_property#dispatch"],
          "DispatchModel", "DispatchOther", "Filter._check_property (operator dispatch)")
    field("apply", same(fl, "apply_common_filters", "filters.py"), "AllMustHold", "ApplyOther", "apply_common_filters")
    field("walk", same(fl, "_check_filter", "filters.py"), "WalkAnyElement", "WalkOther", "_check_filter")
    field("fset_init", same(fl, "FilterSet.__init__", "filters.py") and same(fl, "FilterSet.__iter__", "filters.py"),
          "InitCopies", "InitOther", "FilterSet.__init__ / __iter__")
    field("fset_add", same(fl, "FilterSet.add", "filters.py") and same(fl, "FilterSet.remove", "filters.py"),
          "AddUnique", "AddOther", "FilterSet.add / remove")

    # ---- filesystem.py
    field("update_allow", same(fs, "_update_allow", "filesystem.py"), "UpdateIntersect", "UpdateOther", "_update_allow")
    field("authset", same(fs, "AuthSet.__init__", "filesystem.py"), "WhiteMinusBlack", "AuthOther", "AuthSet.__init__")
    field("dir_entries", same(fs, "_get_matching_dir_entries", "filesystem.py"), "LookupOrListing", "EntriesOther",
          "_get_matching_dir_entries")
    fso = need(fs, "_find_search_optimizations", "filesystem.py")
    body = _strip_doc(fso.body)
    loops = [s for s in body if isinstance(s, ast.For) and ast.unparse(s.iter) == "filters"]
    variant = None
    if len(loops) == 1 and loops[0].body:
        lp = loops[0]
        guarded = ast.unparse(lp.body[0]) + "\n" == EXPECT["_find_search_optimizations#guard"]
        if guarded:
            stripped = ast.For(target=lp.target, iter=lp.iter, body=lp.body[1:], orelse=lp.orelse, lineno=0, col_offset=0)
            rest = [stripped if s is lp else s for s in body]
            if lp.body[1:] and text_of(rest) == EXPECT["_find_search_optimizations"] and "_is_str_seq" in fs \
                    and same(fs, "_is_str_seq", "filesystem.py"):
                variant = "CfgStringsOnly"
        elif text_of(body) == EXPECT["_find_search_optimizations"]:
            variant = "CfgAnyValue"
    field("opt", variant is not None, variant, "CfgOptOther", "_find_search_optimizations")
    F["unrecognised"] = other
    return F


FIELDS = ["components", "coerce", "dispatch", "apply", "walk", "fset_init", "fset_add", "update_allow", "opt", "authset",
          "dir_entries"]


def translate(repo, _py=None):
    F = facts(repo)
    ops = "; ".join('"%s"' % o.replace('"', '""') for o in F["ops"])
    lines = [
        "(* Gen/FilterFacts.v -- GENERATED by translators/tr_filters.py from the source text of",
        "   stix2/datastore/filters.py and stix2/datastore/filesystem.py.  Do not edit. *)",
        "From Coq Require Import List String.",
        "From V Require Import Model.FiltersCfg.",
        "Import ListNotations. Open Scope string_scope.",
        "",
        "(* FILTER_OPS as written *)",
        "Definition src_filter_ops : list string := [%s]." % ops,
        "",
        "(* the choices the source text makes at the places the filter model fixes%s *)" % (
            "" if not F["unrecognised"] else "; NOT the recorded text: " + ", ".join(F["unrecognised"])),
        "Definition src_filter_cfg : filter_cfg :=",
        "  mk_filter_cfg %s." % " ".join(F[f] for f in FIELDS),
        "",
    ]
    return "\n".join(lines), F


if __name__ == "__main__":
    import sys
    print(translate(sys.argv[1] if len(sys.argv) > 1 else "/repo")[0])

"""Translator for C17: class descriptors of the exception-flow model.

Reads the LIVE classes of stix2.v20 / stix2.v21 of the repository under check
(through harness/impl/c17_impl.py describe, which imports stix2 from
VERIF_REPO) and emits coq/Gen/C17Classes.v: for every class its slots in
order (name, required, has-default, 2.0 object-reference kind), the kind of
base (`bkind`), the `__init__` overrides that run before the generic
constructor (`prehook`) and the flattened list of checks its
`_check_object_constraints` chain performs (`conshook`, obtained by walking
the AST of every override), plus the registry tables (version x category x
type -> class) and the registered extension classes.

Fail closed: a hook whose statements are not of an understood shape becomes
`PreUnknown` / `ConsUnknown`; the model lets such a hook raise anything and
the obligation `live_registry_known` (Props/C17.v) then fails."""
import ast
import collections
import json
import os
import subprocess


class TranslateError(Exception):
    pass


def dump(repo, py, custom=False):
    here = os.path.dirname(os.path.abspath(__file__))
    script = os.path.join(os.path.dirname(here), "harness", "impl", "c17_impl.py")
    env = dict(os.environ)
    env.update({"PYTHONPATH": repo, "PYTHONHASHSEED": "0", "PYTHONDONTWRITEBYTECODE": "1"})
    p = subprocess.run([py, script, "describe"] + (["custom"] if custom else []), stdout=subprocess.PIPE,
                       stderr=subprocess.PIPE, text=True, env=env, timeout=300)
    if p.returncode != 0:
        raise TranslateError("describe failed: " + p.stderr[-1500:])
    return json.loads(p.stdout)


def ustr(s):
    if any(not (32 <= ord(c) <= 126) or c in '\\"' for c in s):
        raise TranslateError("name outside printable ASCII: %r" % s)
    return '(u "%s")' % s


def ulist(l):
    return "[" + "; ".join(ustr(x) for x in l) + "]"


def cstr(s):
    if any(not (32 <= ord(c) <= 126) or c == '"' for c in s):
        raise TranslateError("key outside printable ASCII: %r" % s)
    return '"%s"' % s


FAMILY_CLASSES = {
    "ValueError": "K_ValueError", "TypeError": "K_TypeError",
    "STIXError": "K_STIXError", "ObjectConfigurationError": "K_ObjectConfigurationError",
    "InvalidValueError": "K_InvalidValueError", "PropertyPresenceError": "K_PropertyPresenceError",
    "MissingPropertiesError": "K_MissingPropertiesError", "ExtraPropertiesError": "K_ExtraPropertiesError",
    "MutuallyExclusivePropertiesError": "K_MutuallyExclusivePropertiesError",
    "DependentPropertiesError": "K_DependentPropertiesError", "AtLeastOnePropertyError": "K_AtLeastOnePropertyError",
    "DictionaryKeyError": "K_DictionaryKeyError", "InvalidObjRefError": "K_InvalidObjRefError",
    "InvalidSelectorError": "K_InvalidSelectorError", "TLPMarkingDefinitionError": "K_TLPMarkingDefinitionError",
    "ParseError": "K_ParseError", "CustomContentError": "K_CustomContentError",
}


# ----------------------------------------------------------------------------
# _check_object_constraints bodies

class Unknown(Exception):
    pass


def _strlist(e):
    if isinstance(e, (ast.List, ast.Tuple)) and all(isinstance(x, ast.Constant) and isinstance(x.value, str) for x in e.elts):
        return [x.value for x in e.elts]
    return None


def _is_self(e):
    return isinstance(e, ast.Name) and e.id == "self"


def _self_method_call(e, name=None):
    """self.<name>(...) -> Call node"""
    if isinstance(e, ast.Call) and isinstance(e.func, ast.Attribute) and _is_self(e.func.value) \
            and (name is None or e.func.attr == name):
        return e
    return None


def _is_super_call(s):
    return (isinstance(s, ast.Expr) and isinstance(s.value, ast.Call) and isinstance(s.value.func, ast.Attribute)
            and s.value.func.attr == "_check_object_constraints" and isinstance(s.value.func.value, ast.Call)
            and isinstance(s.value.func.value.func, ast.Name) and s.value.func.value.func.id == "super")


def _calls(node, fname):
    for n in ast.walk(node):
        if isinstance(n, ast.Call) and isinstance(n.func, ast.Name) and n.func.id == fname:
            return True
    return False


def _safe_expr(e, env):
    """An expression over CLEANED state that cannot fail outside the family:
    self.get('p'[, default]), 'p' in self, self['p'] guarded by the caller,
    self.<public attr> (only used on required properties), local names bound
    to such values, constants, comparisons and boolean combinations."""
    if isinstance(e, ast.Constant):
        return True
    if isinstance(e, ast.Name):
        return e.id in env or e.id == "self"
    if isinstance(e, ast.BoolOp):
        return all(_safe_expr(v, env) for v in e.values)
    if isinstance(e, ast.UnaryOp) and isinstance(e.op, ast.Not):
        return _safe_expr(e.operand, env)
    if isinstance(e, ast.Compare):
        return _safe_expr(e.left, env) and all(_safe_expr(c, env) for c in e.comparators)
    if isinstance(e, ast.Call):
        c = _self_method_call(e, "get")
        if c is not None and 1 <= len(c.args) <= 2 and not c.keywords and all(
                isinstance(a, ast.Constant) or (isinstance(a, (ast.Dict, ast.List)) and not ast.unparse(a).strip("[]{}")) for a in c.args):
            return True
        # any(<safe test> for x in self['p'])  (the caller has tested 'p' in self)
        if isinstance(e.func, ast.Name) and e.func.id in ("any", "all") and len(e.args) == 1 and not e.keywords \
                and isinstance(e.args[0], ast.GeneratorExp) and len(e.args[0].generators) == 1:
            g = e.args[0].generators[0]
            it_ok = _safe_expr(g.iter, env) or (isinstance(g.iter, ast.Subscript) and _is_self(g.iter.value)
                                                and isinstance(g.iter.slice, ast.Constant))
            if it_ok and isinstance(g.target, ast.Name) and not g.ifs and not g.is_async:
                env2 = dict(env)
                env2[g.target.id] = True
                return _safe_expr(e.args[0].elt, env2)
        return False
    if isinstance(e, ast.Attribute) and _is_self(e.value) and (not e.attr.startswith("_") or e.attr.lstrip("_").isupper()):
        return True
    if isinstance(e, (ast.List, ast.Tuple)):
        return all(_safe_expr(x, env) for x in e.elts)
    return False


def _raises_in(stmts):
    """family classes raised anywhere in stmts (Unknown if a raise is not understood)"""
    out = []
    for s in stmts:
        for n in ast.walk(s):
            if isinstance(n, ast.Raise):
                if n.exc is None:
                    raise Unknown("bare raise")
                f = n.exc.func if isinstance(n.exc, ast.Call) else n.exc
                if isinstance(f, ast.Name) and f.id in FAMILY_CLASSES:
                    out.append(FAMILY_CLASSES[f.id])
                elif isinstance(f, ast.Name) and f.id == "enclosing_exc":
                    out.append("K_AtLeastOnePropertyError")
                else:
                    raise Unknown("raise of " + ast.unparse(n))
    return out


SELF_CHECKS = {
    "_check_at_least_one_property": "K_AtLeastOnePropertyError",
    "_check_mutually_exclusive_properties": "K_MutuallyExclusivePropertiesError",
    "_check_properties_dependency": "K_DependentPropertiesError",
}


def _simple_effects(stmts, env):
    """classes that a block of simple statements may raise; every statement
    must be: assignment of a safe expression / string constant, a self._check_*
    call with literal arguments, a raise of a family class, an `if` over safe
    expressions with such a body."""
    out = []
    for s in stmts:
        if isinstance(s, ast.Assign) and len(s.targets) == 1 and isinstance(s.targets[0], ast.Name):
            if _safe_expr(s.value, env) or _strlist(s.value) is not None:
                env[s.targets[0].id] = True
                continue
            raise Unknown(ast.unparse(s))
        if isinstance(s, ast.Expr):
            c = _self_method_call(s.value)
            if c is not None and c.func.attr in SELF_CHECKS and all(
                    _strlist(a) is not None or (isinstance(a, ast.Name) and a.id in env) for a in c.args) and not c.keywords:
                out.append(SELF_CHECKS[c.func.attr])
                continue
            # self.extensions['windows-process-ext']._check_at_least_one_property()
            if isinstance(s.value, ast.Call) and isinstance(s.value.func, ast.Attribute) \
                    and s.value.func.attr == "_check_at_least_one_property" and not s.value.args \
                    and isinstance(s.value.func.value, ast.Subscript) \
                    and isinstance(s.value.func.value.value, ast.Attribute) and _is_self(s.value.func.value.value.value) \
                    and isinstance(s.value.func.value.slice, ast.Constant):
                out.append("K_AtLeastOnePropertyError")
                continue
            raise Unknown(ast.unparse(s))
        if isinstance(s, ast.Raise):
            out += _raises_in([s])
            continue
        if isinstance(s, ast.If):
            if not _safe_expr(s.test, env):
                raise Unknown("test " + ast.unparse(s.test))
            out += _simple_effects(s.body, dict(env))
            out += _simple_effects(s.orelse, dict(env))
            continue
        if isinstance(s, ast.For):
            out += _loop_effects(s, env)
            continue
        raise Unknown(ast.unparse(s))
    return out


def _loop_effects(s, env):
    """for k, v in <cleaned dict>.items(): if <test on k, v>: raise <family class>
    (SocketExt options).  The tests may use str methods and isinstance only."""
    it = s.iter
    ok = (isinstance(it, ast.Call) and isinstance(it.func, ast.Attribute) and it.func.attr == "items" and not it.args
          and isinstance(it.func.value, ast.Name) and it.func.value.id in env and not s.orelse)
    if not ok:
        raise Unknown("for " + ast.unparse(it))
    targets = [n.id for n in ast.walk(s.target) if isinstance(n, ast.Name)]
    for b in s.body:
        if not (isinstance(b, ast.If) and not b.orelse and all(isinstance(x, ast.Raise) for x in b.body)):
            raise Unknown("loop body " + ast.unparse(b))
        for n in ast.walk(b.test):
            if isinstance(n, ast.Call):
                f = n.func
                if not ((isinstance(f, ast.Name) and f.id == "isinstance") or
                        (isinstance(f, ast.Attribute) and f.attr in ("find", "startswith", "endswith"))):
                    raise Unknown("call in loop test " + ast.unparse(n))
            if isinstance(n, ast.Name) and n.id not in targets and n.id not in env and n.id not in ("isinstance", "int", "str", "bool", "float", "list", "dict", "bytes"):
                raise Unknown("name in loop test " + n.id)
    return _raises_in(s.body)


def own_checks(src, ver20):
    """(calls_super, [conshook terms]) for one _check_object_constraints definition"""
    if src is None:
        return True, ["ConsUnknown"]
    try:
        fn = ast.parse(src).body[0]
    except SyntaxError:
        return True, ["ConsUnknown"]
    if not isinstance(fn, ast.FunctionDef) or [a.arg for a in fn.args.args] != ["self"] or fn.args.vararg or fn.args.kwarg:
        return True, ["ConsUnknown"]
    body = list(fn.body)
    if body and isinstance(body[0], ast.Expr) and isinstance(body[0].value, ast.Constant) and isinstance(body[0].value.value, str):
        body = body[1:]
    calls_super = any(_is_super_call(s) for s in body)
    out = []
    env = {}
    i = 0
    try:
        while i < len(body):
            s = body[i]
            if _is_super_call(s):
                if i != 0 and not all(isinstance(b, ast.Expr) and isinstance(b.value, ast.Constant) for b in body[:i]):
                    raise Unknown("super call is not the first statement")
                i += 1
                continue
            # the base method: for m in self.get('granular_markings', []): validate(self, m.get('selectors'))
            if _calls(s, "validate"):
                rest = body[i:]
                if all(_calls(x, "validate") or isinstance(x, (ast.Assign, ast.If)) for x in rest) and not any(
                        _calls(x, "run_validator") or _calls(x, "check_tlp_marking") for x in rest):
                    # (the repaired form has a guarding `if ... raise InvalidValueError` before the loop)
                    _raises_in(rest)
                    out.append("ConsBase")
                    i = len(body)
                    continue
                raise Unknown("validate() in an unexpected context")
            if isinstance(s, ast.Assign) and _calls(s, "validate") is False and any(_calls(x, "validate") for x in body[i:]) \
                    and len(s.targets) == 1 and isinstance(s.targets[0], ast.Name) and _safe_expr(s.value, env):
                env[s.targets[0].id] = True
                i += 1
                continue
            if isinstance(s, ast.If) and any(_calls(x, "validate") for x in body[i + 1:]) and not _calls(s, "validate"):
                # guard in front of the loop (repaired base method)
                _raises_in([s])
                i += 1
                continue
            # the pattern validator (any statement group mentioning run_validator, guarded or not)
            if _calls(s, "run_validator"):
                out.append("ConsIndicator20" if ver20 else "ConsIndicator21")
                i += 1
                # the following `if errors: raise InvalidValueError(...)`
                while i < len(body) and isinstance(body[i], ast.If) and isinstance(body[i].test, ast.Name):
                    _raises_in([body[i]])
                    i += 1
                continue
            if _calls(s, "check_tlp_marking"):
                if not (isinstance(s, ast.Expr) and isinstance(s.value, ast.Call) and len(s.value.args) == 2
                        and _is_self(s.value.args[0]) and isinstance(s.value.args[1], ast.Constant)):
                    raise Unknown("check_tlp_marking in an unexpected context")
                if s.value.args[1].value == "2.0":
                    out.append("ConsTLP20")
                else:
                    # the 2.1 method: three self.get assignments, the presence test, then the TLP check
                    if out and out[-1] == "(ConsMay [K_PropertyPresenceError])":
                        out.pop()
                    out.append("ConsMarkingDef21")
                i += 1
                continue
            if isinstance(s, ast.Expr):
                c = _self_method_call(s.value)
                if c is not None and c.func.attr == "_check_at_least_one_property" and not c.keywords:
                    if not c.args:
                        out.append("ConsAtLeastOneDefault")
                        i += 1
                        continue
                    names = _strlist(c.args[0]) if len(c.args) == 1 else None
                    if names is None and len(c.args) == 1 and isinstance(c.args[0], ast.Name) and isinstance(env.get(c.args[0].id), list):
                        names = env[c.args[0].id]
                    if names is not None:
                        out.append("(ConsAtLeastOne %s)" % ulist(names))
                        i += 1
                        continue
                    raise Unknown(ast.unparse(s))
                if c is not None and c.func.attr == "_check_mutually_exclusive_properties":
                    names = _strlist(c.args[0]) if c.args else None
                    alo = True
                    if len(c.args) == 2 and isinstance(c.args[1], ast.Constant):
                        alo = bool(c.args[1].value)
                    for k in c.keywords:
                        if k.arg == "at_least_one" and isinstance(k.value, ast.Constant):
                            alo = bool(k.value.value)
                        else:
                            raise Unknown(ast.unparse(s))
                    if names is not None:
                        out.append("(ConsMutex %s %s)" % (ulist(names), "true" if alo else "false"))
                        i += 1
                        continue
                    raise Unknown(ast.unparse(s))
                if c is not None and c.func.attr == "_check_properties_dependency":
                    out.append("(ConsMay [K_DependentPropertiesError])")
                    if not (len(c.args) == 2 and _strlist(c.args[0]) is not None and _strlist(c.args[1]) is not None):
                        raise Unknown(ast.unparse(s))
                    i += 1
                    continue
                if isinstance(s.value, ast.Constant):
                    i += 1
                    continue
                raise Unknown(ast.unparse(s))
            if isinstance(s, ast.Assign) and len(s.targets) == 1 and isinstance(s.targets[0], ast.Name):
                l = _strlist(s.value)
                if l is not None:
                    env[s.targets[0].id] = l
                    i += 1
                    continue
                if _safe_expr(s.value, env):
                    env[s.targets[0].id] = True
                    i += 1
                    continue
                raise Unknown(ast.unparse(s))
            if isinstance(s, ast.If):
                ks = _simple_effects([s], dict(env))
                if ks:
                    out.append("(ConsMay [%s])" % "; ".join(dict.fromkeys(ks)))
                i += 1
                continue
            if isinstance(s, ast.Try):
                # Process: try: <checks> except AtLeastOnePropertyError as enclosing_exc: <checks / re-raise>
                ks = _simple_effects(s.body, dict(env))
                for h in s.handlers:
                    if not (isinstance(h.type, ast.Name) and h.type.id in FAMILY_CLASSES):
                        raise Unknown("handler " + ast.unparse(h))
                    henv = dict(env)
                    if h.name:
                        henv[h.name] = True
                    ks += _simple_effects(h.body, henv)
                if s.orelse or s.finalbody:
                    raise Unknown("try/else/finally")
                if ks:
                    out.append("(ConsMay [%s])" % "; ".join(dict.fromkeys(ks)))
                i += 1
                continue
            raise Unknown(ast.unparse(s))
    except Unknown:
        return calls_super, ["ConsUnknown"]
    return calls_super, out


def cons_for(chain, hook_src, ver20):
    """chain: defining classes, most derived first.  Execution order: each
    override calls super first (checked), so the checks run base-first."""
    parts = []
    for qn in chain:
        src = (hook_src.get(qn) or {}).get("_check_object_constraints")
        calls_super, own = own_checks(src, ver20)
        parts.append((calls_super, own))
    out = []
    # walk from the most derived: stop descending at an override that does not call super
    seq = []
    for calls_super, own in parts:
        seq.append(own)
        if not calls_super:
            break
    for own in reversed(seq):
        out += own
    return out


# ----------------------------------------------------------------------------
# __init__ overrides

def pre_for(qn, src):
    """prehook term for one __init__ definition other than the generic ones"""
    if src is None:
        return "PreUnknown"
    try:
        fn = ast.parse(src).body[0]
    except SyntaxError:
        return "PreUnknown"
    body = list(fn.body)
    if body and isinstance(body[0], ast.Expr) and isinstance(body[0].value, ast.Constant):
        body = body[1:]
    text = "\n".join(ast.unparse(b) for b in body)
    last = body[-1] if body else None
    ends_in_super = (isinstance(last, ast.Expr) and isinstance(last.value, ast.Call) and isinstance(last.value.func, ast.Attribute)
                     and last.value.func.attr == "__init__" and isinstance(last.value.func.value, ast.Call)
                     and isinstance(last.value.func.value.func, ast.Name) and last.value.func.value.func.id == "super")
    if not ends_in_super:
        return "PreUnknown"
    name = qn.split(".")[-1]
    if name == "MarkingDefinition":
        need = ["OBJ_MAP_MARKING[kwargs['definition_type']]", "except KeyError", "_get_dict(kwargs['definition'])",
                "marking_type(**defn)", "{'definition_type', 'definition'}.issubset(kwargs.keys())"]
        if all(n in text for n in need):
            if qn.startswith("v20."):
                return "PreMarkingDef20" if "_should_set_millisecond(kwargs['created'], marking_type)" in text else "PreUnknown"
            return "PreMarkingDef21" if "_should_set_millisecond" not in text else "PreUnknown"
        return "PreUnknown"
    # named parameters copied back when truthy
    named = [a.arg for a in fn.args.args[1:]]
    if named and fn.args.kwarg and not fn.args.vararg:
        want = []
        for n in named:
            want.append("if %s and (not kwargs.get('%s')):\n    kwargs['%s'] = %s" % (n, n, n, n))
        got = "\n".join(ast.unparse(b) for b in body[:-1])
        if got == "\n".join(want):
            return "(PreAliases %s)" % ulist(named)
        # from fix f0b79e4 on: only None is not copied back (`X is not None and kwargs.get('X') is None`); a None value
        # is not stored by the generic constructor either, so for the exception flow this is the identity
        want2 = ["if %s is not None and kwargs.get('%s') is None:\n    kwargs['%s'] = %s" % (n, n, n, n) for n in named]
        if got == "\n".join(want2):
            return "PreNoop"
        return "PreUnknown"
    if not named and fn.args.kwarg:
        # no statement may index kwargs (reads go through .get / `in`), call anything but
        # warnings.warn / isinstance / list methods, or raise
        for b in body[:-1]:
            for n in ast.walk(b):
                if isinstance(n, ast.Raise):
                    return "PreUnknown"
                if isinstance(n, ast.Subscript) and isinstance(n.ctx, ast.Load):
                    return "PreUnknown"
                if isinstance(n, ast.Call):
                    f = n.func
                    okc = (isinstance(f, ast.Attribute) and f.attr in ("get", "warn", "append")) or \
                          (isinstance(f, ast.Name) and f.id in ("isinstance",))
                    if not okc:
                        return "PreUnknown"
        return "PreNoop"
    return "PreUnknown"


GENERIC_INITS = ("base._STIXBase", "base._Observable", "v21.base._Observable")


# ----------------------------------------------------------------------------
# stix2/exceptions.py: __str__ / __repr__ / __init__ of the library's own exception classes
# (_check_property calls str(exc) inside its except handler: a __str__ that raises escapes the wrapper)

def check_exception_texts(repo):
    """(ok, checked, offenders): every message is built by `.format(...)` / `%` on a CONSTANT template (never on a
    string that input was spliced into), positional fields exist, and `{N.attr}` fields of `self` name attributes
    that the class's __init__ (or a base's) assigns."""
    import string
    path = os.path.join(repo, "stix2", "exceptions.py")
    tree = ast.parse(open(path, encoding="utf-8").read())
    classes = {n.name: n for n in tree.body if isinstance(n, ast.ClassDef)}

    def init_attrs(cname, seen=()):
        out = set()
        c = classes.get(cname)
        if c is None or cname in seen:
            return out
        for f in c.body:
            if isinstance(f, ast.FunctionDef) and f.name == "__init__":
                for n in ast.walk(f):
                    if isinstance(n, ast.Attribute) and isinstance(n.ctx, ast.Store) and isinstance(n.value, ast.Name) and n.value.id == "self":
                        out.add(n.attr)
        for b in c.bases:
            if isinstance(b, ast.Name):
                out |= init_attrs(b.id, seen + (cname,))
        return out

    offenders, checked = [], 0
    for cname, c in classes.items():
        attrs = init_attrs(cname)
        for f in c.body:
            if not (isinstance(f, ast.FunctionDef) and f.name in ("__str__", "__repr__", "__init__")):
                continue
            checked += 1
            consts = {}
            for n in ast.walk(f):
                if isinstance(n, ast.Assign) and len(n.targets) == 1 and isinstance(n.targets[0], ast.Name):
                    if isinstance(n.value, ast.Constant) and isinstance(n.value.value, str):
                        consts[n.targets[0].id] = n.value.value
                    else:
                        consts.pop(n.targets[0].id, None)
                        if n.targets[0].id in ("msg", "message", "template", "fmt"):
                            consts[n.targets[0].id] = None      # a message name bound to a non-constant
            where = "%s.%s" % (cname, f.name)
            for n in ast.walk(f):
                tmpl, args = "?", None
                if isinstance(n, ast.Call) and isinstance(n.func, ast.Attribute) and n.func.attr == "format":
                    r = n.func.value
                    if isinstance(r, ast.Constant) and isinstance(r.value, str):
                        tmpl = r.value
                    elif isinstance(r, ast.Name) and isinstance(consts.get(r.id), str):
                        tmpl = consts[r.id]
                    else:
                        offenders.append("%s: .format() on a non-constant template (%s)" % (where, ast.unparse(r)[:60]))
                        continue
                    args = n.args
                    if n.keywords:
                        offenders.append("%s: keyword arguments to .format()" % where)
                        continue
                elif isinstance(n, ast.BinOp) and isinstance(n.op, ast.Mod):
                    l = n.left
                    is_str_const = (isinstance(l, ast.Constant) and isinstance(l.value, str)) or \
                                   (isinstance(l, ast.Name) and isinstance(consts.get(l.id), str))
                    if not is_str_const and not (isinstance(l, ast.Constant) and not isinstance(l.value, str)):
                        offenders.append("%s: %% formatting on a non-constant template (%s)" % (where, ast.unparse(l)[:60]))
                    continue
                else:
                    continue
                try:
                    fields = [fn for _, fn, _, _ in string.Formatter().parse(tmpl) if fn is not None]
                except ValueError as e:
                    offenders.append("%s: malformed template: %s" % (where, e))
                    continue
                auto = 0
                for fn in fields:
                    head = fn.split(".")[0].split("[")[0]
                    if head == "":
                        idx = auto
                        auto += 1
                    elif head.isdigit():
                        idx = int(head)
                    else:
                        offenders.append("%s: named field {%s}" % (where, fn))
                        continue
                    if idx >= len(args):
                        offenders.append("%s: field {%s} has no argument" % (where, fn))
                        continue
                    if "[" in fn:
                        offenders.append("%s: indexing field {%s}" % (where, fn))
                        continue
                    parts = fn.split(".")[1:]
                    if parts and isinstance(args[idx], ast.Name) and args[idx].id == "self":
                        if parts[0] not in attrs and not (parts[0].startswith("__") and parts[0].endswith("__")):
                            offenders.append("%s: {%s}: self.%s is not assigned in __init__" % (where, fn, parts[0]))
    return (not offenders), checked, offenders

# stix2/custom.py builder classes: `base_class.__init__(self, **kwargs); _cls_init(cls, self, kwargs)` and, for
# objects and observables, the with_extension block
CUSTOM_INIT_PLAIN = "base_class.__init__(self, **kwargs)\n_cls_init(cls, self, kwargs)"
CUSTOM_INIT_WITH_EXT = CUSTOM_INIT_PLAIN + (
    "\next = getattr(self, 'with_extension', None)\nif ext and version != '2.0':\n"
    "    if 'extensions' not in self._inner:\n        self._inner['extensions'] = {}\n"
    "    self._inner['extensions'][ext] = class_for_type(ext, version, 'extensions')()")


# from fix 3b66676 on the empty `extensions` dict is put at its place in property order (a pure rearrangement of
# the constructed object's own dict)
CUSTOM_INIT_WITH_EXT_ORDERED = CUSTOM_INIT_WITH_EXT.replace(
    "self._inner['extensions'] = {}", "_insert_in_property_order(self, 'extensions', {})")
assert CUSTOM_INIT_WITH_EXT_ORDERED != CUSTOM_INIT_WITH_EXT


# from fix 3849cfe on the custom OBSERVABLE builder recomputes the deterministic id after adding the extension:
# one more call of self._generate_id() (already in the model: InvalidValueError / ValueError, huge-integer site)
CUSTOM_INIT_WITH_EXT_REGEN = CUSTOM_INIT_WITH_EXT_ORDERED + (
    "\n    if kwargs.get('id') is None:\n        id_ = self._generate_id()\n        if id_ is not None:\n"
    "            self._inner['id'] = id_")


def pre_for_custom(src, with_extension, user_init):
    """prehook for a class built by stix2.custom around a user class"""
    if src is None or user_init:
        return "PreUnknown"         # the user class's own __init__ is arbitrary code
    try:
        fn = ast.parse(src).body[0]
    except SyntaxError:
        return "PreUnknown"
    if [a.arg for a in fn.args.args] != ["self"] or not fn.args.kwarg or fn.args.vararg:
        return "PreUnknown"
    text = "\n".join(ast.unparse(b) for b in fn.body)
    if text == CUSTOM_INIT_PLAIN:
        return "(PreCustom false)"
    if text in (CUSTOM_INIT_WITH_EXT, CUSTOM_INIT_WITH_EXT_ORDERED, CUSTOM_INIT_WITH_EXT_REGEN):
        return "(PreCustom %s)" % ("true" if with_extension else "false")
    return "PreUnknown"


def slot_term(s):
    ref = {"none": "RefNone", "one": "RefOne", "many": "RefMany"}[s["objref"]]
    # _Observable._check_property looks at the NAME as well
    if ref == "RefOne" and not s["name"].endswith("_ref"):
        ref = "RefNone"
    if ref == "RefMany" and not s["name"].endswith("_refs"):
        ref = "RefNone"
    emb = s.get("embedded")
    kind = "KLeaf"
    if emb and emb[0] == "one":
        kind = "(KEmbedded %s)" % cstr(emb[1])
    elif emb and emb[0] == "many":
        kind = "(KListEmbedded %s)" % cstr(emb[1])
    elif emb and emb[0] in ("extensions", "stix_objects", "observables", "dict"):
        if emb[1] not in ("2.0", "2.1"):
            raise TranslateError("slot %s: spec_version %r" % (s["name"], emb[1]))
        kind = "(%s %s)" % ({"extensions": "KExtensions", "stix_objects": "KStixObjects", "observables": "KObservables", "dict": "KDict"}[emb[0]],
                            "true" if emb[1] == "2.0" else "false")
    return "{| s_name := %s; s_required := %s; s_default := %s; s_ref := %s; s_kind := %s |}" % (
        ustr(s["name"]), "true" if s["required"] else "false", "true" if s["default"] else "false", ref, kind)


def ident(key):
    return "c_" + "".join(ch if ch.isalnum() else "_" for ch in key)


def emit(d, dc=None):
    """d: describe of the library as imported; dc: describe after the harness's user registrations
    (c17_impl.register_custom) -- only its extra classes and its registries are emitted (as `live_custom`)"""
    out = ["(* GENERATED by translators/tr_c17classes.py from the live classes of the repository under check. *)",
           "From Coq Require Import NArith ZArith List String Bool.",
           "From V Require Import Base.UString Base.Json Model.Errors.",
           "Import ListNotations.", "Open Scope string_scope.", ""]
    names = {}
    unknown = []
    _emit_classes(d, d["classes"], out, names, unknown)
    _emit_registry(d, "live", out, names)
    out.append("Definition all_classes : list (string * cls) :=\n  [%s].\n" % ";\n   ".join(
        "(%s, %s)" % (cstr(k), n) for k, n in names.items()))
    if dc is not None:
        for k in d["classes"]:
            if k not in dc["classes"]:
                raise TranslateError("library class %s disappears after user registrations" % k)
        extra = collections.OrderedDict((k, c) for k, c in dc["classes"].items() if k not in d["classes"])
        _emit_classes(dc, extra, out, names, unknown)
        _emit_registry(dc, "live_custom", out, names)
    if dc is not None:
        out.append("Definition all_classes_custom : list (string * cls) :=\n  [%s].\n" % ";\n   ".join(
            "(%s, %s)" % (cstr(k), n) for k, n in names.items()))
    return "\n".join(out), unknown


def _emit_classes(d, classes, out, names, unknown):
    hook_src = d["hook_src"]
    for key, c in classes.items():
        ver20 = c["version"] == "2.0"
        ic = c["init_chain"]
        if "v21.base._Observable" in ic:
            kind = "BObs21"
        elif "base._Observable" in ic:
            kind = "BObs20"
        elif c["kind"] == "extension":
            kind = "BExt"
        else:
            kind = "BPlain"
        if c["check_property"] not in ("base._STIXBase", "base._Observable"):
            pre = ["PreUnknown"]
        else:
            pre = []
        if (kind in ("BObs20", "BObs21")) != (c["check_property"] == "base._Observable"):
            pre = ["PreUnknown"]
        user_init = any(q.startswith("user:") for q in ic)
        for qn in ic:
            if qn in GENERIC_INITS or qn.startswith("user:"):
                continue
            if qn.startswith("custom._custom_") and "<locals>._Custom" in qn:
                pre.append(pre_for_custom((hook_src.get(qn) or {}).get("__init__"), c.get("with_extension"), user_init))
                continue
            pre.append(pre_for(qn, (hook_src.get(qn) or {}).get("__init__")))
        cons = cons_for(c["cons_chain"], hook_src, ver20)
        if "PreUnknown" in pre or "ConsUnknown" in cons:
            unknown.append(key)
        nm = ident(key)
        names[key] = nm
        out.append("Definition %s : cls := {|\n  c_key := %s; c_ver20 := %s; c_kind := %s;\n  c_slots := [\n    %s ];\n"
                   "  c_pre := [%s];\n  c_cons := [%s] |}.\n" % (
                       nm, cstr(key), "true" if ver20 else "false", kind,
                       ";\n    ".join(slot_term(s) for s in c["slots"]),
                       "; ".join(pre), "; ".join(cons)))


def _emit_registry(d, name, out, names):
    def table(ver, cat):
        rows = []
        for t, key in sorted(d["registry"].get(ver, {}).get(cat, {}).items()):
            if key not in names:
                raise TranslateError("registered class %s (%s/%s/%s) is not one of the described classes" % (key, ver, cat, t))
            rows.append("(%s, %s)" % (ustr(t), names[key]))
        return "[" + ";\n   ".join(rows) + "]"

    def extlist(ver):
        exts = []
        for t, tl in sorted((d.get("ext_toplevel", {}).get(ver) or {}).items()):
            ck = (d.get("ext_class", {}).get(ver) or {}).get(t)
            exts.append("{| x_name := %s; x_toplevel := %s; x_cls := %s |}" % (
                ustr(t), "None" if tl is None else "(Some [%s])" % "; ".join(slot_term(s) for s in tl),
                "(Some %s)" % names[ck] if ck in names else "None"))
        return exts
    out.append("Definition %s : registry := {|\n  r_objects20 := %s;\n  r_observables20 := %s;\n  r_markings20 := %s;\n"
               "  r_objects21 := %s;\n  r_observables21 := %s;\n  r_markings21 := %s;\n  r_extensions21 := [%s];\n  r_extensions20 := [%s] |}.\n" % (
                   name, table("2.0", "objects"), table("2.0", "observables"), table("2.0", "markings"),
                   table("2.1", "objects"), table("2.1", "observables"), table("2.1", "markings"),
                   ";\n   ".join(extlist("2.1")), ";\n   ".join(extlist("2.0"))))


def translate(repo, py):
    d = dump(repo, py)
    dc = dump(repo, py, custom=True)
    text, unknown = emit(d, dc)
    ok, checked, offenders = check_exception_texts(repo)
    text += ("\n(* stix2/exceptions.py: %d __str__/__repr__/__init__ methods checked: every message is formatted from a constant\n"
             "   template with existing fields%s *)\nDefinition exceptions_str_templates_constant : bool := %s.\n" % (
                 checked, "" if ok else "; OFFENDERS: " + "; ".join(o.replace("*)", "* )").replace("(*", "( *") for o in offenders),
                 "true" if ok else "false"))
    unknown = unknown + ["exceptions.py: " + o for o in offenders]
    import tr_c17flow
    ftext, fres = tr_c17flow.emit(repo)
    text += ftext
    unknown = unknown + ["flow inventory: %s %s %s %s" % o for o in fres["unmatched"]]
    flow = {"occurrences": fres["occurrences"], "auto": fres["auto"], "reviewed": fres["reviewed"],
            "sites": fres["sites"], "unmatched": ["%s %s %s %s" % o for o in fres["unmatched"]]}
    return text, {"unknown_hooks": unknown, "fingerprints": d.get("fingerprints", {}), "describe": d, "describe_custom": dc,
                  "flow": flow}

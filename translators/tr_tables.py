"""tr_tables -- class tables of stix2.v20/v21 as Gallina.

dump(repo)            run translators/dump_tables.py against <repo> (live classes)
parse_constraints(..) recognise the closed set of constraint / __init__ shapes
emit(tables, name)    Gallina text defining `<name> : world`
The same emitter is used for the frozen specification tables
(/verif/spec/stix_tables.json), so both sides live in one vocabulary
(coq/Model/SchemaTypes.v).
"""
import ast
import json
import os
import subprocess
import sys

HERE = os.path.dirname(os.path.abspath(__file__))


class TranslateError(Exception):
    pass


def dump(repo, py="/venv/bin/python"):
    env = dict(os.environ)
    env["PYTHONPATH"] = repo
    env["PYTHONHASHSEED"] = "0"
    env["PYTHONDONTWRITEBYTECODE"] = "1"
    p = subprocess.run([py, os.path.join(HERE, "dump_tables.py")], stdout=subprocess.PIPE, stderr=subprocess.PIPE,
                       text=True, env=env, cwd="/")
    if p.returncode != 0:
        raise TranslateError("dump_tables failed: " + p.stderr.strip()[-800:])
    return json.loads(p.stdout)


# ---------------------------------------------------------------- literals

def ustr(s):
    out = []
    for ch in s:
        c = ord(ch)
        if 32 <= c <= 126 and ch not in '\\"':
            out.append(ch)
        else:
            out.append("\\%06X" % c)
    return '(u "%s")' % "".join(out)


def zlit(n):
    return "(%d)%%Z" % n


def lst(items):
    return "[" + "; ".join(items) + "]"


def opt(x):
    return "None" if x is None else "(Some %s)" % x


def ulist(xs):
    return lst([ustr(x) for x in xs])


def verlit(v):
    return {"2.0": "V20", "2.1": "V21"}[v]


def jlit(x):
    if x is None:
        return "JNull"
    if x is True or x is False:
        return "(JBool %s)" % ("true" if x else "false")
    if isinstance(x, int):
        return "(JInt %s)" % zlit(x)
    if isinstance(x, float):
        return "(JFloat %s)" % ustr(repr(x))
    if isinstance(x, str):
        return "(JStr %s)" % ustr(x)
    if isinstance(x, list):
        return "(JArr %s)" % lst([jlit(e) for e in x])
    if isinstance(x, dict):
        return "(JObj %s)" % lst(["(%s, %s)" % (ustr(k), jlit(v)) for k, v in x.items()])
    raise TranslateError("jlit: %r" % (x,))


# ---------------------------------------------------------------- kinds

def kind(k):
    t = k["k"]
    if t == "string":
        return "KString"
    if t == "pattern":
        return "KPattern"
    if t == "objref":
        return "(KObjRef %s)" % ulist(k.get("valid_types") or [])
    if t == "fixed":
        return "(KFixed %s %s)" % (ustr(k["v"]), ulist(k.get("allowed", [])))
    if t == "id":
        return "(KId %s %s)" % (ustr(k["prefix"]), verlit(k["ver"]))
    if t == "int":
        return "(KInt %s %s)" % (opt(None if k["min"] is None else zlit(k["min"])), opt(None if k["max"] is None else zlit(k["max"])))
    if t == "float":
        return "(KFloat %s %s)" % (opt(None if k["min"] is None else zlit(k["min"])), opt(None if k["max"] is None else zlit(k["max"])))
    if t == "bool":
        return "KBool"
    if t == "time":
        return "(KTime %s %s)" % ({"any": "PAny", "second": "PSecond", "millisecond": "PMilli"}[k["prec"]],
                                  {"exact": "CExact", "min": "CMin"}[k["constr"]])
    if t == "dict":
        return "(KDict %s)" % verlit(k["ver"])
    if t == "hashes":
        return "(KHashes %s %s)" % (ulist(k["names"]), verlit(k["ver"]))
    if t == "binary":
        return "KBinary"
    if t == "hex":
        return "KHex"
    if t == "ref":
        return "(KRef %s %s %s %s)" % ("true" if k["white"] else "false", ulist(k["generics"]), ulist(k["specifics"]), verlit(k["ver"]))
    if t == "selector":
        return "KSelector"
    if t == "embedded":
        return "(KEmbedded %s)" % ustr(k["cls"])
    if t == "enum":
        return "(KEnum %s)" % ulist(k["allowed"])
    if t == "openvocab":
        return "(KOpenVocab %s)" % ulist(k["allowed"])
    if t == "observable":
        return "(KObservable %s)" % verlit(k["ver"])
    if t == "extensions":
        return "(KExtensions %s)" % verlit(k["ver"])
    if t == "stixobject":
        return "(KStixObject %s)" % verlit(k["ver"])
    if t == "marking":
        return "(KMarking %s)" % verlit(k["ver"])
    if t == "list":
        return "(KList %s)" % kind(k["of"])
    if t == "listof":
        return "(KListOf %s)" % ustr(k["cls"])
    if t == "any":
        return "KAny"
    raise TranslateError("unknown kind %r" % (k,))


def dflt(d):
    t = d["d"]
    if t == "none":
        return "DNone"
    if t == "fixed":
        return "DFixed"
    if t == "now":
        return "DNow"
    if t == "uuid4":
        return "DUuid4"
    if t == "const":
        return "(DConst %s)" % jlit(d["v"])
    raise TranslateError("unknown default %r" % (d,))


# ---------------------------------------------------------------- constraints

ERR = {"ValueError": "EValueError", "DependentPropertiesError": "EDependentProperties",
       "PropertyPresenceError": "EPropertyPresence", "InvalidValueError": "EInvalidValue"}

SOCKET_SRC = """options = self.get('options')
if options is not None:
    acceptable_prefixes = ['SO_', 'ICMP_', 'ICMP6_', 'IP_', 'IPV6_', 'MCAST_', 'TCP_', 'IRLMP_']
    for key, val in options.items():
        if key[:key.find('_') + 1] not in acceptable_prefixes:
            raise ValueError('Incorrect options key')
        if not isinstance(val, int):
            raise ValueError('Options value must be an integer')"""

# the same check with booleans excluded from "integer" (proposed fix C02-socket-option-boolean-for-integer);
# which of the two the code under test matches is detected by a witness at run time (variant vr_sock_int)
SOCKET_SRC_INT = SOCKET_SRC.replace("if not isinstance(val, int):", "if not isinstance(val, int) or isinstance(val, bool):")
SOCKET_SRC_INT2 = SOCKET_SRC.replace("if not isinstance(val, int):", "if isinstance(val, bool) or not isinstance(val, int):")
assert len({SOCKET_SRC, SOCKET_SRC_INT, SOCKET_SRC_INT2}) == 3

PROCESS_SRC = """try:
    self._check_at_least_one_property()
    if 'windows-process-ext' in self.get('extensions', {}):
        self.extensions['windows-process-ext']._check_at_least_one_property()
except AtLeastOnePropertyError as enclosing_exc:
    if 'extensions' not in self:
        raise enclosing_exc
    elif 'windows-process-ext' in self.get('extensions', {}):
        self.extensions['windows-process-ext']._check_at_least_one_property()"""

LEGAL_HASH_SRC = """if 'hashes' in self:
    if any((hash_ not in self._LEGAL_HASHES for hash_ in self['hashes'])):
        raise InvalidValueError(ExternalReference, 'hashes', 'Hash algorithm names must be members of hash-algorithm-ov')"""

PATTERN20_SRC = """errors = run_validator(self.get('pattern'), '2.0')
if errors:
    raise InvalidValueError(self.__class__, 'pattern', str(errors[0]))"""

PATTERN21_SRC = """if self.get('pattern_type') == 'stix':
    try:
        pat_ver = self.get('pattern_version')
    except AttributeError:
        pat_ver = '2.1'
    errors = run_validator(self.get('pattern'), pat_ver)
    if errors:
        raise InvalidValueError(self.__class__, 'pattern', str(errors[0]))"""


# the same two checks with the validator call guarded (a crash of the third-party validator is
# re-raised as InvalidValueError): same outcome class for every pattern the model's oracle decides
_GUARD = """try:
    errors = run_validator(self.get('pattern'), %s)
except Exception as exc:
    raise InvalidValueError(self.__class__, 'pattern', str(exc)) from exc"""
PATTERN20_SRC_GUARDED = PATTERN20_SRC.replace("errors = run_validator(self.get('pattern'), '2.0')", _GUARD % "'2.0'")
PATTERN21_SRC_GUARDED = PATTERN21_SRC.replace(
    "    errors = run_validator(self.get('pattern'), pat_ver)",
    "\n".join("    " + l for l in (_GUARD % "pat_ver").split("\n")))
assert PATTERN20_SRC_GUARDED != PATTERN20_SRC and PATTERN21_SRC_GUARDED != PATTERN21_SRC


def _strlist(e):
    if isinstance(e, (ast.List, ast.Tuple)) and all(isinstance(x, ast.Constant) and isinstance(x.value, str) for x in e.elts):
        return [x.value for x in e.elts]
    return None


def _self_get(e):
    """self.get('p') -> 'p'"""
    if isinstance(e, ast.Call) and isinstance(e.func, ast.Attribute) and e.func.attr == "get" \
            and isinstance(e.func.value, ast.Name) and e.func.value.id == "self" and len(e.args) == 1 \
            and not e.keywords and isinstance(e.args[0], ast.Constant) and isinstance(e.args[0].value, str):
        return e.args[0].value
    return None


class _Unknown(Exception):
    pass


def _prop_of(e, env):
    p = _self_get(e)
    if p is not None:
        return p
    if isinstance(e, ast.Name) and e.id in env:
        return env[e.id]
    if isinstance(e, ast.Attribute) and isinstance(e.value, ast.Name) and e.value.id == "self" \
            and not e.attr.startswith("_"):
        return e.attr          # self.is_family (property is required there; see dump)
    raise _Unknown()


def _cond(e, env):
    if isinstance(e, ast.BoolOp):
        ctor = "QAnd" if isinstance(e.op, ast.And) else "QOr"
        vals = [_cond(v, env) for v in e.values]
        out = vals[0]
        for v in vals[1:]:
            out = "(%s %s %s)" % (ctor, out, v)
        return out
    if isinstance(e, ast.UnaryOp) and isinstance(e.op, ast.Not):
        return "(QNot %s)" % _cond(e.operand, env)
    if isinstance(e, ast.Compare) and len(e.ops) == 1:
        op, l, r = e.ops[0], e.left, e.comparators[0]
        if isinstance(op, ast.Is) and isinstance(r, ast.Constant) and r.value is True:
            return "(QIsTrue %s)" % ustr(_prop_of(l, env))
        if isinstance(op, ast.IsNot) and isinstance(r, ast.Constant) and r.value is False:
            return "(QIsNotFalse %s)" % ustr(_prop_of(l, env))
        if isinstance(op, ast.IsNot) and isinstance(r, ast.Constant) and r.value is None:
            return "(QIsNotNone %s)" % ustr(_prop_of(l, env))
        if isinstance(op, ast.In) and isinstance(l, ast.Constant) and isinstance(l.value, str) \
                and isinstance(r, ast.Name) and r.id == "self":
            return "(QHas %s)" % ustr(l.value)
        if isinstance(op, ast.NotIn) and isinstance(l, ast.Constant) and isinstance(l.value, str) \
                and isinstance(r, ast.Name) and r.id == "self":
            return "(QNot (QHas %s))" % ustr(l.value)
        if isinstance(op, (ast.Lt, ast.LtE)):
            return "(%s %s %s)" % ("QLt" if isinstance(op, ast.Lt) else "QLe", ustr(_prop_of(l, env)), ustr(_prop_of(r, env)))
        raise _Unknown()
    return "(QTruthy %s)" % ustr(_prop_of(e, env))


def _raise_class(s):
    if isinstance(s, ast.Raise) and s.exc is not None:
        f = s.exc.func if isinstance(s.exc, ast.Call) else s.exc
        if isinstance(f, ast.Name) and f.id in ERR:
            return ERR[f.id]
    raise _Unknown()


def _self_call(s, name):
    if isinstance(s, ast.Expr) and isinstance(s.value, ast.Call) and isinstance(s.value.func, ast.Attribute) \
            and s.value.func.attr == name and isinstance(s.value.func.value, ast.Name) and s.value.func.value.id == "self":
        return s.value
    return None


def _stmts(stmts, env):
    out = []
    i = 0
    while i < len(stmts):
        s = stmts[i]
        rest_src = "\n".join(ast.unparse(x) for x in stmts[i:])
        # special blocks recognised by exact normalised text
        matched = False
        for src, term, n in ((SOCKET_SRC, "CSocketOptions", 2), (SOCKET_SRC_INT, "CSocketOptions", 2), (SOCKET_SRC_INT2, "CSocketOptions", 2), (PROCESS_SRC, "CProcessExt", 1),
                             (LEGAL_HASH_SRC, None, 1), (PATTERN20_SRC, "(CPatternValidator V20)", 2),
                             (PATTERN21_SRC, "(CPatternValidator V21)", 1),
                             (PATTERN20_SRC_GUARDED, "(CPatternValidator V20)", 2),
                             (PATTERN21_SRC_GUARDED, "(CPatternValidator V21)", 1)):
            blk = "\n".join(ast.unparse(x) for x in stmts[i:i + n])
            if blk == src:
                out.append(term if term else "LEGAL_HASHES_PLACEHOLDER")
                i += n
                matched = True
                break
        if matched:
            continue
        try:
            # super()._check_object_constraints()
            if isinstance(s, ast.Expr) and isinstance(s.value, ast.Call) and isinstance(s.value.func, ast.Attribute) \
                    and s.value.func.attr == "_check_object_constraints" and isinstance(s.value.func.value, ast.Call) \
                    and isinstance(s.value.func.value.func, ast.Name) and s.value.func.value.func.id == "super":
                i += 1
                continue
            c = _self_call(s, "_check_at_least_one_property")
            if c is not None:
                if not c.args and not c.keywords:
                    out.append("CAtLeastOneDefault")
                elif len(c.args) == 1 and not c.keywords and _strlist(c.args[0]) is not None:
                    out.append("(CAtLeastOne %s)" % ulist(_strlist(c.args[0])))
                elif len(c.args) == 1 and isinstance(c.args[0], ast.Name) and c.args[0].id in env.get("__lists__", {}):
                    out.append("(CAtLeastOne %s)" % ulist(env["__lists__"][c.args[0].id]))
                else:
                    raise _Unknown()
                i += 1
                continue
            c = _self_call(s, "_check_mutually_exclusive_properties")
            if c is not None:
                if len(c.args) == 1 and not c.keywords and _strlist(c.args[0]) is not None:
                    out.append("(CMutEx %s)" % ulist(_strlist(c.args[0])))
                    i += 1
                    continue
                raise _Unknown()
            c = _self_call(s, "_check_properties_dependency")
            if c is not None:
                if len(c.args) == 2 and not c.keywords and _strlist(c.args[0]) is not None and _strlist(c.args[1]) is not None:
                    out.append("(CDepends %s %s)" % (ulist(_strlist(c.args[0])), ulist(_strlist(c.args[1]))))
                    i += 1
                    continue
                raise _Unknown()
            # check_tlp_marking(self, 'V')
            if isinstance(s, ast.Expr) and isinstance(s.value, ast.Call) and isinstance(s.value.func, ast.Name) \
                    and s.value.func.id == "check_tlp_marking" and len(s.value.args) == 2 \
                    and isinstance(s.value.args[0], ast.Name) and s.value.args[0].id == "self" \
                    and isinstance(s.value.args[1], ast.Constant) and s.value.args[1].value in ("2.0", "2.1"):
                out.append("(CTlp %s)" % verlit(s.value.args[1].value))
                i += 1
                continue
            # x = self.get('p')   |   names = ['a', 'b']
            if isinstance(s, ast.Assign) and len(s.targets) == 1 and isinstance(s.targets[0], ast.Name):
                p = _self_get(s.value)
                if p is not None:
                    env[s.targets[0].id] = p
                    i += 1
                    continue
                l = _strlist(s.value)
                if l is not None:
                    env.setdefault("__lists__", {})[s.targets[0].id] = l
                    i += 1
                    continue
                # msg = "..." inside a raising branch
                if isinstance(s.value, ast.Constant) and isinstance(s.value.value, str):
                    i += 1
                    continue
                raise _Unknown()
            if isinstance(s, ast.If) and not s.orelse:
                body = [b for b in s.body if not (isinstance(b, ast.Assign) and isinstance(b.value, ast.Constant))]
                if len(body) == 1 and isinstance(body[0], ast.Raise):
                    out.append("(CRaiseIf %s %s)" % (_cond(s.test, env), _raise_class(body[0])))
                else:
                    out.append("(CWhen %s %s)" % (_cond(s.test, env), lst(_stmts(s.body, dict(env)))))
                i += 1
                continue
            raise _Unknown()
        except _Unknown:
            out.append("(COpaque %s)" % ustr(ast.unparse(s)))
            i += 1
    return out


def parse_constraints(src, legal_hashes=None):
    if src is None:
        return []
    head, _, body = src.partition("\n")
    if head != "(self)":
        return ["(COpaque %s)" % ustr(src)]
    stmts = ast.parse(body).body
    out = _stmts(stmts, {})
    # the base method validates granular-marking selectors; an override that never calls it skips that
    calls_super = any(isinstance(n, ast.Attribute) and n.attr == "_check_object_constraints"
                      and isinstance(n.value, ast.Call) and isinstance(n.value.func, ast.Name) and n.value.func.id == "super"
                      for n in ast.walk(ast.parse(body)))
    if not calls_super:
        out = ["CSkipBaseCheck"] + out
    return [("(CLegalHashes %s)" % ulist(legal_hashes or [])) if x == "LEGAL_HASHES_PLACEHOLDER" else x for x in out]


# ---- the part of _check_object_constraints every class inherits (_STIXBase): granular-marking selectors
# are validated by the model's construct_generic (granular_check); anything after that part is translated
# like a class's own constraints and prepended to the classes it applies to.  Recognised by normalised text.
BASE_SRC_ORIG = """(self)
for m in self.get('granular_markings', []):
    validate(self, m.get('selectors'))"""
BASE_SRC = """(self)
granular_markings = self.get('granular_markings', [])
if 'granular_markings' not in self._properties and (not isinstance(granular_markings, list) or not all((isinstance(m, collections.abc.Mapping) for m in granular_markings))):
    raise InvalidValueError(self.__class__, 'granular_markings', 'must be a list of granular markings')
for m in granular_markings:
    validate(self, m.get('selectors'))"""
# proposed fix C02-modified-before-created: the common-property rule created <= modified on every class that
# has both properties and is not an observable (2.0 file / directory carry file-system times of those names)
BASE_VERSIONED_GUARD = "'created' in self._properties and 'modified' in self._properties and (not isinstance(self, _Observable))"


def base_extra(src):
    """None: no base text in the tables (the frozen spec).  Else a list of (applies(class dict) -> bool, [terms])."""
    if src is None:
        return []
    for head in (BASE_SRC, BASE_SRC_ORIG):
        if src == head:
            return []
        if src.startswith(head + "\n"):
            try:
                tail = ast.parse(src[len(head) + 1:]).body
            except SyntaxError:
                break
            if len(tail) == 1 and isinstance(tail[0], ast.If) and not tail[0].orelse \
                    and ast.unparse(tail[0].test) == BASE_VERSIONED_GUARD:
                cons = _stmts(tail[0].body, {})
                if cons and not any(c.startswith("(COpaque") for c in cons):
                    return [(versioned_class, cons)]
            break
    return [(lambda c: True, ["(COpaque %s)" % ustr("base _check_object_constraints: " + src)])]


def versioned_class(c):
    names = {s["name"] for s in c["slots"]}
    return "created" in names and "modified" in names and c["family"] != "sco"


INIT_FORMS = {
    # normalised source -> preinit term
    "(self, source_ref=None, relationship_type=None, target_ref=None, **kwargs)\n"
    "if source_ref and (not kwargs.get('source_ref')):\n    kwargs['source_ref'] = source_ref\n"
    "if relationship_type and (not kwargs.get('relationship_type')):\n    kwargs['relationship_type'] = relationship_type\n"
    "if target_ref and (not kwargs.get('target_ref')):\n    kwargs['target_ref'] = target_ref\n"
    "super(Relationship, self).__init__(**kwargs)":
        "(IPositional %s)" % ulist(["source_ref", "relationship_type", "target_ref"]),
    "(self, sighting_of_ref=None, **kwargs)\n"
    "if sighting_of_ref and (not kwargs.get('sighting_of_ref')):\n    kwargs['sighting_of_ref'] = sighting_of_ref\n"
    "super(Sighting, self).__init__(**kwargs)":
        "(IPositional %s)" % ulist(["sighting_of_ref"]),
    "(self, statement=None, **kwargs)\n"
    "if statement and (not kwargs.get('statement')):\n    kwargs['statement'] = statement\n"
    "super(StatementMarking, self).__init__(**kwargs)":
        "(IPositional %s)" % ulist(["statement"]),
    "(self, *args, **kwargs)\n"
    "if kwargs.get('pattern') and kwargs.get('pattern_type') == 'stix' and (not kwargs.get('pattern_version')):\n"
    "    kwargs['pattern_version'] = '2.1'\nsuper(Indicator, self).__init__(*args, **kwargs)":
        "IIndicatorPatternVersion",
    "(self, *args, **kwargs)\n"
    "if args:\n    obj_list = []\n    for arg in args:\n        if isinstance(arg, list):\n            obj_list = obj_list + arg\n"
    "        else:\n            obj_list.append(arg)\n    kwargs['objects'] = obj_list + kwargs.get('objects', [])\n"
    "super(Bundle, self).__init__(**kwargs)":
        "IBundleObjects",
    "(self, *args, **kwargs)\n"
    "if 'objects' in kwargs:\n"
    "    warnings.warn(\"The 'objects' property of observed-data is deprecated in STIX 2.1.\", STIXDeprecationWarning)\n"
    "super(ObservedData, self).__init__(*args, **kwargs)":
        "IObservedDataWarn",
    "(self, **kwargs)\n"
    "if {'definition_type', 'definition'}.issubset(kwargs.keys()):\n    try:\n"
    "        marking_type = OBJ_MAP_MARKING[kwargs['definition_type']]\n    except KeyError:\n"
    "        raise ValueError('definition_type must be a valid marking type')\n"
    "    if not isinstance(kwargs['definition'], marking_type):\n        defn = _get_dict(kwargs['definition'])\n"
    "        kwargs['definition'] = marking_type(**defn)\nsuper(MarkingDefinition, self).__init__(**kwargs)":
        "(IMarkingDefinition V21)",
    "(self, **kwargs)\n"
    "if {'definition_type', 'definition'}.issubset(kwargs.keys()):\n    try:\n"
    "        marking_type = OBJ_MAP_MARKING[kwargs['definition_type']]\n    except KeyError:\n"
    "        raise ValueError('definition_type must be a valid marking type')\n"
    "    if 'created' in kwargs:\n        if _should_set_millisecond(kwargs['created'], marking_type):\n"
    "            self._properties = copy.deepcopy(self._properties)\n"
    "            self._properties.update([('created', TimestampProperty(default=lambda: NOW, precision='millisecond'))])\n"
    "    if not isinstance(kwargs['definition'], marking_type):\n        defn = _get_dict(kwargs['definition'])\n"
    "        kwargs['definition'] = marking_type(**defn)\nsuper(MarkingDefinition, self).__init__(**kwargs)":
        "(IMarkingDefinition V20)",
}

# v20 MarkingDefinition with the clock default kept at millisecond precision too (fix 32a0bd4): same form,
# the difference is detected at run time (variant vr_md20_default_ms)
for _src, _term in list(INIT_FORMS.items()):
    if _term == "(IMarkingDefinition V20)":
        _fixed = _src.replace("    if 'created' in kwargs:\n        if _should_set_millisecond(kwargs['created'], marking_type):\n"
                              "            self._properties = copy.deepcopy(self._properties)\n"
                              "            self._properties.update([('created', TimestampProperty(default=lambda: NOW, precision='millisecond'))])\n",
                              "    if 'created' not in kwargs or _should_set_millisecond(kwargs['created'], marking_type):\n"
                              "        self._properties = copy.deepcopy(self._properties)\n"
                              "        self._properties.update([('created', TimestampProperty(default=lambda: NOW, precision='millisecond'))])\n")
        assert _fixed != _src
        INIT_FORMS[_fixed] = _term

# the same three forms with `x is not None and kwargs.get('x') is None` in place of the truthiness tests
# (proposed fix C03-positional-argument-falsy-value-dropped); which one the code matches is detected at run
# time (variant vr_positional_none)
for _src, _term in list(INIT_FORMS.items()):
    if _term.startswith("(IPositional"):
        _fixed = _src
        for _n in ("source_ref", "relationship_type", "target_ref", "sighting_of_ref", "statement"):
            _fixed = _fixed.replace("if %s and (not kwargs.get('%s')):" % (_n, _n),
                                    "if %s is not None and kwargs.get('%s') is None:" % (_n, _n))
        assert _fixed != _src
        INIT_FORMS[_fixed] = _term

SERIALIZE_TLP = ("(self, pretty=False, include_optional_defaults=False, **kwargs)\ncheck_tlp_marking(self, '%s')\n"
                 "return super(MarkingDefinition, self).serialize(pretty, include_optional_defaults, **kwargs)")


def preinit(src):
    if src is None:
        return "INone"
    return INIT_FORMS.get(src, "(IOpaque %s)" % ustr(src))


FAMILY = {"sdo": "FSdo", "sro": "FSro", "sco": "FSco", "ext": "FExt", "other": "FOther"}


def emit_class(cid, c, inherited=()):
    slots = []
    for s in c["slots"]:
        slots.append("{| sname := %s; skind := %s; sreq := %s; sdef := %s |}" % (
            ustr(s["name"]), kind(s["kind"]), "true" if s["required"] else "false", dflt(s["default"])))
    cons = parse_constraints(c.get("constraints_src"), c.get("legal_hashes"))
    if "CSkipBaseCheck" not in cons:
        # the inherited part runs where the override calls super(): first
        for applies, terms in inherited:
            if applies(c):
                cons = list(terms) + cons
    # constraints stated by an audited override of the frozen specification tables
    cons = list(c.get("extra_constraints", [])) + cons
    ser = c.get("serialize_src")
    if ser is None:
        ser_tlp = "false"
    elif ser == SERIALIZE_TLP % c["ver"]:
        ser_tlp = "true"
    else:
        cons = cons + ["(COpaque %s)" % ustr("serialize: " + ser)]
        ser_tlp = "false"
    if c.get("other_attrs"):
        # extra methods are listed in the dump; they do not take part in construction unless named below
        pass
    return ("{| cid := %s; cver := %s; ctype := %s; cfamily := %s;\n     cslots := [\n       %s ];\n"
            "     ccons := %s;\n     cinit := %s;\n     cidcontrib := %s; cserialize_tlp := %s |}" % (
                ustr(cid), verlit(c["ver"]), opt(None if c["type"] is None else ustr(c["type"])), FAMILY[c["family"]],
                ";\n       ".join(slots), lst(cons), preinit(c.get("init_src")), ulist(c["id_contrib"]), ser_tlp))


def emit_registry(r):
    def m(d):
        return lst(["(%s, %s)" % (ustr(k), ustr(v)) for k, v in d.items()])
    return "{| robjects := %s;\n     robservables := %s;\n     rextensions := %s;\n     rmarkings := %s |}" % (
        m(r["objects"]), m(r["observables"]), m(r["extensions"]), m(r["markings"]))


def emit(tables, name, comment):
    out = ["(* GENERATED by translators/tr_tables.py -- %s -- do not edit *)" % comment,
           "From Coq Require Import NArith ZArith List String Bool.",
           "From V Require Import Base.UString Base.Json Model.SchemaTypes.",
           "Import ListNotations.", "Open Scope string_scope.", ""]
    names = []
    inherited = base_extra(tables.get("base_constraints_src"))
    for i, (cid, c) in enumerate(tables["classes"].items()):
        n = "%s_c%d" % (name, i)
        names.append(n)
        out.append("Definition %s : cls :=\n  %s.\n" % (n, emit_class(cid, c, inherited)))
    out.append("Definition %s_classes : list cls :=\n  %s.\n" % (name, lst(names)))
    out.append("Definition %s_raw : world :=\n  {| wclasses := %s_classes;\n     wreg20 := %s;\n     wreg21 := %s;\n"
               "     wtlp20 := %s;\n     wtlp21 := %s |}.\n" % (
                   name, name, emit_registry(tables["registries"]["2.0"]), emit_registry(tables["registries"]["2.1"]),
                   lst([jlit(v) for v in tables["tlp"]["2.0"].values()]),
                   lst([jlit(v) for v in tables["tlp"]["2.1"].values()])))
    out.append("(* string literals decoded once, at compile time *)")
    out.append("Definition %s : world := Eval vm_compute in %s_raw.\n" % (name, name))
    return "\n".join(out)


def load_spec(verif_dir):
    """The FROZEN specification tables: spec/stix_tables.json (seeded from the pinned tree, same
    JSON shape as dump()) with spec/audited_overrides.json applied on top (entries certain from
    the normative text)."""
    import copy
    t = json.load(open(os.path.join(verif_dir, "spec", "stix_tables.json")))
    ov = json.load(open(os.path.join(verif_dir, "spec", "audited_overrides.json")))
    t.pop("base_constraints_src", None)
    for o in ov:
        m = o["match"]
        hit = 0
        for cid, c in t["classes"].items():
            if "ver" in m and c["ver"] != m["ver"]:
                continue
            if "class" in m and cid != m["class"]:
                continue
            if "add_constraint" in o:
                # a co-constraint the normative text states, as a term of SchemaTypes.constr, on every class
                # that has all the named properties (and is not of an excluded family)
                names = {sl["name"] for sl in c["slots"]}
                if set(m["slots"]) <= names and c["family"] not in m.get("family_not", []):
                    c.setdefault("extra_constraints", []).append(o["add_constraint"])
                    hit += 1
                continue
            for sl in c["slots"]:
                if sl["name"] == m["slot"]:
                    sl.update(copy.deepcopy(o["set"]))
                    hit += 1
        if not hit:
            raise TranslateError("audited override matches nothing: %r" % (m,))
    return t


def emit_spec(verif_dir):
    return emit(load_spec(verif_dir), "spec", "FROZEN specification tables of /verif/spec (not read from /repo)")


if __name__ == "__main__":
    t = dump(sys.argv[1] if len(sys.argv) > 1 else "/repo")
    sys.stdout.write(emit(t, "lib", "live tables"))

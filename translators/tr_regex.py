"""tr_regex -- emit into Gen/Regexes.v what property C19 reads from the source:

* the TEXTS of the name-grammar regexes (`TYPE_REGEX`, `TYPE_21_REGEX` in
  stix2/properties.py, `PREFIX_21_REGEX` in stix2/utils.py, and -- when a
  module-level `PROPERTY_NAME_REGEX` / `EXTENSION_DEFINITION_ID_REGEX` exists in
  stix2/registration.py -- those too), read from the `ast` of the `re.compile(<string literal>)` calls;
* the shape of `properties._validate_type`: which regex constant the "2.0"
  branch and the else branch match against, and the two length bounds;
* `version.DEFAULT_VERSION`;
* the built-in registries (version x category x type name -> class), read from
  the live `stix2.registry.STIX2_OBJ_MAPS` of the tree (a sub-interpreter with
  PYTHONPATH=<repo>; the four maps are what `_collect_stix2_mappings` builds).

Fail closed: anything that does not have exactly the expected form raises
TranslateError and nothing is written.  Props/C19.v holds the equality
obligations between these texts and the texts the hand-written recognisers of
Model/Registry.v were proved for.
"""
import ast
import json
import os
import subprocess
import sys


class TranslateError(Exception):
    pass


def coq_string(s):
    for ch in s:
        if ord(ch) < 32 or ord(ch) > 126:
            raise TranslateError("non-printable character in %r" % s)
    return '"' + s.replace('"', '""') + '"'


def _module(repo, rel):
    with open(os.path.join(repo, rel), encoding="utf-8") as f:
        return ast.parse(f.read())


def _compiled_regex_text(tree, name, rel, required=True):
    """NAME = re.compile(<str literal>) at module level, exactly once, no flags."""
    found = []
    for node in tree.body:
        targets = []
        if isinstance(node, ast.Assign):
            targets = [t.id for t in node.targets if isinstance(t, ast.Name)]
            value = node.value
        elif isinstance(node, ast.AnnAssign) and isinstance(node.target, ast.Name):
            targets = [node.target.id]
            value = node.value
        if name in targets:
            found.append(value)
    # any other rebinding (augmented assignment, del, global in functions) is not looked for: a
    # module that does so still changes behaviour, which the correspondence run sees.
    if not found:
        if required:
            raise TranslateError("%s: no module-level assignment of %s" % (rel, name))
        return None
    if len(found) != 1:
        raise TranslateError("%s: %s assigned %d times" % (rel, name, len(found)))
    v = found[0]
    if not (isinstance(v, ast.Call) and isinstance(v.func, ast.Attribute) and v.func.attr == "compile"
            and isinstance(v.func.value, ast.Name) and v.func.value.id == "re"
            and len(v.args) == 1 and not v.keywords
            and isinstance(v.args[0], ast.Constant) and type(v.args[0].value) is str):
        raise TranslateError("%s: %s is not re.compile(<string literal>) without flags: %s"
                             % (rel, name, ast.unparse(v)))
    return v.args[0].value


def _is_raise_value_error(stmts):
    if len(stmts) != 1 or not isinstance(stmts[0], ast.Raise):
        return False
    exc = stmts[0].exc
    if isinstance(exc, ast.Call):
        exc = exc.func
    return isinstance(exc, ast.Name) and exc.id == "ValueError"


def _not_match(test, param):
    """`not re.match(NAME, <param>)` -> NAME"""
    if not (isinstance(test, ast.UnaryOp) and isinstance(test.op, ast.Not)):
        return None
    c = test.operand
    if (isinstance(c, ast.Call) and isinstance(c.func, ast.Attribute) and c.func.attr == "match"
            and isinstance(c.func.value, ast.Name) and c.func.value.id == "re"
            and len(c.args) == 2 and not c.keywords
            and isinstance(c.args[0], ast.Name) and isinstance(c.args[1], ast.Name) and c.args[1].id == param):
        return c.args[0].id
    return None


def _len_cmp(e, param, op_type):
    """len(<param>) <op> <int literal> -> literal"""
    if (isinstance(e, ast.Compare) and len(e.ops) == 1 and isinstance(e.ops[0], op_type)
            and isinstance(e.left, ast.Call) and isinstance(e.left.func, ast.Name) and e.left.func.id == "len"
            and len(e.left.args) == 1 and isinstance(e.left.args[0], ast.Name) and e.left.args[0].id == param
            and isinstance(e.comparators[0], ast.Constant) and type(e.comparators[0].value) is int):
        return e.comparators[0].value
    return None


def validate_type_shape(tree):
    fns = [n for n in tree.body if isinstance(n, ast.FunctionDef) and n.name == "_validate_type"]
    if len(fns) != 1:
        raise TranslateError("properties.py: expected exactly one _validate_type")
    fn = fns[0]
    if [a.arg for a in fn.args.args] != ["type_", "spec_version"] or fn.args.defaults or fn.args.vararg or fn.args.kwarg \
            or fn.decorator_list:
        raise TranslateError("_validate_type: unexpected signature")
    body = [s for s in fn.body if not (isinstance(s, ast.Expr) and isinstance(s.value, ast.Constant))]
    if len(body) != 2 or not all(isinstance(s, ast.If) for s in body):
        raise TranslateError("_validate_type: body is not `if version-branch` followed by `if length`")
    vb, lb = body
    t = vb.test
    if not (isinstance(t, ast.Compare) and len(t.ops) == 1 and isinstance(t.ops[0], ast.Eq)
            and isinstance(t.left, ast.Name) and t.left.id == "spec_version"
            and isinstance(t.comparators[0], ast.Constant) and t.comparators[0].value == "2.0"):
        raise TranslateError("_validate_type: first test is not spec_version == \"2.0\": %s" % ast.unparse(t))

    def branch(stmts):
        if len(stmts) != 1 or not isinstance(stmts[0], ast.If) or stmts[0].orelse:
            raise TranslateError("_validate_type: version branch is not a single `if not re.match(...)`")
        name = _not_match(stmts[0].test, "type_")
        if name is None or not _is_raise_value_error(stmts[0].body):
            raise TranslateError("_validate_type: unsupported branch: %s" % ast.unparse(stmts[0]).split("\n")[0])
        return name

    r20, relse = branch(vb.body), branch(vb.orelse)
    lt = lb.test
    if not (isinstance(lt, ast.BoolOp) and isinstance(lt.op, ast.Or) and len(lt.values) == 2) or lb.orelse \
            or not _is_raise_value_error(lb.body):
        raise TranslateError("_validate_type: length test has an unexpected form: %s" % ast.unparse(lt))
    lo, hi = _len_cmp(lt.values[0], "type_", ast.Lt), _len_cmp(lt.values[1], "type_", ast.Gt)
    if lo is None or hi is None:
        raise TranslateError("_validate_type: length test is not `len(type_) < A or len(type_) > B`: %s" % ast.unparse(lt))
    return r20, relse, lo, hi


def default_version(tree):
    vals = [n.value for n in tree.body if isinstance(n, ast.Assign)
            and any(isinstance(t, ast.Name) and t.id == "DEFAULT_VERSION" for t in n.targets)]
    if len(vals) != 1 or not (isinstance(vals[0], ast.Constant) and type(vals[0].value) is str):
        raise TranslateError("version.py: DEFAULT_VERSION is not a single string literal")
    return vals[0].value


_DUMP = r"""
import json, sys
import stix2
from stix2 import registry
out = []
for ver in sorted(registry.STIX2_OBJ_MAPS):
    cats = registry.STIX2_OBJ_MAPS[ver]
    for cat in cats:
        for name, cls in cats[cat].items():
            out.append([ver, cat, name, cls.__module__ + "." + cls.__name__])
json.dump(out, sys.stdout)
"""

CATS = ["objects", "observables", "markings", "extensions"]


def builtin_registry(repo):
    env = dict(os.environ)
    env["PYTHONPATH"] = repo
    env["PYTHONHASHSEED"] = "0"
    env["PYTHONDONTWRITEBYTECODE"] = "1"
    py = os.environ.get("VERIF_PY", "/venv/bin/python")
    p = subprocess.run([py, "-c", _DUMP], env=env, stdout=subprocess.PIPE, stderr=subprocess.PIPE, text=True,
                       timeout=300, cwd="/")
    if p.returncode != 0:
        raise TranslateError("cannot import stix2 from %s: %s" % (repo, p.stderr[-800:]))
    rows = json.loads(p.stdout)
    vers = sorted({r[0] for r in rows})
    if vers != ["2.0", "2.1"]:
        raise TranslateError("STIX2_OBJ_MAPS has versions %s, the model knows 2.0 and 2.1" % vers)
    for r in rows:
        if r[1] not in CATS:
            raise TranslateError("unknown registry category %r" % r[1])
        if not all(isinstance(x, str) for x in r):
            raise TranslateError("non-string registry entry %r" % (r,))
    return rows


def translate(repo, out_path=None):
    props = _module(repo, "stix2/properties.py")
    utils = _module(repo, "stix2/utils.py")
    regn = _module(repo, "stix2/registration.py")
    vers = _module(repo, "stix2/version.py")
    t20 = _compiled_regex_text(props, "TYPE_REGEX", "stix2/properties.py")
    t21 = _compiled_regex_text(props, "TYPE_21_REGEX", "stix2/properties.py")
    pfx = _compiled_regex_text(utils, "PREFIX_21_REGEX", "stix2/utils.py")
    pname = _compiled_regex_text(regn, "PROPERTY_NAME_REGEX", "stix2/registration.py", required=False)
    extid = _compiled_regex_text(regn, "EXTENSION_DEFINITION_ID_REGEX", "stix2/registration.py", required=False)
    r20, relse, lo, hi = validate_type_shape(props)
    dv = default_version(vers)
    rows = builtin_registry(repo)
    if lo < 0 or hi < 0 or hi > 100000:
        raise TranslateError("length bounds out of the range the model represents: %d, %d" % (lo, hi))
    out = ["(* GENERATED by translators/tr_regex.py from stix2/properties.py, stix2/utils.py,",
           "   stix2/registration.py, stix2/version.py and the live stix2.registry -- do not edit *)",
           "From Coq Require Import List String.",
           "Import ListNotations.",
           "Open Scope string_scope.",
           "",
           "Definition TYPE_REGEX_text : string := %s." % coq_string(t20),
           "Definition TYPE_21_REGEX_text : string := %s." % coq_string(t21),
           "Definition PREFIX_21_REGEX_text : string := %s." % coq_string(pfx),
           "Definition PROPERTY_NAME_REGEX_text : option string := %s."
           % ("None" if pname is None else "Some %s" % coq_string(pname)),
           "Definition EXTENSION_DEFINITION_ID_REGEX_text : option string := %s."
           % ("None" if extid is None else "Some %s" % coq_string(extid)),
           "",
           "(* _validate_type: `if spec_version == \"2.0\": re.match(<vt_regex_20>) else: re.match(<vt_regex_else>)`,",
           "   then `len(type_) < vt_len_min or len(type_) > vt_len_max` raises *)",
           "Definition vt_regex_20 : string := %s." % coq_string(r20),
           "Definition vt_regex_else : string := %s." % coq_string(relse),
           "Definition vt_len_min : nat := %d." % lo,
           "Definition vt_len_max : nat := %d." % hi,
           "",
           "Definition DEFAULT_VERSION_text : string := %s." % coq_string(dv),
           "",
           "(* (version, category, type name, class) in the order Python iterates the maps *)",
           "Definition builtin_rows : list (string * string * string * string) :=",
           "  [ " + ";\n    ".join("(%s, %s, %s, %s)" % tuple(coq_string(x) for x in r) for r in rows) + " ].",
           ""]
    text = "\n".join(out)
    if out_path:
        with open(out_path, "w", encoding="utf-8") as f:
            f.write(text)
    return text, {"rows": rows, "t20": t20, "t21": t21, "pfx": pfx, "pname": pname, "extid": extid,
                  "shape": [r20, relse, lo, hi], "default_version": dv}


if __name__ == "__main__":
    text, _ = translate(sys.argv[1] if len(sys.argv) > 1 else "/repo")
    sys.stdout.write(text)

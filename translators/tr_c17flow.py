"""C17: inventory of the operations in the functions the exception-flow model (coq/Model/Errors.v) mirrors.

The hand model is closed-world: a non-family exception can only come from one of its enumerated sites.  This
translator ties that list to the SOURCE: it walks the AST of every mirrored function of the repository under check
and lists every subscript load, every attribute access / method call whose receiver is not a module, `self`
attribute or builtin, every call of a plain name, every call into a third-party module and every `raise`, each with
the exception classes caught by the enclosing `try` blocks.  Every occurrence must be

  * covered by an automatic rule (family raise, exception constructor, type-test builtins, attributes of `self`), or
  * matched by an entry of the REVIEWED table below, which says why the operation cannot let a non-family class out
    on arbitrary JSON-decodable input (`own`: the receiver is an object the library built; `typed`: the receiver was
    type-checked, with the guard text that must be present in the function; `family`: can only raise
    TypeError/ValueError; `wrapped`: inside a try whose handlers are required), or
  * be the operation of one of the model's sites, in its guarded or its unguarded form.

Anything else -- new code that indexes raw input, a removed handler, a removed guard -- makes the inventory
incomplete: `source_inventory_reviewed = false` in the generated file and the obligation
`source_flow_inventory_closed` (Props/C17.v) fails.  The same walk decides, site by site, whether the source has the
guarded form (`source_variant`), which Props/C17.v uses for `current_source_family_only`.

Trusted: the reviewed table (each entry's justification was read against the code by hand); what is machine-checked
on every run is its COMPLETENESS for the current source."""
import ast
import builtins
import os
import re

FUNCS = [
    ("stix2/parsing.py", "parse"), ("stix2/parsing.py", "dict_to_stix2"), ("stix2/parsing.py", "_refuse_unrequested_custom"),
    ("stix2/parsing.py", "parse_observable"),
    ("stix2/utils.py", "_get_dict"), ("stix2/utils.py", "detect_spec_version"),
    ("stix2/registry.py", "class_for_type"),
    ("stix2/base.py", "_STIXBase._check_property"), ("stix2/base.py", "_STIXBase._check_object_constraints"),
    ("stix2/base.py", "_STIXBase.__init__"), ("stix2/base.py", "_Observable.__init__"), ("stix2/base.py", "_Observable._check_ref"),
    ("stix2/base.py", "_Observable._check_property"),
    ("stix2/v21/base.py", "_Observable.__init__"),
    ("stix2/markings/utils.py", "check_tlp_marking"),
    ("stix2/v20/common.py", "_should_set_millisecond"), ("stix2/v20/common.py", "MarkingDefinition.__init__"),
    ("stix2/v21/common.py", "MarkingDefinition.__init__"),
    ("stix2/v20/sdo.py", "Indicator._check_object_constraints"), ("stix2/v21/sdo.py", "Indicator._check_object_constraints"),
]

THIRD_PARTY = {"json", "copy", "uuid", "re", "itertools", "collections", "warnings"}

FAMILY = {"ParseError", "ValueError", "TypeError", "InvalidValueError", "ExtraPropertiesError", "MissingPropertiesError",
          "STIXError", "CustomContentError", "InvalidObjRefError", "TLPMarkingDefinitionError", "PropertyPresenceError",
          "AtLeastOnePropertyError", "MutuallyExclusivePropertiesError", "DependentPropertiesError", "InvalidSelectorError",
          "exceptions.TLPMarkingDefinitionError"}
SAFE_CALLS = {"isinstance", "hasattr", "set", "sorted", "any", "all", "bool", "type", "getattr", "iter", "len", "list", "tuple",
              "super"}


class FlowError(Exception):
    pass


def find(tree, qn):
    body = tree.body
    node = None
    for p in qn.split("."):
        try:
            node = next(n for n in body if isinstance(n, (ast.FunctionDef, ast.ClassDef)) and n.name == p)
        except StopIteration:
            raise FlowError("function %s not found" % qn)
        body = node.body
    return node


def module_names(tree):
    out = set()
    for n in tree.body:
        if isinstance(n, ast.Import):
            for a in n.names:
                out.add((a.asname or a.name).split(".")[0])
        elif isinstance(n, ast.ImportFrom):
            for a in n.names:
                out.add(a.asname or a.name)
        elif isinstance(n, (ast.FunctionDef, ast.ClassDef)):
            out.add(n.name)
        elif isinstance(n, ast.Assign):
            for t in n.targets:
                if isinstance(t, ast.Name):
                    out.add(t.id)
    return out


def root(e):
    while isinstance(e, (ast.Attribute, ast.Subscript, ast.Call)):
        e = e.func if isinstance(e, ast.Call) else e.value
    return e.id if isinstance(e, ast.Name) else None


def handlers_of(fn):
    out = {}

    def walk(n, hs):
        out[id(n)] = hs
        if isinstance(n, ast.Try):
            names = []
            for h in n.handlers:
                t = h.type
                if t is None:
                    names.append("*")
                elif isinstance(t, ast.Tuple):
                    names += [ast.unparse(x) for x in t.elts]
                else:
                    names.append(ast.unparse(t))
            for b in n.body:
                walk(b, hs + tuple(names))
            for h in n.handlers:
                for b in h.body:
                    walk(b, hs)
            for b in n.orelse + n.finalbody:
                walk(b, hs)
            return
        for c in ast.iter_child_nodes(n):
            walk(c, hs)

    walk(fn, ())
    return out


def scan(repo):
    """[(function key, kind, text, handlers)], {function key: unparsed source}"""
    occ, src = [], {}
    for path, qn in FUNCS:
        tree = ast.parse(open(os.path.join(repo, path), encoding="utf-8").read())
        mods = module_names(tree)
        fn = find(tree, qn)
        hs = handlers_of(fn)
        key = path[len("stix2/"):-3].replace("/", ".") + "." + qn
        src[key] = ast.unparse(fn)
        for n in ast.walk(fn):
            kind = text = None
            if isinstance(n, ast.Subscript) and isinstance(n.ctx, ast.Load):
                kind, text = "subscript", ast.unparse(n)
            elif isinstance(n, ast.Attribute) and isinstance(n.ctx, ast.Load):
                r = root(n)
                if r in THIRD_PARTY:
                    kind, text = "extcall", ast.unparse(n)
                elif r in mods or r in dir(builtins):
                    continue
                else:
                    kind, text = "attr", ast.unparse(n)
            elif isinstance(n, ast.Call) and not isinstance(n.func, ast.Attribute):
                kind, text = "call", ast.unparse(n.func) + "(...)"
            elif isinstance(n, ast.Raise):
                e = n.exc
                kind = "raise"
                text = "raise " + (ast.unparse(e.func) if isinstance(e, ast.Call) else ast.unparse(e) if e else "")
            if kind:
                occ.append((key, kind, text[:120], hs.get(id(n), ())))
    return occ, src


def auto(o):
    key, kind, text, hs = o
    if kind == "raise":
        n = text[6:].strip()
        return "family-raise" if (n in FAMILY or n == "") else None
    if kind == "call":
        f = text[:-5]
        if f in SAFE_CALLS:
            return "type-test / container builtin"
        if f in FAMILY:
            return "exception constructor"
        return None
    if kind == "attr":
        if text.startswith("self.") and "[" not in text:
            return "attribute of the object itself"
        if text.endswith(".format") and text[0] in "'\"":
            return "constant template"
        return None
    return None


# ----------------------------------------------------------------------------
# the reviewed table: (function regex, kind, text regex, required handlers (subset) or None, label, evidence, why)
#   evidence: a substring that must occur in the unparsed function (the guard that makes the entry true), or None

R = []


def rule(fn, kind, text, label, why, handlers=None, evidence=None):
    R.append((re.compile(fn + r"\Z"), kind, re.compile(text + r"\Z"), handlers, label, evidence, why))


P = r"parsing\.(parse|dict_to_stix2|parse_observable)"
rule(P, "call", r"_get_dict\(\.\.\.\)", "family", "mirrored function; its own inventory is below")
rule(P, "call", r"(dict_to_stix2|detect_spec_version)\(\.\.\.\)", "wrapped", "mirrored; RecursionError of the interpreter stack is caught here",
     handlers=("RecursionError",))
rule(P, "call", r"str\(\.\.\.\)", "wrapped", "str() of raw input for a message; deep nesting is caught", handlers=("RecursionError",))
rule(P, "call", r"(obj_class|_refuse_unrequested_custom)\(\.\.\.\)", "family", "construction / mirrored function (modelled)")
rule(r"parsing\.dict_to_stix2", "subscript", r"stix_dict\['type'\]", "typed",
     "after `'type' not in stix_dict -> ParseError`; on a str/list that contains 'type' this is a TypeError (family)",
     evidence="if 'type' not in stix_dict:")
rule(r"parsing\.parse_observable", "subscript", r"obj\['type'\]", "typed", "after `'type' not in obj -> ParseError` (TypeError on non-dicts)",
     evidence="if 'type' not in obj:")
rule(r"parsing\.dict_to_stix2", "attr", r"stix_dict\.get", "typed",
     "reached only when class_for_type found no class; a str/list stix_dict fails earlier in detect_spec_version / stix_dict['type'] (TypeError)",
     evidence="if 'type' not in stix_dict:")
rule(r"parsing\.dict_to_stix2", "attr", r"key_id\.startswith", "own", "key of a dict that came from JSON / a Python dict given by the caller: a str")
rule(r"parsing\._refuse_unrequested_custom", "attr", r"obj\.has_custom", "own", "obj is the constructed library object")
rule(r"parsing\._refuse_unrequested_custom", "subscript", r"obj\['type'\]", "own", "type has a default on every registered class")
rule(r"utils\._get_dict", "extcall", r"json\.loads", "wrapped", "JSONDecodeError is a ValueError; TypeError and RecursionError handled",
     handlers=("TypeError", "RecursionError"))
rule(r"utils\._get_dict", "extcall", r"json\.load", "wrapped", "AttributeError (no .read) and RecursionError handled",
     handlers=("AttributeError", "RecursionError"))
rule(r"utils\._get_dict", "call", r"dict\(\.\.\.\)", "wrapped", "dict() of a non-mapping raises TypeError/ValueError, both handled",
     handlers=("ValueError", "TypeError"))
rule(r"utils\._get_dict", "call", r"str\(\.\.\.\)", "family", "str() of a value dict() refused (not deeply nested dict)")
rule(r"utils\.detect_spec_version", "subscript", r"stix_dict\['spec_version'\]", "typed", "inside `if 'spec_version' in stix_dict`",
     evidence="if 'spec_version' in stix_dict:")
rule(r"utils\.detect_spec_version", "call", r"max\(\.\.\.\)", "family", "max() raises ValueError (empty, without default) or TypeError (unorderable)")
rule(r"utils\.detect_spec_version", "call", r"str\(\.\.\.\)", "family", "message of the ParseError for a missing type")
rule(r"utils\.detect_spec_version", "subscript", r"mappings\.STIX2_OBJ_MAPS\['2\.1'\](\['observables'\])?", "own", "the library's registry")
rule(r"utils\.detect_spec_version", "call", r"detect_spec_version\(\.\.\.\)", "family", "recursion on bundle members (same inventory)")
rule(r"utils\.detect_spec_version", "attr", r"stix_dict\.get", "typed",
     "after stix_dict['type'] succeeded (a non-dict raised TypeError there)", evidence="obj_type = stix_dict['type']")
rule(r"registry\.class_for_type", "(attr|subscript)", r"(cat_map|class_map).*", "own", "the library's registry dicts (unhashable key: TypeError)")
rule(r"base\._STIXBase\._check_property", "subscript", r"kwargs\[prop_name\]", "typed", "inside `if prop_name in kwargs`",
     evidence="if prop_name in kwargs:")
rule(r"base\._STIXBase\._check_property", "attr", r"prop\.(default|clean)", "own", "a Property object of the class table (clean is the wrapped black box)")
rule(r"base\._STIXBase\._check_property", "attr", r"arguments\.append", "own", "a list built here")
rule(r"base\._STIXBase\._check_property", "call", r"str\(\.\.\.\)", "family",
     "str(exc) inside the handler: total for the library's classes by the obligation library_exception_str_templates_constant")
rule(r"base\._STIXBase\._check_object_constraints", "call", r"validate\(\.\.\.\)", "family", "markings.utils.validate raises InvalidSelectorError")
rule(r"base\._STIXBase\.__init__", "call", r"(get_timestamp|get_required_properties|class_for_type)\(\.\.\.\)", "family", "library helpers on library data")
rule(r"(v21\.)?base\.(_STIXBase|_Observable)\.__init__", "attr", r"kwargs\.(pop|get|keys)", "own", "the ** dict of the call")
rule(r"base\._STIXBase\.__init__", "attr",
     r"(defined_properties|registered_toplevel_extension_props|assigned_properties|setting_kwargs|defaulted)\.(items|keys|get|update|append)",
     "own", "dicts / ChainMaps / lists built in this function")
rule(r"base\._STIXBase\.__init__", "attr", r"prop\.(required|default)", "wrapped", "Property objects; the defaulted-optional probe is inside try",
     handlers=("AttributeError", "KeyError"))
rule(r"base\._STIXBase\.__init__", "subscript", r"setting_kwargs\[name\]", "wrapped", "inside try", handlers=("AttributeError", "KeyError"))
rule(r"base\._Observable\._check_ref", "attr", r"prop\.contained(\.valid_types)?", "wrapped", "Property object; AttributeError handled",
     handlers=("AttributeError",))
rule(r"base\._Observable\._check_ref", "attr", r"prop\.valid_types", "own", "an ObjectReferenceProperty (the caller tested the type)")
rule(r"base\._Observable\._check_ref", "(attr|subscript)", r"self\._STIXBase__valid_refs\[ref\](\.type)?", "wrapped",
     "raw _valid_refs: `ref not in` ran before (KeyError impossible), TypeError -> ValueError, AttributeError handled",
     handlers=("TypeError",))
rule(r"base\._Observable\._check_property", "attr", r"prop_name\.endswith", "own", "a property name of the class table")
rule(r"base\._Observable\._check_property", "subscript", r"kwargs\[prop_name\]", "typed", "inside `if prop_name in kwargs`",
     evidence="if prop_name in kwargs:")
rule(r"base\._Observable\._check_property", "attr", r"prop\.contained", "own", "a ListProperty of the class table (name ends in _refs)")
rule(r"markings\.utils\.check_tlp_marking", "attr", r"marking_obj\.get", "own", "the constructed marking-definition object")
rule(r"markings\.utils\.check_tlp_marking", "subscript", r"marking_obj\['(id|created)'\]", "own", "id and created have defaults")
rule(r"markings\.utils\.check_tlp_marking", "subscript", r"marking_obj\['definition'\]\['tlp'\]", "own",
     "definition_type == 'tlp' made __init__ build a TLPMarking, whose tlp is required")
rule(r"v2[01]\.common\.MarkingDefinition\.__init__", "attr", r"\{'definition_type', 'definition'\}\.issubset", "own", "a set literal")
rule(r"v2[01]\.common\.MarkingDefinition\.__init__", "attr", r"kwargs\.keys", "own", "the ** dict")
rule(r"v2[01]\.common\.MarkingDefinition\.__init__", "subscript", r"(OBJ_MAP_MARKING\[kwargs\['definition_type'\]\]|kwargs\['definition_type'\])",
     "wrapped", "KeyError -> ValueError; unhashable: TypeError", handlers=("KeyError",))
rule(r"v2[01]\.common\.MarkingDefinition\.__init__", "subscript", r"kwargs\['(definition|created)'\]", "typed",
     "inside the issubset test / `'created' not in kwargs or`", evidence="{'definition_type', 'definition'}.issubset(kwargs.keys())")
rule(r"v2[01]\.common\.MarkingDefinition\.__init__", "call", r"(_should_set_millisecond|_get_dict|marking_type|TimestampProperty)\(\.\.\.\)",
     "family", "mirrored functions / construction of the marking type (modelled) / a Property constructor on constants")
rule(r"v2[01]\.sdo\.Indicator\._check_object_constraints", "call", r"str\(\.\.\.\)", "family", "str of the validator's message / of the caught exception")
rule(r"v2[01]\.sdo\.Indicator\._check_object_constraints", "subscript", r"errors\[0\]", "typed", "inside `if errors:`", evidence="if errors:")
rule(r"v21\.sdo\.Indicator\._check_object_constraints", "attr", r"msg\.format", "own", "a constant template")

rule(r"base\._STIXBase\.(__init__|_check_object_constraints)", "extcall", r"collections\.abc(\.Mapping)?", "own", "a type name in an isinstance test")
rule(r"base\._STIXBase\.__init__", "extcall", r"(collections\.ChainMap|itertools\.chain)", "own", "views over dicts built here / the class table")
rule(r"base\._STIXBase\.__init__", "extcall", r"re\.match", "own", "re.match(PREFIX_21_REGEX, prop_name): prop_name is a keyword name, a str (also the empty one)")
rule(r"parsing\.parse_observable", "extcall", r"copy\.deepcopy", "wrapped", "deep copy of raw input; RecursionError handled",
     handlers=("RecursionError",))
rule(r"v20\.common\.MarkingDefinition\.__init__", "extcall", r"copy\.deepcopy", "own", "deep copy of the class's own _properties table")

# the model's sites: (tag, function, unguarded occurrence (kind, text regex, handlers that must be ABSENT), guarded evidence)
SITES = [
    ("init-extensions-nondict", "base._STIXBase.__init__", ("attr", r"extensions\.items", None),
     "isinstance(extensions, collections.abc.Mapping)"),
    ("init-extension-entry-nondict", "base._STIXBase.__init__", ("attr", r"ext\.get", None), "if not isinstance(ext, collections.abc.Mapping):"),
    ("init-toplevel-props-missing", "base._STIXBase.__init__", ("attr", r"registered_ext_class\._toplevel_properties", None),
     "getattr(registered_ext_class, '_toplevel_properties', {})"),
    ("init-custom-properties-falsy-nondict", "base._STIXBase.__init__", ("attr", r"custom_props\.keys", None),
     "if not isinstance(custom_props, dict):"),
    ("constraints-custom-granular-markings", "base._STIXBase._check_object_constraints", ("attr", r"m\.get", None),
     "'granular_markings' not in self._properties"),
    ("v20-marking-created-precision", "v20.common._should_set_millisecond", ("attr", r"cr\.precision", None), "getattr(cr, 'precision', None)"),
    ("dict-to-stix2-extensions-nondict", "parsing.dict_to_stix2", ("attr", r"(extensions|stix_dict\.get\('extensions', \{\}\))\.items", None),
     "if not isinstance(extensions, dict):"),
    ("dict-to-stix2-extension-entry-nondict", "parsing.dict_to_stix2", ("attr", r"ext_def\.get", None), "isinstance(ext_def, dict)"),
    ("detect-bundle-without-objects", "utils.detect_spec_version", ("subscript", r"stix_dict\['objects'\]", None),
     "stix_dict.get('objects', [])"),
    ("detect-nested-object-without-type", "utils.detect_spec_version", ("subscript", r"stix_dict\['type'\]", "KeyError"), None),
    ("tlp-without-definition", "markings.utils.check_tlp_marking", ("subscript", r"marking_obj\['definition'\]", None),
     "if 'definition' not in marking_obj:"),
    ("indicator20-empty-pattern-validator-crash", "v20.sdo.Indicator._check_object_constraints", ("call", r"run_validator\(\.\.\.\)", "Exception"), None),
    ("indicator21-empty-pattern-validator-crash", "v21.sdo.Indicator._check_object_constraints", ("call", r"run_validator\(\.\.\.\)", "Exception"), None),
    ("json-text-nesting-depth", "utils._get_dict", ("extcall", r"json\.loads", "RecursionError"), None),
]


def classify(repo):
    occ, src = scan(repo)
    unmatched = []
    reviewed = auto_n = 0
    site_status = {}
    site_occ = set()
    for tag, fn, (kind, pat, need_handler), evidence in SITES:
        hits = [o for o in occ if o[0] == fn and o[1] == kind and re.fullmatch(pat, o[2])]
        if need_handler is not None:
            # the operation is always there; guarded iff every hit is inside a try catching the class
            if not hits:
                site_status[tag] = None
            else:
                site_status[tag] = all(need_handler in o[3] or "Exception" in o[3] for o in hits)
        else:
            if evidence in src.get(fn, ""):
                site_status[tag] = True
            elif hits:
                site_status[tag] = False
            else:
                site_status[tag] = None
        for o in hits:
            site_occ.add(o)
    for o in occ:
        if o in site_occ:
            continue
        if auto(o):
            auto_n += 1
            continue
        key, kind, text, hs = o
        ok = False
        for fre, k, tre, handlers, label, evidence, why in R:
            if not fre.match(key) or not re.fullmatch(k, kind) or not tre.match(text):
                continue
            if handlers is not None and not all(h in hs or "Exception" in hs for h in handlers):
                continue
            if evidence is not None and evidence not in src[key]:
                continue
            ok = True
            break
        if ok:
            reviewed += 1
        else:
            unmatched.append(o)
    return {"occurrences": len(occ), "auto": auto_n, "reviewed": reviewed, "sites": site_status, "unmatched": unmatched}


SITE_COQ = {
    "init-extensions-nondict": "S_init_extensions_items", "init-extension-entry-nondict": "S_init_extension_entry",
    "init-toplevel-props-missing": "S_init_toplevel_props", "init-custom-properties-falsy-nondict": "S_init_custom_props_keys",
    "constraints-custom-granular-markings": "S_cons_custom_gm", "v20-marking-created-precision": "S_ms20_precision",
    "dict-to-stix2-extensions-nondict": "S_d2s_extensions_items", "dict-to-stix2-extension-entry-nondict": "S_d2s_extension_entry",
    "detect-bundle-without-objects": "S_detect_objects", "detect-nested-object-without-type": "S_detect_type",
    "tlp-without-definition": "S_tlp_definition", "indicator20-empty-pattern-validator-crash": "S_validator_crash20",
    "indicator21-empty-pattern-validator-crash": "S_validator_crash21", "json-text-nesting-depth": "S_json_depth",
}


def emit(repo):
    try:
        c = classify(repo)
        err = None
    except (FlowError, OSError, SyntaxError) as e:
        c = {"occurrences": 0, "auto": 0, "reviewed": 0, "sites": {}, "unmatched": [("?", "?", str(e), ())]}
        err = str(e)
    located = all(c["sites"].get(t) is not None for t in SITE_COQ)
    ok = not c["unmatched"] and located
    lines = ["", "(* translators/tr_c17flow.py: inventory of the %d subscript / attribute / call / raise occurrences in the %d mirrored"
             % (c["occurrences"], len(FUNCS)),
             "   functions of the repository under check: %d covered by automatic rules, %d by the reviewed table, the rest are the"
             % (c["auto"], c["reviewed"]),
             "   operations of the model's sites.%s *)" % ("" if ok else "  NOT CLOSED: " + "; ".join(
                 ("%s %s %s %s" % o).replace("*)", "* )").replace("(*", "( *") for o in c["unmatched"][:12])
                 + ("" if located else "; sites not located: %s" % [t for t in SITE_COQ if c["sites"].get(t) is None])),
             "Definition source_inventory_reviewed : bool := %s." % ("true" if ok else "false"),
             "Definition source_variant : variant := fun s =>", "  match s with", "  | S_lib => true"]
    for tag, cq in SITE_COQ.items():
        lines.append("  | %s => %s" % (cq, "true" if c["sites"].get(tag) else "false"))
    # the 15th site is not in an inventoried function (vendored canonicaliser): its guard is looked up directly
    try:
        n2j = open(os.path.join(repo, "stix2", "canonicalization", "NumberToJson.py"), encoding="utf-8").read()
        fn = find(ast.parse(n2j), "convert2Es6Format")
        genid = any(isinstance(t, ast.Try) and any("float(value)" in ast.unparse(b) for b in t.body)
                    and any(h.type is not None and "OverflowError" in ast.unparse(h.type) for h in t.handlers)
                    for t in ast.walk(fn))
    except (OSError, SyntaxError, FlowError):
        genid = False
    c["sites"]["generate-id-huge-integer-overflowerror"] = genid
    lines.append("  | S_genid_number_range => %s" % ("true" if genid else "false"))
    lines += ["  end.", ""]
    return "\n".join(lines), c


if __name__ == "__main__":
    import sys
    text, c = emit(sys.argv[1] if len(sys.argv) > 1 else "/repo")
    print(text)
    for o in c["unmatched"]:
        print("UNMATCHED", o)

"""Run with PYTHONPATH=<repo> /venv/bin/python: dump the LIVE class tables of
stix2.v20 / stix2.v21 (what Python actually builds) as JSON on stdout.

Fail-closed: an unknown Property subclass, or an attribute of a known one that
is not in the expected set, aborts with exit status 3.
"""
import ast
import collections
import inspect
import json
import sys
import textwrap

import stix2
import stix2.v20
import stix2.v21
from stix2 import properties as P
from stix2.base import _STIXBase
from stix2.registry import STIX2_OBJ_MAPS
from stix2.utils import NOW, STIXTypeClass


class Abort(Exception):
    pass


def class_id(c):
    mod = c.__module__
    if mod.startswith("stix2.v20"):
        return "2.0/" + c.__name__
    if mod.startswith("stix2.v21"):
        return "2.1/" + c.__name__
    raise Abort("class outside v20/v21: %s.%s" % (mod, c.__name__))


def expect_attrs(p, allowed):
    extra = set(vars(p)) - set(allowed) - {"required", "_fixed_value", "clean", "default"}
    if extra:
        raise Abort("%s has unexpected attributes %s" % (type(p).__name__, sorted(extra)))


def default_of(p):
    if "_fixed_value" in vars(p):
        return {"d": "fixed"}
    if isinstance(p, P.IDProperty):
        return {"d": "uuid4"}
    d = vars(p).get("default")
    if d is None:
        if hasattr(type(p), "default"):
            raise Abort("%s defines a class-level default()" % type(p).__name__)
        return {"d": "none"}
    v = d()
    if v is NOW or v == NOW:
        return {"d": "now"}
    if isinstance(v, (str, bool, int)) or v is None:
        return {"d": "const", "v": v}
    if isinstance(v, list) and all(isinstance(x, str) for x in v):
        return {"d": "const", "v": v}
    raise Abort("unsupported default value %r" % (v,))


def ver_of(s):
    if s not in ("2.0", "2.1"):
        raise Abort("unexpected spec_version %r" % (s,))
    return s


def kind_of(p):
    t = type(p)
    if "_fixed_value" in vars(p):
        fv = vars(p)["_fixed_value"]
        if not isinstance(fv, str):
            raise Abort("non-string fixed value %r" % (fv,))
        if t is P.TypeProperty:
            expect_attrs(p, ["spec_version"])
            return {"k": "fixed", "v": fv, "of": "type"}
        if t is P.StringProperty:
            expect_attrs(p, [])
            return {"k": "fixed", "v": fv, "of": "string"}
        if t is P.EnumProperty:
            expect_attrs(p, ["allowed"])
            return {"k": "fixed", "v": fv, "of": "enum", "allowed": list(p.allowed)}
        raise Abort("fixed value on %s" % t.__name__)
    if t is P.StringProperty:
        expect_attrs(p, [])
        return {"k": "string"}
    if t is P.PatternProperty:
        expect_attrs(p, [])
        return {"k": "pattern"}
    if t is P.ObjectReferenceProperty:
        expect_attrs(p, ["valid_types"])
        return {"k": "objref", "valid_types": list(p.valid_types) if p.valid_types else None}
    if t is P.IDProperty:
        expect_attrs(p, ["required_prefix", "spec_version"])
        return {"k": "id", "prefix": p.required_prefix, "ver": ver_of(p.spec_version)}
    if t is P.IntegerProperty:
        expect_attrs(p, ["min", "max"])
        for b in (p.min, p.max):
            if b is not None and type(b) is not int:
                raise Abort("non-int integer bound %r" % (b,))
        return {"k": "int", "min": p.min, "max": p.max}
    if t is P.FloatProperty:
        expect_attrs(p, ["min", "max"])
        for b in (p.min, p.max):
            if b is not None and (type(b) not in (int, float) or float(b) != int(b)):
                raise Abort("non-integral float bound %r" % (b,))
        return {"k": "float", "min": None if p.min is None else int(p.min), "max": None if p.max is None else int(p.max)}
    if t is P.BooleanProperty:
        expect_attrs(p, [])
        if p._trues != ['true', 't', '1', 1, True] or p._falses != ['false', 'f', '0', 0, False]:
            raise Abort("BooleanProperty spellings changed")
        return {"k": "bool"}
    if t is P.TimestampProperty:
        expect_attrs(p, ["precision", "precision_constraint"])
        if p.precision not in ("any", "second", "millisecond") or p.precision_constraint not in ("exact", "min"):
            raise Abort("unexpected timestamp precision %r/%r" % (p.precision, p.precision_constraint))
        return {"k": "time", "prec": p.precision, "constr": p.precision_constraint}
    if t is P.DictionaryProperty:
        expect_attrs(p, ["spec_version"])
        return {"k": "dict", "ver": ver_of(p.spec_version)}
    if t is P.HashesProperty:
        expect_attrs(p, ["spec_version", "_HashesProperty__spec_hash_names", "_HashesProperty__alg_to_spec_name"])
        return {"k": "hashes", "names": list(vars(p)["_HashesProperty__spec_hash_names"]), "ver": ver_of(p.spec_version)}
    if t is P.BinaryProperty:
        expect_attrs(p, [])
        return {"k": "binary"}
    if t is P.HexProperty:
        expect_attrs(p, [])
        return {"k": "hex"}
    if t is P.ReferenceProperty:
        expect_attrs(p, ["auth_type", "generics", "specifics", "spec_version"])
        return {"k": "ref", "white": p.auth_type == P.ReferenceProperty._WHITELIST,
                "generics": sorted(g.name for g in p.generics), "specifics": sorted(p.specifics),
                "ver": ver_of(p.spec_version)}
    if t is P.SelectorProperty:
        expect_attrs(p, [])
        return {"k": "selector"}
    if t is P.EmbeddedObjectProperty:
        expect_attrs(p, ["type"])
        return {"k": "embedded", "cls": class_id(p.type)}
    if t is P.EnumProperty:
        expect_attrs(p, ["allowed"])
        return {"k": "enum", "allowed": list(p.allowed)}
    if t is P.OpenVocabProperty:
        expect_attrs(p, ["allowed"])
        return {"k": "openvocab", "allowed": list(p.allowed)}
    if t is P.ObservableProperty:
        expect_attrs(p, ["spec_version"])
        return {"k": "observable", "ver": ver_of(p.spec_version)}
    if t is P.ExtensionsProperty:
        expect_attrs(p, ["spec_version"])
        return {"k": "extensions", "ver": ver_of(p.spec_version)}
    if t is P.STIXObjectProperty:
        expect_attrs(p, ["spec_version"])
        return {"k": "stixobject", "ver": ver_of(p.spec_version)}
    if t is P.ListProperty:
        expect_attrs(p, ["contained"])
        c = p.contained
        if isinstance(c, P.Property):
            if vars(c).get("required") or "default" in vars(c) and not isinstance(c, P.IDProperty):
                pass  # required/default on a contained property is ignored by ListProperty.clean
            return {"k": "list", "of": kind_of(c)}
        if inspect.isclass(c) and issubclass(c, _STIXBase):
            return {"k": "listof", "cls": class_id(c)}
        raise Abort("ListProperty of %r" % (c,))
    if t.__name__ == "MarkingProperty" and t.__module__ in ("stix2.v20.common", "stix2.v21.common"):
        expect_attrs(p, [])
        return {"k": "marking", "ver": "2.0" if "v20" in t.__module__ else "2.1"}
    if t is P.Property:
        expect_attrs(p, [])
        return {"k": "any"}
    raise Abort("unknown Property class %s.%s" % (t.__module__, t.__name__))


def method_src(c, name):
    """Normalised source (ast.unparse) of a method defined on c itself, or None."""
    f = c.__dict__.get(name)
    if f is None:
        return None
    try:
        src = textwrap.dedent(inspect.getsource(f))
    except (OSError, TypeError):
        raise Abort("cannot read source of %s.%s" % (c.__name__, name))
    node = ast.parse(src).body[0]
    body = [s for s in node.body if not (isinstance(s, ast.Expr) and isinstance(s.value, ast.Constant))]
    args = ast.unparse(node.args)
    return "(%s)\n" % args + "\n".join(ast.unparse(s) for s in body)


def family(c):
    names = {b.__name__ for b in inspect.getmro(c)}
    if "_Observable" in names:
        return "sco"
    if "_DomainObject" in names:
        return "sdo"
    if "_RelationshipObject" in names:
        return "sro"
    if "_Extension" in names:
        return "ext"
    return "other"


def dump():
    classes = collections.OrderedDict()
    for ver, mod in (("2.0", stix2.v20), ("2.1", stix2.v21)):
        for sub in ("common", "sdo", "sro", "observables", "bundle"):
            m = getattr(mod, sub)
            for n, c in vars(m).items():
                if inspect.isclass(c) and issubclass(c, _STIXBase) and "_properties" in vars(c) \
                        and c.__module__ == m.__name__:
                    cid = class_id(c)
                    slots = []
                    for pname, p in c._properties.items():
                        if not isinstance(p, P.Property):
                            raise Abort("%s.%s is not a Property" % (cid, pname))
                        slots.append({"name": pname, "kind": kind_of(p), "required": bool(p.required),
                                      "default": default_of(p)})
                    extra_cls_attrs = sorted(k for k in vars(c) if not k.startswith("__") and k not in (
                        "_type", "_properties", "_id_contributing_properties", "_check_object_constraints",
                        "_abc_impl", "_LEGAL_HASHES", "serialize", "_toplevel_properties", "extension_type"))
                    classes[cid] = {
                        "ver": ver, "name": c.__name__, "module": sub,
                        "type": getattr(c, "_type", None), "family": family(c),
                        "slots": slots,
                        "id_contrib": list(getattr(c, "_id_contributing_properties", []) or []) if family(c) == "sco" else [],
                        "constraints_src": method_src(c, "_check_object_constraints"),
                        "init_src": method_src(c, "__init__"),
                        "serialize_src": method_src(c, "serialize"),
                        "other_attrs": extra_cls_attrs,
                        "legal_hashes": sorted(getattr(c, "_LEGAL_HASHES")) if "_LEGAL_HASHES" in vars(c) else None,
                    }
    registries = {}
    for ver in ("2.0", "2.1"):
        registries[ver] = {}
        for cat in ("objects", "observables", "extensions", "markings"):
            registries[ver][cat] = {k: class_id(v) for k, v in STIX2_OBJ_MAPS[ver][cat].items()
                                    if v.__module__.startswith("stix2.v2")}
    tlp = {}
    for ver, mod in (("2.0", stix2.v20), ("2.1", stix2.v21)):
        tlp[ver] = {}
        for name in ("TLP_WHITE", "TLP_GREEN", "TLP_AMBER", "TLP_RED"):
            o = getattr(mod, name)
            tlp[ver][name] = json.loads(o.serialize())
    return {"classes": classes, "registries": registries, "tlp": tlp,
            "type_classes": [e.name for e in STIXTypeClass],
            # the part of _check_object_constraints every class inherits (granular markings; with the
            # proposed fix C02-modified-before-created also the created <= modified rule)
            "base_constraints_src": method_src(_STIXBase, "_check_object_constraints")}


if __name__ == "__main__":
    try:
        json.dump(dump(), sys.stdout, indent=1, sort_keys=False)
    except Abort as e:
        sys.stderr.write("ABORT: %s\n" % e)
        sys.exit(3)

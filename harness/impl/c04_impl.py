"""Implementation side of C04 (custom content admitted only on request, always detected).

One case per stdin line:
  {"route": "parse"|"construct", "cid": "2.1/Identity", "data": {...},
   "custom": bool,       # the data contains content that is custom by construction of the case
   "site": "..."}        # where it was injected (for the report)
Observed, through the public API only:
  strict : making the object with allow_custom=False      -> accepted / exception class
  allow  : making the object with allow_custom=True       -> accepted / exception class, has_custom
  reparse: stix2.parse(obj.serialize(), allow_custom=False) of the allow-mode object -> accepted / exception class
Verdicts (judge): custom content accepted under strict => violation;
allow-mode object whose flag differs from "strict reparse refused" => violation.
"""
import json
import os as _os
import sys as _sys

# another hash seed than the parent's (set / dict iteration orders must not matter): re-exec once, stdin is inherited
if __name__ == "__main__" and _os.environ.get("PYTHONHASHSEED") != "4242":
    _os.environ["PYTHONHASHSEED"] = "4242"
    _os.execv(_sys.executable, [_sys.executable, "-B"] + _sys.argv)
import sys
import warnings

warnings.simplefilter("ignore")

import stix2  # noqa: E402
import stix2.versioning  # noqa: E402
from stix2.base import _STIXBase  # noqa: E402


# custom types registered "on request" in this process (both spec versions): references to them,
# members of them and extensions of them are then resolvable by the library
REGISTERED = {"objects": ["x-registered-object", "registered-plain-object"], "observables": ["x-registered-observable"],
              "extensions": ["x-registered-ext"]}


REG_TOPLEVEL = "extension-definition--7c3b9e4f-5d6f-4a81-8cbd-2e3f4a5b6c7d"
REG_TOPLEVEL2 = "extension-definition--8d4caf50-6e70-4b92-9dce-3f4a5b6c7d8e"


def _register():
    P = stix2.properties
    for mod, ver in ((stix2.v20, "2.0"), (stix2.v21, "2.1")):
        for t in REGISTERED["objects"]:
            mod.CustomObject(t, [("name", P.StringProperty(required=True))])(type("Reg" + t.title().replace("-", ""), (object,), {}))
        for t in REGISTERED["observables"]:
            if ver == "2.1":
                mod.CustomObservable(t, [("value", P.StringProperty(required=True))], ["value"])(type("RegObs", (object,), {}))
            else:
                mod.CustomObservable(t, [("value", P.StringProperty(required=True))])(type("RegObs", (object,), {}))
    # a registered toplevel-property-extension: its property t_rank becomes a top-level property of the carrier
    stix2.v21.CustomExtension(REG_TOPLEVEL, [("t_rank", P.IntegerProperty()),
                                             ("t_extref", P.EmbeddedObjectProperty(type=stix2.v21.ExternalReference)),
                                             ("t_hashes", P.HashesProperty(["MD5", "SHA-256"], spec_version="2.1"))])(
        type("RegTopLevel", (object,), {"extension_type": "toplevel-property-extension"}))
    # a second one: what building an object with both leaves behind must not change what the first one declares
    stix2.v21.CustomExtension(REG_TOPLEVEL2, [("u_rank", P.IntegerProperty())])(
        type("RegTopLevel2", (object,), {"extension_type": "toplevel-property-extension"}))
    stix2.v20.CustomExtension("x-registered-ext", [("rank", P.IntegerProperty(required=True))])(type("RegExt", (object,), {}))
    stix2.v21.CustomExtension("x-registered-ext", [("rank", P.IntegerProperty(required=True))])(type("RegExt", (object,), {}))


try:
    _register()
    REGISTRATION_ERROR = None
except Exception as _e:  # noqa: BLE001
    REGISTRATION_ERROR = type(_e).__name__ + ": " + str(_e)[:200]


def find_class(cid):
    ver, name = cid.split("/")
    mod = stix2.v20 if ver == "2.0" else stix2.v21
    for sub in ("common", "sdo", "sro", "observables", "bundle"):
        c = getattr(getattr(mod, sub), name, None)
        if c is not None:
            return c
    raise KeyError(cid)


def prebuild(data, specs):
    """Replace the dictionaries at the given paths by library objects built beforehand -- under allow_custom=True,
    whatever the mode of the enclosing constructor is (deepest paths first)."""
    for sp in sorted(specs, key=lambda x: -len(x["path"])):
        holder = data
        for k in sp["path"][:-1]:
            holder = holder[k]
        sub = holder[sp["path"][-1]]
        holder[sp["path"][-1]] = find_class(sp["cid"])(allow_custom=True, **{k: v for k, v in sub.items() if k != "type"})


LATE = {}


def register_late(case):
    """An observable type that is looked up before it is registered: its data is parsed (parse_observable, and as a
    member of a 2.0 observed-data container) while the type is unknown, then CustomObservable registers it, and only
    then is the case run.  The outcome must be that of a type registered up front (the `control` of the case)."""
    late = case["late"]
    key = (late["type"], late["ver"])
    if key in LATE:
        return
    P = stix2.properties
    probe = dict(late["probe"])
    for allow in (True, False):
        try:
            stix2.parse_observable(dict(probe), allow_custom=allow, version=late["ver"])
        except Exception:  # noqa: BLE001
            pass
        try:
            stix2.parse(dict(probe), allow_custom=allow)
        except Exception:  # noqa: BLE001
            pass
        if late["ver"] == "2.0":
            try:
                stix2.v20.ObservedData(first_observed="2016-01-01T00:00:00Z", last_observed="2016-01-01T00:00:00Z", number_observed=1,
                                       objects={"0": dict(probe)}, allow_custom=allow)
            except Exception:  # noqa: BLE001
                pass
    mod = stix2.v20 if late["ver"] == "2.0" else stix2.v21
    holder = type("LateObs", (object,), {})
    if late["ver"] == "2.1":
        LATE[key] = mod.CustomObservable(late["type"], [("value", P.StringProperty(required=True))], ["value"])(holder)
    else:
        LATE[key] = mod.CustomObservable(late["type"], [("value", P.StringProperty(required=True))])(holder)


def make(case, allow):
    """allow = True / False: allow_custom handed over explicitly; None: the argument is not given at all (its default)"""
    import copy
    data = copy.deepcopy(case["data"])
    kw = {} if allow is None else {"allow_custom": allow}
    if case["route"] == "parse":
        return stix2.parse(data, **kw)
    if case["route"] == "parse_observable":
        return stix2.parse_observable(data, version=case["cid"][:3], **kw)
    if case.get("prebuilt"):
        prebuild(data, case["prebuilt"])
    if case["route"] == "new_version":
        # a valid object first, then versioning.new_version with the extra (custom) properties
        base = find_class(case["cid"])(allow_custom=False, **data)
        return stix2.versioning.new_version(base, **dict(copy.deepcopy(case["extra_props"]), **kw))
    if case["route"] == "construct_positional":
        # Bundle(*members, **rest): the members handed over positionally
        members = data.pop("objects", [])
        return find_class(case["cid"])(*members, **dict(data, **kw))
    return find_class(case["cid"])(**dict(data, **kw))


def attempt(f):
    try:
        return True, f(), None
    except RecursionError:
        return False, None, "RecursionError"
    except Exception as e:  # noqa: BLE001
        return False, None, type(e).__name__ + ": " + str(e)[:160]


def signature(o):
    return [o.get("strict_ok"), (o.get("strict_err") or "").split(":")[0], o.get("allow_ok"), o.get("allow_is_obj"), o.get("hc"),
            o.get("reparse_ok"), o.get("default_ok")]


def observe(case):
    if case.get("before"):
        # other objects made earlier in the same process (both modes); what they leave behind must not matter
        for b in case["before"]:
            for allow in (True, False):
                attempt(lambda: make(b, allow))
        return observe({k: v for k, v in case.items() if k != "before"})
    if case.get("twice"):
        # the same case again after other objects were made in the same process: same outcome
        plain = {k: v for k, v in case.items() if k != "twice"}
        out = observe(plain)
        for b in case["twice"].get("between", []):
            for allow in (True, False):
                attempt(lambda: make(b, allow))
        again = observe(plain)
        out["signature"] = signature(out)
        out["again_signature"] = signature(again)
        return out
    if case.get("late"):
        try:
            register_late(case)
        except Exception as e:  # noqa: BLE001
            return {"strict_ok": False, "strict_err": "late registration: " + type(e).__name__, "allow_ok": False, "allow_err": "late registration"}
        out = observe(dict(case, late=None))
        ctl = observe(case["control"])
        out["control_signature"] = signature(ctl)
        out["signature"] = signature(out)
        return out
    out = {}
    if REGISTRATION_ERROR:
        out["registration_error"] = REGISTRATION_ERROR
    if case.get("prebuilt"):
        import copy
        okp, _, errp = attempt(lambda: prebuild(copy.deepcopy(case["data"]), case["prebuilt"]))
        if not okp:
            # the value itself cannot be built: nothing to observe
            out.update({"strict_ok": False, "strict_err": "prebuild: " + str(errp), "allow_ok": False, "allow_err": "prebuild: " + str(errp),
                        "prebuild_failed": True})
            return out
    ok, obj, err = attempt(lambda: make(case, False))
    out["strict_ok"] = ok
    out["strict_err"] = err
    if ok:
        out["strict_is_obj"] = isinstance(obj, _STIXBase)
        out["strict_hc"] = bool(obj.has_custom) if isinstance(obj, _STIXBase) else None
    # customization not mentioned at all: every entry point's default is "not requested", so the outcome is the strict one
    okd, objd, errd = attempt(lambda: make(case, None))
    out["default_ok"] = okd
    out["default_err"] = errd
    if okd:
        out["default_hc"] = bool(objd.has_custom) if isinstance(objd, _STIXBase) else None
    ok, obj, err = attempt(lambda: make(case, True))
    out["allow_ok"] = ok
    out["allow_err"] = err
    if ok:
        out["allow_is_obj"] = isinstance(obj, _STIXBase)
        if isinstance(obj, _STIXBase):
            out["hc"] = bool(obj.has_custom)
            ok2, text, err2 = attempt(obj.serialize)
            out["ser_ok"] = ok2
            if ok2:
                out["text"] = text
                ok3, back, err3 = attempt(lambda: stix2.parse(text, allow_custom=False))
                out["reparse_ok"] = ok3
                out["reparse_err"] = err3
            else:
                out["ser_err"] = err2
    return out


def judge(case, o):
    fails = []
    if case.get("twice") and o.get("signature") != o.get("again_signature"):
        fails.append({"kind": "same-input-different-outcome",
                      "detail": {"site": case.get("site"), "first": o.get("signature"), "again": o.get("again_signature"),
                                 "order": "strict_ok, strict error, allow_ok, allow gives object, has_custom, strict reparse ok, default ok"}})
    if case.get("late") and "signature" in o and o["signature"] != o["control_signature"]:
        fails.append({"kind": "registration-time-changes-outcome",
                      "detail": {"site": case.get("site"), "late_registered": o["signature"], "registered_up_front": o["control_signature"],
                                 "order": "strict_ok, strict error, allow_ok, allow gives object, has_custom, strict reparse ok, default ok"}})
    if case.get("custom") and o["strict_ok"]:
        fails.append({"kind": "custom-content-admitted-with-customization-disallowed",
                      "detail": {"site": case.get("site"), "has_custom": o.get("strict_hc"), "is_object": o.get("strict_is_obj")}})
    if "default_ok" in o:
        sig_s = [o["strict_ok"], (o.get("strict_err") or "").split(":")[0], o.get("strict_hc")]
        sig_d = [o["default_ok"], (o.get("default_err") or "").split(":")[0], o.get("default_hc")]
        if sig_s != sig_d:
            fails.append({"kind": "customization-not-mentioned-differs-from-customization-disallowed",
                          "detail": {"site": case.get("site"), "allow_custom=False": sig_s, "argument not given": sig_d,
                                     "order": "accepted, error, has_custom"}})
    if o["strict_ok"] and o.get("strict_is_obj") and o.get("strict_hc"):
        if not case.get("custom") and not case.get("requested"):
            fails.append({"kind": "strictly-made-object-flagged-custom", "detail": {"site": case.get("site")}})
    if o.get("allow_ok") and o.get("allow_is_obj") and o.get("ser_ok"):
        refused = not o["reparse_ok"]
        if o["hc"] and not refused:
            fails.append({"kind": "flag-true-but-strict-reparse-accepts", "detail": {"site": case.get("site"), "text": o["text"][:600]}})
        if (not o["hc"]) and refused:
            fails.append({"kind": "flag-false-but-strict-reparse-refused",
                          "detail": {"site": case.get("site"), "error": o["reparse_err"], "text": o["text"][:600]}})
    return fails


if __name__ == "__main__":
    for line in sys.stdin:
        line = line.strip()
        if not line:
            continue
        case = json.loads(line)
        try:
            o = observe(case)
            o["fails"] = judge(case, o)
        except Exception as _oe:  # noqa: BLE001  (the oracle itself must not stop the check)
            o = {"strict_ok": False, "allow_ok": False, "fails": [{"kind": "oracle-could-not-evaluate-the-case",
                 "detail": {"error": type(_oe).__name__ + ": " + str(_oe)[:300]}}]}
        if not o["fails"]:
            o.pop("text", None)
        print(json.dumps(o))

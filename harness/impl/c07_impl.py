"""Implementation worker for C07 / C08 (data markings).

One JSON case per stdin line, one JSON result per line.  A case is

  {"build": {"how": "dict"|"parse"|"class", "version": "2.0"|"2.1", "cls": <class name>, "data": {...}},
   "kind": "c08", "selectors": [<str>, ...]}
  {"build": ..., "kind": "c07", "ops": [{"op": "add"|"remove"|"clear"|"set"|"get"|"is_marked",
        "marking": <str | [str] | null>, "marking_obj": bool, "selectors": <null | str | [str]>,
        "via": "fn"|"method", "inherited": b, "descendants": b, "marking_ref": b, "lang": b}, ...]}
  {"build": ..., "kind": "paths"}

Only public behaviour is observed: results of stix2.markings.* (and the same
named methods), construction / parse outcomes, exception class names.  The
object handed to the marking functions is described back to the harness as a
value tree (dump) built here by plain recursion over .items() -- not by
stix2.markings.utils.iterpath.  The clock is frozen.
"""
import collections.abc
import copy
import datetime as dt
import hashlib
import json
import os
import sys

import stix2
import stix2.base
import stix2.markings
import stix2.markings.utils
import stix2.properties
import stix2.utils
import stix2.versioning
from stix2 import v20, v21

FROZEN = dt.datetime(2020, 1, 1, 0, 0, 0, tzinfo=dt.timezone.utc)


def _frozen():
    return FROZEN


for _m in (stix2.versioning, stix2.utils, stix2.base):
    if hasattr(_m, "get_timestamp"):
        setattr(_m, "get_timestamp", _frozen)

TLP = {}
for _v, _mod in (("2.0", v20), ("2.1", v21)):
    for _n in ("TLP_WHITE", "TLP_GREEN", "TLP_AMBER", "TLP_RED"):
        _o = getattr(_mod, _n)
        TLP[(_v, _o.id)] = _o

# a statement marking definition, so that marking *objects* other than the TLP constants are passed too
STMT = "marking-definition--11111111-2222-4333-8444-555555555555"
TLP[("2.0", STMT)] = v20.MarkingDefinition(id=STMT, created="2020-01-01T00:00:00.000Z", definition_type="statement",
                                            definition=v20.StatementMarking(statement="s"))
TLP[("2.1", STMT)] = v21.MarkingDefinition(id=STMT, created="2020-01-01T00:00:00.000Z", definition_type="statement",
                                            definition=v21.StatementMarking(statement="s"))

KNOWN = {"InvalidSelectorError", "MarkingNotFoundError", "TypeNotVersionableError", "ObjectNotVersionableError",
         "RevokeError", "InvalidValueError"}


def exc_name(e):
    n = type(e).__name__
    return n if n in KNOWN else "Other:" + n


def dump(v):
    """The value tree as the model sees it (Model/Markings.v, mval)."""
    if v is None:
        return {"t": "null"}
    if isinstance(v, bool):
        return {"t": "bool", "v": v}
    if isinstance(v, int):
        return {"t": "int", "v": v}
    if isinstance(v, float):
        return {"t": "float", "v": repr(v)}
    if isinstance(v, str):
        return {"t": "str", "v": v}
    if isinstance(v, dt.datetime):
        return {"t": "time", "v": v.astimezone(dt.timezone.utc).strftime("%Y%m%dT%H%M%S.%f")}
    if isinstance(v, dict):
        return {"t": "dict", "m": [[_key(k), dump(x)] for k, x in v.items()]}
    if isinstance(v, collections.abc.Mapping):
        return {"t": "obj", "m": [[_key(k), dump(x)] for k, x in v.items()]}
    if isinstance(v, list):
        return {"t": "list", "l": [dump(x) for x in v]}
    return {"t": "other", "v": type(v).__name__}


def _key(k):
    if not isinstance(k, str):
        raise TypeError("non-string key")
    return k


def build(b, extra_gm=None):
    data = copy.deepcopy(b["data"])
    if extra_gm is not None:
        data["granular_markings"] = list(data.get("granular_markings", [])) + [extra_gm]
    how = b["how"]
    # the same container INSTANCE at two places (a Python caller may well build an object that way)
    for src, dst, as_obj in b.get("share", []):
        try:
            node = data
            for k in src[:-1]:
                node = node[k]
            val = node[src[-1]]
            if as_obj and how == "class":
                mod = v21 if b["version"] == "2.1" else v20
                val = getattr(mod, as_obj)(**val)
                node[src[-1]] = val
            node = data
            for k in dst[:-1]:
                node = node[k]
            if isinstance(node, list) and dst[-1] == len(node):
                node.append(val)
            else:
                node[dst[-1]] = val
        except (KeyError, IndexError, TypeError):
            pass
    if how == "dict":
        return data
    if how == "parse":
        return stix2.parse(data, allow_custom=True, version=b["version"])
    if how == "class":
        mod = v21 if b["version"] == "2.1" else v20
        return getattr(mod, b["cls"])(allow_custom=True, **data)
    raise ValueError(how)


def meta_of(obj):
    return {"kind": "obj" if isinstance(obj, stix2.base._STIXBase) else "dict",
            "v21": isinstance(obj, v21._STIXBase21) if isinstance(obj, stix2.base._STIXBase) else False}


MARKING_PROPS = ("object_marking_refs", "granular_markings")


def state_of(obj):
    """Marking state and a digest of everything else."""
    omr = obj.get("object_marking_refs") if "object_marking_refs" in obj else None
    gms = None
    if "granular_markings" in obj:
        gms = []
        for g in obj["granular_markings"]:
            extra = sorted(k for k in g.keys() if k not in ("selectors", "marking_ref", "lang"))
            gms.append({"ref": g.get("marking_ref") or "", "lang": g.get("lang") or "",
                        "sels": list(g.get("selectors", [])), "extra": extra})
    # non-marking content; a None-valued key of a plain dict counts as absent (new_version drops it)
    rest = [[k, dump(v)] for k, v in obj.items() if k not in MARKING_PROPS and k != "modified" and v is not None]
    rest.sort(key=lambda kv: kv[0])
    digest = hashlib.sha1(json.dumps(rest, sort_keys=True).encode()).hexdigest()[:16]
    mod = obj.get("modified")
    if isinstance(mod, dt.datetime):
        mod = stix2.utils.format_datetime(mod) if False else mod.astimezone(dt.timezone.utc).strftime("%Y%m%dT%H%M%S.%f")
        mod_kind = "time"
    else:
        mod_kind = "str" if isinstance(mod, str) else ("none" if mod is None else "other")
    mod_us = None
    try:
        m0 = obj.get("modified")
        if m0 is not None:
            d0 = m0 if isinstance(m0, dt.datetime) else stix2.utils.parse_into_datetime(m0)
            mod_us = int((d0 - dt.datetime(1970, 1, 1, tzinfo=dt.timezone.utc)) / dt.timedelta(microseconds=1))
    except Exception:  # noqa: BLE001
        mod_us = None
    return {"omr": None if omr is None else list(omr), "gms": gms, "modified_us": mod_us,
            "keys": sorted(k for k in obj.keys() if k not in MARKING_PROPS),
            "digest": digest, "modified": mod, "modified_kind": mod_kind}


def marking_arg(op, version):
    m = op.get("marking")
    if op.get("marking_obj"):
        conv = lambda x: TLP.get((version, x), x)
        if isinstance(m, list):
            return [conv(x) for x in m]
        if isinstance(m, str):
            return conv(m)
    return copy.deepcopy(m)


def call(obj, op, version):
    name = op["op"]
    via_method = op.get("via") == "method" and isinstance(obj, stix2.base._STIXBase) and hasattr(obj, "get_markings")
    sel = copy.deepcopy(op.get("selectors"))
    if op.get("selectors_tuple") and isinstance(sel, list):
        sel = tuple(sel)                      # an empty / non-list sequence given as `selectors`
    M = stix2.markings

    def f(fname, *args, **kw):
        if via_method:
            return getattr(obj, fname)(*args, **kw)
        return getattr(M, fname)(obj, *args, **kw)

    if op.get("kw"):
        # the same calls with every argument after the first given by keyword
        if name == "add":
            return f("add_markings", marking=marking_arg(op, version), selectors=sel)
        if name == "remove":
            return f("remove_markings", marking=marking_arg(op, version), selectors=sel)
        if name == "clear":
            return f("clear_markings", selectors=sel, marking_ref=op.get("marking_ref", True), lang=op.get("lang", True))
        if name == "set":
            return f("set_markings", marking=marking_arg(op, version), selectors=sel,
                     marking_ref=op.get("marking_ref", True), lang=op.get("lang", True))
        if name == "get":
            return f("get_markings", selectors=sel, inherited=op.get("inherited", False),
                     descendants=op.get("descendants", False), marking_ref=op.get("marking_ref", True), lang=op.get("lang", True))
        if name == "is_marked":
            return f("is_marked", marking=marking_arg(op, version), selectors=sel, inherited=op.get("inherited", False),
                     descendants=op.get("descendants", False))
    if name == "add":
        return f("add_markings", marking_arg(op, version), sel)
    if name == "remove":
        return f("remove_markings", marking_arg(op, version), sel)
    if name == "clear":
        return f("clear_markings", sel, op.get("marking_ref", True), op.get("lang", True))
    if name == "set":
        return f("set_markings", marking_arg(op, version), sel, op.get("marking_ref", True), op.get("lang", True))
    if name == "get":
        return f("get_markings", sel, op.get("inherited", False), op.get("descendants", False),
                 op.get("marking_ref", True), op.get("lang", True))
    if name == "is_marked":
        return f("is_marked", marking_arg(op, version), sel, op.get("inherited", False), op.get("descendants", False))
    raise ValueError(name)


MUTATORS = ("add", "remove", "clear", "set")


def run_c07(obj, case):
    version = case["build"]["version"]
    out = []
    for op in case["ops"]:
        try:
            r = call(obj, op, version)
        except Exception as e:  # noqa: BLE001 - every escape is an observation
            out.append({"err": exc_name(e)})
            continue
        if op["op"] in MUTATORS:
            st = state_of(r)
            st["same_object"] = r is obj
            st["class_kept"] = type(r) is type(obj)
            out.append({"state": st})
            obj = r
        elif op["op"] == "get":
            if not isinstance(r, list) or not all(isinstance(x, str) for x in r):
                out.append({"err": "Other:get_markings returned %r" % type(r).__name__})
            else:
                out.append({"set": sorted(set(r)), "n": len(r)})
        else:
            out.append({"bool": r if isinstance(r, bool) else "Other:%r" % (r,)})
    return out


def outcome(f):
    try:
        f()
        return "ok"
    except Exception as e:  # noqa: BLE001
        return exc_name(e)


def run_c08(obj, case):
    M = stix2.markings
    red = "marking-definition--5e57c739-391a-4eb3-b6be-7d15ca92d5ed"
    is_obj = isinstance(obj, stix2.base._STIXBase)
    has_methods = is_obj and hasattr(obj, "get_markings")     # 2.1 observables carry markings but not the methods
    out = []
    for sel in case["selectors"]:
        r = {}
        # a selector is given as a str (passed as such to the functions) or as a list of str
        sel_list = sel if isinstance(sel, list) else [sel]
        r["validate"] = outcome(lambda: stix2.markings.utils.validate(obj, sel_list))
        fns = {
            "get": (lambda: M.get_markings(obj, sel), lambda: obj.get_markings(sel)),
            "is_marked": (lambda: M.is_marked(obj, None, sel), lambda: obj.is_marked(None, sel)),
            "add": (lambda: M.add_markings(obj, red, sel), lambda: obj.add_markings(red, sel)),
            "remove": (lambda: M.remove_markings(obj, red, sel), lambda: obj.remove_markings(red, sel)),
            "clear": (lambda: M.clear_markings(obj, sel), lambda: obj.clear_markings(sel)),
            "set": (lambda: M.set_markings(obj, red, sel), lambda: obj.set_markings(red, sel)),
        }
        for name, (fn, meth) in fns.items():
            a = outcome(fn)
            if has_methods:
                b = outcome(meth)
                if a != b:
                    a = "fn=%s/method=%s" % (a, b)
            r[name] = a
        omr0 = obj.get("object_marking_refs") if "object_marking_refs" in obj else None
        m0 = omr0[0] if omr0 else None
        for name, fn, meth in (
                ("is_marked_inh", lambda: M.is_marked(obj, m0, sel, True, True), lambda: obj.is_marked(m0, sel, True, True)),
                ("get_inh", lambda: M.get_markings(obj, sel, True, True), lambda: obj.get_markings(sel, True, True))):
            a = outcome(fn)
            if has_methods:
                b = outcome(meth)
                if a != b:
                    a = "fn=%s/method=%s" % (a, b)
            r[name] = a
        if is_obj:
            gm = {"selectors": sel_list, "marking_ref": red}
            r["ctor"] = outcome(lambda: build(case["build"], gm))
            # the other construction route must agree
            other = dict(case["build"])
            if other["how"] == "class":
                other["how"] = "parse"
                if "type" in other["data"]:
                    o2 = outcome(lambda: build(other, gm))
                    if o2 != r["ctor"]:
                        r["ctor"] = "class=%s/parse=%s" % (r["ctor"], o2)
            # the same with a language marking instead of a marking_ref
            gl = {"selectors": sel_list, "lang": "en"}
            r["ctor_lang"] = outcome(lambda: build(case["build"], gl))
            if case["build"]["how"] == "class" and "type" in case["build"]["data"]:
                o3 = outcome(lambda: build(other, gl))
                if o3 != r["ctor_lang"]:
                    r["ctor_lang"] = "class=%s/parse=%s" % (r["ctor_lang"], o3)
        else:
            r["ctor"] = "n/a"
            r["ctor_lang"] = "n/a"
        out.append(r)
    return out


def main():
    if "--alt-env" in sys.argv and not os.environ.get("C07_ALT_ENV"):
        # the same cases in another process environment: non-UTC POSIX zone, another hash seed
        os.environ.update({"C07_ALT_ENV": "1", "TZ": "JST-9", "PYTHONHASHSEED": "7"})
        os.execv(sys.executable, [sys.executable] + sys.argv)
    if os.environ.get("C07_ALT_ENV"):
        import time
        time.tzset()
        sys.setrecursionlimit(700)
    for line in sys.stdin:
        line = line.strip()
        if not line:
            continue
        case = json.loads(line)
        res = {}
        if case.get("kind") == "digits":
            # every code point that SELECTOR_REGEX accepts as the index between brackets, as ranges
            prop = stix2.properties.SelectorProperty()
            rs = []
            for c in range(0x110000):
                try:
                    prop.clean("abc.[" + chr(c) + "]")
                except ValueError:
                    continue
                if rs and rs[-1][1] == c - 1:
                    rs[-1][1] = c
                else:
                    rs.append([c, c])
            print(json.dumps({"digits": ",".join("%d-%d" % (a, b) for a, b in rs)}))
            continue
        if case.get("kind") == "syntax":
            # SelectorProperty.clean on each string: does the selector syntax admit it?
            prop = stix2.properties.SelectorProperty()
            out = []
            for s in case["strings"]:
                try:
                    prop.clean(s)
                    out.append(True)
                except ValueError:
                    out.append(False)
                except Exception as e:  # noqa: BLE001
                    out.append("Other:" + type(e).__name__)
            print(json.dumps({"syntax": out}))
            continue
        try:
            obj = build(case["build"])
        except Exception as e:  # noqa: BLE001
            print(json.dumps({"build_error": type(e).__name__ + ": " + str(e)[:200]}))
            continue
        try:
            res["tree"] = dump(obj)
            res["meta"] = meta_of(obj)
            res["state0"] = state_of(obj)
            if case["kind"] == "c07":
                res["results"] = run_c07(obj, case)
            elif case["kind"] == "c08":
                res["results"] = run_c08(obj, case)
                res["iterpath"] = sorted(".".join(p) for p, _ in stix2.markings.utils.iterpath(obj))
            elif case["kind"] == "paths":
                res["iterpath"] = sorted(".".join(p) for p, _ in stix2.markings.utils.iterpath(obj))
        except Exception as e:  # noqa: BLE001
            res = {"worker_error": type(e).__name__ + ": " + str(e)[:300]}
        print(json.dumps(res))


if __name__ == "__main__":
    main()

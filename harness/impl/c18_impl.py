"""Implementation side of C18 (composite source, navigation, Environment).

The driver is shared with C11: harness/impl/c11_impl.py builds sources from a
source expression (`build_src`: MemorySource / MemoryStore / FileSystemSource /
FileSystemStore / CompositeDataSource, nested / Environment) and runs the reads
(`run_c18`: get, all_versions, query, relationships, related_to, creator_of)
through the public API only.  One JSON case per stdin line, one JSON result per
line; cases with "kind": "c11" (the variant witnesses) are served too."""
import os
import sys

sys.path.insert(0, os.path.dirname(os.path.abspath(__file__)))
import c11_impl  # noqa: E402

if __name__ == "__main__":
    c11_impl.main()

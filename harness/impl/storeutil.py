"""Timestamp helpers shared by the C11/C18 generator, oracle and implementation
worker.  Independent of stix2 (CPython datetime only)."""
import datetime as _dt
import re

_EPOCH = _dt.datetime(1970, 1, 1)
_TS_RE = re.compile(r"^(\d{4})-(\d{2})-(\d{2})T(\d{2}):(\d{2}):(\d{2})(?:\.(\d{1,6}))?Z$")


def us_to_parts(us):
    d = _EPOCH + _dt.timedelta(microseconds=us)
    return [d.year, d.month, d.day, d.hour, d.minute, d.second, d.microsecond]


def ts_text(us, style):
    """Spell the instant `us` (microseconds since the epoch, UTC).
    style: 'min' (no trailing zeros, no point when whole), 'ms' (at least 3
    digits, then no trailing zeros), 'd3' (exactly 3 if possible else as 'ms'),
    'd6' (6 digits)."""
    y, mo, d, h, mi, s, frac = us_to_parts(us)
    base = "%04d-%02d-%02dT%02d:%02d:%02d" % (y, mo, d, h, mi, s)
    f6 = "%06d" % frac
    if style == "min":
        f = f6.rstrip("0")
    elif style in ("ms", "d3"):
        f = f6[:3] + f6[3:].rstrip("0")
    elif style == "d6":
        f = f6
    else:
        raise ValueError(style)
    return base + ("." + f if f else "") + "Z"


def parse_ts(text):
    """Instant of a timestamp text in the spellings the generator uses; None
    if it is not one."""
    m = _TS_RE.match(text) if isinstance(text, str) else None
    if not m:
        return None
    y, mo, d, h, mi, s = (int(m.group(i)) for i in range(1, 7))
    frac = (m.group(7) or "").ljust(6, "0")
    try:
        base = _dt.datetime(y, mo, d, h, mi, s)
    except ValueError:
        return None
    delta = base - _EPOCH
    return (delta.days * 86400 + delta.seconds) * 1000000 + int(frac or "0")


def dt_to_us(d):
    """Instant of a datetime object (aware or naive-as-UTC)."""
    if d.tzinfo is not None and d.tzinfo.utcoffset(d) is not None:
        d = (d - d.utcoffset()).replace(tzinfo=None)
    else:
        d = d.replace(tzinfo=None)
    delta = d - _EPOCH
    return (delta.days * 86400 + delta.seconds) * 1000000 + delta.microseconds

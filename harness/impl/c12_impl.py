"""Implementation side of C12.  One JSON case per line = one population and a
batch of queries.  Builds, through the public API only,

  mo  MemorySource over objects parsed beforehand with stix2.parse
  md  MemorySource given the plain dictionaries
  fs  FileSystemSource over a directory written by FileSystemSink
  c2  CompositeDataSource [MemorySource(first k), FileSystemSource(rest)]

and answers every query on each route.  Filters reach a source as query
argument (`q`), attached (`att`, source.filters.add) or passed down by a
CompositeDataSource (`comp`, attached to a composite wrapped round the
source).  Results are rendered as `OK id|version;...` / `EXC <class>` in the
same text form the Gallina model prints.

Value encoding (objects and filter values): JSON, with {"$f": k} for the float
k/1024, {"$t": us} for an aware UTC datetime (microseconds since the epoch) and {"$tz": [us, minutes]}
for the same instant as an aware datetime of the zone UTC+minutes.
"""
import datetime as dt
import hashlib
import json
import os
import shutil
import sys
import tempfile

import pytz

import stix2
from stix2 import CompositeDataSource, FileSystemSink, FileSystemSource, Filter, MemorySource
from stix2.datastore.filters import FilterSet

EPOCH = dt.datetime(1970, 1, 1, tzinfo=pytz.utc)


def dec(x):
    if isinstance(x, dict):
        if len(x) == 1 and "$f" in x:
            return x["$f"] / 1024.0
        if len(x) == 1 and "$t" in x:
            return EPOCH + dt.timedelta(microseconds=x["$t"])
        if len(x) == 1 and "$tz" in x:      # the same instant, written as an aware datetime of another zone
            return (EPOCH + dt.timedelta(microseconds=x["$tz"][0])).astimezone(dt.timezone(dt.timedelta(minutes=x["$tz"][1])))
        return {k: dec(v) for k, v in x.items()}
    if isinstance(x, list):
        return [dec(v) for v in x]
    return x


def us_of(d):
    delta = d - EPOCH
    return (delta.days * 86400 + delta.seconds) * 1000000 + delta.microseconds


def canon(x):
    """What the store holds, kind by kind (a STIXdatetime is not a string)."""
    if isinstance(x, dt.datetime):
        return {"$t": us_of(x)}
    if isinstance(x, bool) or x is None or isinstance(x, (int, str)):
        return x
    if isinstance(x, float):
        k = x * 1024
        return {"$f": int(k)} if k == int(k) else {"$float": repr(x)}
    if isinstance(x, (list, tuple)):
        return [canon(v) for v in x]
    if hasattr(x, "keys"):
        return {k: canon(x[k]) for k in x.keys()}
    return {"$other": type(x).__name__}


def esc(s):
    out = []
    for ch in s:
        c = ord(ch)
        out.append(ch if 32 <= c <= 126 and ch not in '\\"' else "\\%06X" % c)
    return "".join(out)


def show_part(x):
    if x is None:
        return "-"
    if isinstance(x, dt.datetime):
        return "t%d" % us_of(x)
    if isinstance(x, str):
        return "s" + esc(x)
    return "?"


def show_key(o):
    return show_part(o["id"] if "id" in o else None) + "|" + show_part(o["modified"] if "modified" in o else None)


def render(fn):
    try:
        r = fn()
    except Exception as e:  # noqa: BLE001 -- the class name is the observation
        return "EXC " + type(e).__name__
    if r is None:
        return "NONE"
    if isinstance(r, list):
        return "OK " + "".join(show_key(o) + ";" for o in r)
    return "ONE " + show_key(r)


def mk_filters(fl):
    return [Filter(f["p"], f["op"], dec(f["v"])) for f in fl]


def digest(objs):
    items = sorted(json.dumps(canon(o), sort_keys=True) for o in objs)
    return hashlib.sha1("\n".join(items).encode()).hexdigest()


def make_qarg(spec):
    """The query argument of one spec, built ONCE and handed to every route in turn (a caller may well reuse its
    query object): a list of filters, a bare Filter, None, or -- spec["fset"] -- a FilterSet object."""
    q = mk_filters(spec["q"])
    if spec.get("fset"):
        fs_ = FilterSet(q)
        return fs_, list(fs_)          # (FilterSet drops repeated filters on construction)
    if spec.get("bare") and len(q) == 1:
        return q[0], q
    if spec.get("none") and not q:
        return None, q
    return q, q


def qarg_changed(qarg, q):
    """Has a query() altered the caller's query object?"""
    try:
        if isinstance(qarg, FilterSet):
            return list(qarg) != list(q)
        if isinstance(qarg, list):
            return qarg != list(q) or len(qarg) != len(q)
    except Exception:  # noqa: BLE001
        return True
    return False


def run_query(src, spec, qarg, members=None):
    """members: the sources the attached filters go to (default: src itself); the second member gets spec["att2"]
    when that is given."""
    try:
        att, comp = mk_filters(spec["att"]), mk_filters(spec["comp"])
        att2 = mk_filters(spec["att2"]) if "att2" in spec else att
    except Exception as e:  # noqa: BLE001
        return "CONSTRUCT " + type(e).__name__
    targets = members if members is not None else [src]
    for i, t in enumerate(targets):
        t.filters = FilterSet()
        a = att2 if (members is not None and i == 1) else att
        if a:
            t.filters.add(a)
    if members is not None:
        src.filters = FilterSet()
        if comp:
            src.filters.add(comp)
        top = src
    elif spec.get("wrap") or comp:
        top = CompositeDataSource()
        top.add_data_sources([src])
        if comp:
            top.filters.add(comp)
    else:
        top = src
    out = render((lambda: top.query(query=qarg)) if spec.get("kw") else (lambda: top.query(qarg)))
    for t in targets:
        t.filters = FilterSet()
    return out


def run_get(src, spec, members=None, composite=False):
    """get / all_versions of spec["id"].  `att` is attached to the source (or to each of `members`);
    with composite=True the source is wrapped in a CompositeDataSource that carries `comp`
    (members given: src is that composite already)."""
    try:
        att = mk_filters(spec["att"])
        comp = mk_filters(spec.get("comp", []))
    except Exception as e:  # noqa: BLE001
        return ["CONSTRUCT " + type(e).__name__] * 2
    targets = members if members is not None else [src]
    for t in targets:
        t.filters = FilterSet()
        if att:
            t.filters.add(att)
    if members is not None:
        top = src
        top.filters = FilterSet()
        if comp:
            top.filters.add(comp)
    elif composite:
        top = CompositeDataSource()
        top.add_data_sources([src])
        if comp:
            top.filters.add(comp)
    else:
        top = src
    a = render(lambda: top.get(spec["id"]))
    b = render(lambda: top.all_versions(spec["id"]))
    for t in targets:
        t.filters = FilterSet()
    if members is not None:
        src.filters = FilterSet()
    return [a, b]


def fill_fs(path, dicts):
    sink = FileSystemSink(path, allow_custom=True)
    refused = []
    for i, d in enumerate(dicts):
        try:
            sink.add(d)
        except Exception as e:  # noqa: BLE001
            refused.append([i, type(e).__name__])
    return refused


def instant_us(x):
    """Microseconds since the epoch of a `modified` value (datetime or timestamp text); None if it is neither."""
    try:
        d = stix2.utils.parse_into_datetime(x)
        if d.tzinfo is None:
            d = pytz.utc.localize(d)
        return us_of(d)
    except Exception:  # noqa: BLE001
        return None


def listing(root, dicts, offset, index_of=None):
    """os.listdir order of a FileSystemSink tree -- the order FileSystemSource meets directories and files in:
    [[type dir, [[entry name, None | [[version file name, index of that object in the population], ...]], ...]], ...]"""
    by_key = {}
    for i, d in enumerate(dicts):
        if "modified" in d:
            by_key[(d.get("id"), instant_us(d["modified"]))] = (index_of[i] if index_of is not None else i + offset)
    out = []
    for tdir in os.listdir(root):
        tp = os.path.join(root, tdir)
        if not os.path.isdir(tp):
            continue
        ents = []
        for e in os.listdir(tp):
            ep = os.path.join(tp, e)
            if os.path.isdir(ep):
                files = []
                for f in os.listdir(ep):
                    try:
                        with open(os.path.join(ep, f), encoding="utf-8") as fh:
                            o = json.load(fh)
                        idx = by_key.get((o.get("id"), instant_us(o.get("modified"))))
                    except Exception:  # noqa: BLE001
                        idx = None
                    files.append([f, idx])
                ents.append([e, files])
            else:
                ents.append([e, None])
        out.append([tdir, ents])
    return out


def run_grow(case, tmp):
    """One FileSystemStore and one MemoryStore that live through a history: objects are added in steps, and after
    every step the SAME store objects answer the same queries (a store must not remember anything about a
    directory that an add can make untrue)."""
    g = case.get("grow")
    if not g:
        return None
    order = g["order"]
    dicts = [dec(case["pop"][i]) for i in order]
    d3 = os.path.join(tmp, "grow")
    os.mkdir(d3)
    fstore = stix2.FileSystemStore(d3, allow_custom=True)
    mstore = stix2.MemoryStore(allow_custom=True)
    steps, prev = [], 0
    for n in g["steps"]:
        refused = []
        for j in range(prev, n):
            for name, st in (("fs", fstore), ("mem", mstore)):
                try:
                    st.add(dict(dicts[j]))
                except Exception as e:  # noqa: BLE001
                    refused.append([name, order[j], type(e).__name__])
        prev = n
        answers = []
        for spec in g["queries"]:
            try:
                qarg, q = make_qarg(spec)
            except Exception as e:  # noqa: BLE001
                line = "CONSTRUCT " + type(e).__name__
                answers.append({"mem": line, "fs": line, "qarg_changed": False})
                continue
            a = {"mem": render(lambda: mstore.query(qarg)), "fs": render(lambda: fstore.query(qarg))}
            a["qarg_changed"] = qarg_changed(qarg, q)
            answers.append(a)
        steps.append({"n": n, "refused": refused, "listing": listing(d3, dicts[:n], 0, index_of=order[:n]), "queries": answers})
    return steps


def make_symlinks(root, side, spec):
    """Replace entries of a FileSystemSink tree by symbolic links to the same content kept elsewhere:
    spec = {"types": [type], "ids": [[type, id]], "files": [[type, id]]} (a STIX directory may well be assembled
    from links; os.stat / open follow them).  Returns what was linked."""
    done = []
    os.makedirs(side, exist_ok=True)

    def link(path, tag):
        if not os.path.lexists(path) or os.path.islink(path):
            return
        keep = os.path.join(side, "%d-%s" % (len(done), os.path.basename(path)))
        os.rename(path, keep)
        os.symlink(keep, path)
        done.append(tag)

    for t, i in spec.get("files", []):
        link(os.path.join(root, t, i + ".json"), ["file", t, i])
    for t, i in spec.get("ids", []):
        link(os.path.join(root, t, i), ["id", t, i])
    for t in spec.get("types", []):
        link(os.path.join(root, t), ["type", t])
    return done


def handle(case):
    dicts = [dec(o) for o in case["pop"]]
    k = case.get("split", 0)
    tmp = tempfile.mkdtemp(prefix="c12fs", dir=os.getcwd())
    try:
        res = {"build": {}}
        try:
            objs = [stix2.parse(d, allow_custom=True) for d in dicts]
            res["build"]["parsed_kinds"] = ["obj" if isinstance(o, stix2.base._STIXBase) else "dict" for o in objs]
            mo = MemorySource(stix_data=objs, allow_custom=True) if objs else MemorySource(allow_custom=True)
            md = MemorySource(stix_data=[dict(d) for d in dicts], allow_custom=True) if dicts else MemorySource(allow_custom=True)
            d1 = os.path.join(tmp, "all")
            d2 = os.path.join(tmp, "part")
            os.mkdir(d1)
            os.mkdir(d2)
            res["build"]["fs_refused"] = fill_fs(d1, dicts)
            res["build"]["fs2_refused"] = fill_fs(d2, dicts[k:])
            if case.get("symlinks"):
                res["build"]["symlinked"] = make_symlinks(d1, os.path.join(tmp, "kept"), case["symlinks"])
            res["listing"] = {"all": listing(d1, dicts, 0), "part": listing(d2, dicts[k:], k)}
            fs = FileSystemSource(d1, allow_custom=True)
            ma = MemorySource(stix_data=[dict(d) for d in dicts[:k]], allow_custom=True) if dicts[:k] else MemorySource(allow_custom=True)
            fb = FileSystemSource(d2, allow_custom=True)
            c2 = CompositeDataSource()
            c2.add_data_sources([ma, fb])
        except Exception as e:  # noqa: BLE001
            res["build"]["error"] = "%s: %s" % (type(e).__name__, e)
            return res
        # echo: what the stores hold, canonicalised
        echo = {}
        for name, src in (("mo", mo), ("md", md), ("fs", fs)):
            try:
                got = src.query()
                echo[name] = digest(got)
                if case.get("echo_full") or name == "fs":
                    echo[name + "_full"] = [canon(o) for o in got]
            except Exception as e:  # noqa: BLE001
                echo[name] = "EXC " + type(e).__name__
        res["echo"] = echo
        out = []
        for spec in case["queries"]:
            try:
                qarg, q = make_qarg(spec)
            except Exception as e:  # noqa: BLE001
                line = "CONSTRUCT " + type(e).__name__
                out.append({"mo": line, "md": line, "fs": line, "c2": line, "qarg_changed": False})
                continue
            r = {"mo": run_query(mo, spec, qarg), "md": run_query(md, spec, qarg), "fs": run_query(fs, spec, qarg),
                 "c2": run_query(c2, spec, qarg, members=[ma, fb])}
            r["qarg_changed"] = qarg_changed(qarg, q)
            out.append(r)
        res["queries"] = out
        res["grow"] = run_grow(case, tmp)
        res["gets"] = [{"mo": run_get(mo, g), "fs": run_get(fs, g),
                        "cmo": run_get(mo, g, composite=True), "cfs": run_get(fs, g, composite=True),
                        "c2": run_get(c2, g, members=[ma, fb])} for g in case.get("gets", [])]
        res["filter_ops"] = list(stix2.datastore.filters.FILTER_OPS)
        # the same questions once more, after everything else has been asked (gets are asked below, the growing
        # stores above): a source must give the same answer
        again = []
        for spec in case["queries"]:
            try:
                qarg, q = make_qarg(spec)
            except Exception as e:  # noqa: BLE001
                line = "CONSTRUCT " + type(e).__name__
                again.append({"mo": line, "fs": line})
                continue
            again.append({"mo": run_query(mo, spec, qarg), "fs": run_query(fs, spec, qarg)})
        res["queries_again"] = again
        return res
    finally:
        shutil.rmtree(tmp, ignore_errors=True)


if os.environ.get("TZ"):
    import time
    time.tzset()

for line in sys.stdin:
    line = line.strip()
    if line:
        print(json.dumps(handle(json.loads(line))))

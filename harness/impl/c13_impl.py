"""Implementation side of C13 (no mutation of arguments / existing objects).

One JSON case per stdin line: {"ops": [op, ...]}.  The worker keeps an
environment `env` (one entry per op, the op's result or None), and for every
op records
  exc     exception class name or None
  mut     which EARLIER env entries changed (deep value / serialize()) -- the
          property's first sentence evaluated on the real code
  shared  names of mutable containers that existed before the op and are
          reachable from its result (aliasing, compared with the model)
  extra   op specific facts (deep copy: equal / unshared; refusals)

Only public behaviour is used, plus `id()` of containers reached through
`_inner` (the mapping a _STIXBase wraps) for the aliasing report.
"""
import copy
import datetime as dt
import json
import os
import resource
import shutil
import signal
import sys
import tempfile
import warnings

warnings.simplefilter("ignore")

import stix2  # noqa: E402
from stix2 import markings as M  # noqa: E402
from stix2.base import _STIXBase  # noqa: E402
from stix2.markings import granular_markings as GM  # noqa: E402
from stix2.markings import object_markings as OM  # noqa: E402
from stix2.markings import utils as MU  # noqa: E402
import stix2.parsing  # noqa: E402
import stix2.versioning  # noqa: E402

STORE_TYPES = (stix2.MemoryStore, stix2.MemorySink, stix2.MemorySource, stix2.FileSystemStore,
               stix2.FileSystemSink, stix2.FileSystemSource, stix2.Environment, stix2.ObjectFactory,
               stix2.CompositeDataSource)

_TMPDIRS = []


# --------------------------------------------------------------------------
# caller-side data

def build(t, env):
    """Decode the case encoding of a caller-built value."""
    if isinstance(t, list):
        return [build(x, env) for x in t]
    if isinstance(t, dict):
        if "$d" in t:
            return {k: build(v, env) for k, v in t["$d"]}
        if "$r" in t:
            return env[t["$r"]]
        if "$f" in t:
            return float(t["$f"])
        if "$dt" in t:
            return dt.datetime.fromtimestamp(t["$dt"] / 1e6, tz=dt.timezone.utc)
        if "$dtz" in t:
            return build_dt(t["$dtz"])
        if "$tuple" in t:
            return tuple(build(x, env) for x in t["$tuple"])
        raise ValueError("bad tree node %r" % (t,))
    return t


CUSTOM = {}
WATCHED = {}


def snap_watched():
    """registration-time arguments: lists of names / of (name, Property) pairs"""
    out = {}
    for k, v in WATCHED.items():
        out[k] = json.dumps([[x[0], type(x[1]).__name__] if isinstance(x, tuple) else x for x in v], default=str)
    # class-level tables of every registered class (property names in order, id-contributing properties)
    import stix2.registry as R
    for ver, cats in R.STIX2_OBJ_MAPS.items():
        for cat in ("objects", "observables", "extensions"):
            for ty, cls in cats[cat].items():
                out["class:%s/%s/%s" % (ver, cat, ty)] = json.dumps(
                    [list(cls._properties), list(getattr(cls, "_id_contributing_properties", []) or [])], default=str)
    return out
CUSTOM_EXT_CLASSES = []
CUSTOM_EXT = {
    "VerifObj": "extension-definition--0c9d6f0e-5a4b-4f7e-9d25-11a0c13c0001",
    "VerifObj2": "extension-definition--0c9d6f0e-5a4b-4f7e-9d25-11a0c13c0002",
    "VerifSco": "extension-definition--0c9d6f0e-5a4b-4f7e-9d25-11a0c13c0003",
}


def register_custom():
    """Custom types declared through the public decorators, with extension_name=
    (stix2/custom.py then inserts the type's own extension into the object's
    `extensions`), and one without.  Registered once per worker process; not
    part of the model's class tables (cases using them are snapshot-tested)."""
    if CUSTOM:
        return
    from stix2 import properties as P
    from stix2.v21 import CustomObject, CustomObservable

    def props():
        return [("name", P.StringProperty(required=True)), ("items", P.ListProperty(P.StringProperty)),
                ("meta", P.DictionaryProperty(spec_version="2.1"))]

    def watch(name, value):
        """containers handed to the library at REGISTRATION time are the caller's too"""
        WATCHED[name] = value
        return value

    @CustomObject("x-verif-obj", props(), extension_name=CUSTOM_EXT["VerifObj"])
    class VerifObj(object):
        pass

    @CustomObject("x-verif-obj2", props(), extension_name=CUSTOM_EXT["VerifObj2"])
    class VerifObj2(object):
        pass

    @CustomObservable("x-verif-sco", watch("VerifSco.properties", props()), watch("VerifSco.id_contrib_props", ["name"]),
                      extension_name=CUSTOM_EXT["VerifSco"])
    class VerifSco(object):
        pass

    # an observable type that carries the versioning properties (so that new_version applies to it)
    @CustomObservable("x-verif-vsco",
                      watch("VerifVSco.properties",
                            props() + [("created", P.TimestampProperty()), ("modified", P.TimestampProperty()),
                                       ("revoked", P.BooleanProperty(default=lambda: False))]),
                      watch("VerifVSco.id_contrib_props", ["name"]))
    class VerifVSco(object):
        pass

    @CustomObject("x-verif-plain", watch("VerifPlain.properties", props()))
    class VerifPlain(object):
        pass

    CUSTOM.update({"VerifObj": VerifObj, "VerifObj2": VerifObj2, "VerifSco": VerifSco, "VerifPlain": VerifPlain,
                   "VerifVSco": VerifVSco})
    import stix2.registry as R
    for ext_id in CUSTOM_EXT.values():
        CUSTOM_EXT_CLASSES.append(R.class_for_type(ext_id, "2.1", "extensions"))


def build_dt(d):
    """a datetime given by the caller: naive / UTC / fixed offset / a real zone (fold matters in the
    repeated hour), optionally as the library's STIXdatetime with a precision"""
    tz = d.get("tz")
    if tz is None:
        tzinfo = None
    elif tz == "UTC":
        tzinfo = dt.timezone.utc
    elif tz.startswith("fixed:"):
        tzinfo = dt.timezone(dt.timedelta(minutes=int(tz[6:])))
    else:
        import zoneinfo
        tzinfo = zoneinfo.ZoneInfo(tz)
    v = dt.datetime(*d["ymdhmsu"], tzinfo=tzinfo, fold=d.get("fold", 0))
    if d.get("stix"):
        from stix2.utils import STIXdatetime
        kw = {"precision": d["precision"]} if d.get("precision") else {}
        v = STIXdatetime(v, **kw)
    return v


def cls_of(name):
    mod, cn = name.split(".")
    if mod == "custom":
        register_custom()
        if cn in CUSTOM:
            return CUSTOM[cn]
        return [c for c in CUSTOM_EXT_CLASSES if c.__name__ == cn][0]
    m = getattr(stix2, mod)
    if hasattr(m, cn):
        return getattr(m, cn)
    for sub in ("common", "sdo", "sro", "observables", "bundle"):
        sm = getattr(m, sub, None)
        if sm is not None and hasattr(sm, cn):
            return getattr(sm, cn)
    raise AttributeError(name)


# --------------------------------------------------------------------------
# the class tables the model interprets (read from the live classes)

ATOM_PROPS = {"StringProperty", "TypeProperty", "IDProperty", "IntegerProperty", "FloatProperty", "BooleanProperty",
              "TimestampProperty", "BinaryProperty", "HexProperty", "ReferenceProperty", "SelectorProperty",
              "ObjectReferenceProperty", "EnumProperty", "OpenVocabProperty", "PatternProperty"}


class WorldError(Exception):
    pass


def cname(cls):
    if cls.__module__ == "stix2.custom" and (cls in CUSTOM.values() or cls in CUSTOM_EXT_CLASSES):
        return "custom." + cls.__name__          # the classes this worker registered itself
    parts = cls.__module__.split(".")
    if len(parts) < 2 or parts[0] != "stix2" or parts[1] not in ("v20", "v21"):
        raise WorldError("class outside stix2.v20/v21: %s.%s" % (cls.__module__, cls.__name__))
    return parts[1] + "." + cls.__name__


def kind_of(prop, todo):
    from stix2 import properties as P
    t = type(prop)
    n = t.__name__
    # the exact class decides: a subclass may override clean
    if t is P.Property or n == "MarkingProperty":
        return "P"
    if n in ATOM_PROPS and t.__module__ == "stix2.properties":
        return "A"
    if t is P.ListProperty:
        c = prop.contained
        if isinstance(c, P.Property):
            return ["L", kind_of(c, todo)]
        todo.append(c)
        return ["LO", cname(c)]
    if t is P.DictionaryProperty:
        return "D"
    if t is P.HashesProperty:
        return "H"
    if t is P.EmbeddedObjectProperty:
        todo.append(prop.type)
        return ["E", cname(prop.type)]
    if t is P.ExtensionsProperty:
        return ["X", prop.spec_version == "2.1"]
    if t is P.ObservableProperty:
        return ["O", prop.spec_version == "2.1"]
    if t is P.STIXObjectProperty:
        return "S"
    raise WorldError("property class not understood: %s.%s" % (t.__module__, n))


def default_of(name, prop):
    """the value `prop.default()` puts into the object: must be immutable"""
    from stix2.utils import NOW
    v = prop.default()
    if v is NOW:
        return ["now"]
    if name == "id" and isinstance(v, str):
        return ["id"]
    if isinstance(v, bool):
        return ["b", v]
    if isinstance(v, str):
        return ["s", v]
    if isinstance(v, int):
        return ["i", v]
    raise WorldError("default of %s is not an immutable value: %r" % (name, type(v)))


# classes whose own __init__ the model knows (Model/HeapOps.v construct, Model/HeapApi.v bundle):
# Bundle folds positional arguments into `objects`; MarkingDefinition turns a definition mapping
# into the marking object; 2.1 observables write the deterministic id; the others only move
# positional / derived immutable values into their own keyword dict.
KNOWN_INITS = {"Bundle", "MarkingDefinition", "StatementMarking", "Indicator", "ObservedData", "Relationship", "Sighting"}


def check_inits(classes):
    """fail closed on a class that overrides __init__ in a way the model has not been told about"""
    import stix2.base
    import stix2.v21.base
    # base._Observable.__init__ pops `_valid_refs` out of its own keyword dict (model: the object's _valid_refs field)
    inherited = {stix2.base._STIXBase.__init__, stix2.base._Observable.__init__, stix2.v21.base._Observable.__init__}
    for n in classes:
        cls = cls_of(n)
        init = cls.__init__
        if init in inherited:
            continue
        if cls.__name__ in KNOWN_INITS and init is vars(cls).get("__init__"):
            continue
        if n.startswith("custom.") and getattr(init, "__qualname__", "") in CUSTOM_BUILDER_INITS:
            # the builder's __init__: base constructor, the decorated class's own __init__ if it has
            # one (ours have none), then the extension step for classes with `with_extension`
            user = [b for b in cls.__mro__ if b.__module__ == __name__ or b.__module__ == "__main__"]
            if all("__init__" not in vars(b) for b in user):
                continue
        raise WorldError("class %s has an __init__ the heap model does not know" % n)


CUSTOM_BUILDER_INITS = {"_custom_object_builder.<locals>._CustomObject.__init__",
                        "_custom_observable_builder.<locals>._CustomObservable.__init__",
                        "_custom_extension_builder.<locals>._CustomExtension.__init__"}


def with_ext(classes):
    """custom classes declared with extension_name= (Model/HeapOps.v ext_step); fail closed
    unless stix2/custom.py still does what the model says and `extensions` is an ExtensionsProperty"""
    import inspect
    import stix2.custom
    from stix2 import properties as P
    out = []
    for n in sorted(classes):
        cls = cls_of(n)
        ext = getattr(cls, "with_extension", None)
        if not ext:
            continue
        if not isinstance(cls._properties.get("extensions"), P.ExtensionsProperty):
            raise WorldError("%s has with_extension but its 'extensions' is not an ExtensionsProperty" % n)
        out.append([n, ext])
    if out:
        for fn in (stix2.custom._custom_object_builder, stix2.custom._custom_observable_builder):
            src = inspect.getsource(fn)
            if "self._inner['extensions'][ext] = class_for_type(ext, version, \"extensions\")()" not in src or \
                    "_insert_in_property_order(self, 'extensions', {})" not in src:
                raise WorldError("stix2/custom.py no longer adds the extension the way the heap model says")
    return out


def keep_in_bundle(classes):
    """classes STIXObjectProperty.clean keeps without re-parsing (its own test, on the class)"""
    import inspect
    from stix2 import properties as P
    src = inspect.getsource(P.STIXObjectProperty.clean)
    if "stix2_classes = {'_DomainObject', '_RelationshipObject', 'MarkingDefinition'}" not in src:
        raise WorldError("STIXObjectProperty.clean no longer keeps exactly SDO / SRO / MarkingDefinition objects")
    keep = {"_DomainObject", "_RelationshipObject", "MarkingDefinition"}
    return sorted(n for n in classes if any(b.__name__ in keep for b in cls_of(n).__mro__))


def defn_classes():
    import inspect
    out = {}
    for ver in ("v20", "v21"):
        mod = getattr(stix2, ver).common
        md = mod.MarkingDefinition
        src = inspect.getsource(md.__init__)
        if "OBJ_MAP_MARKING[kwargs['definition_type']]" not in src or "marking_type(**defn)" not in src:
            raise WorldError("%s.MarkingDefinition.__init__ no longer builds the marking from OBJ_MAP_MARKING" % ver)
        out[cname(md)] = [[k, cname(c)] for k, c in mod.OBJ_MAP_MARKING.items()
                          if c.__module__.startswith("stix2.v2")]
    return out


def world():
    register_custom()
    import stix2.registry as R
    from stix2.v21.base import _Observable as Obs21
    classes, registry, det_id, defaults = {}, [], [], {}
    todo = []
    for ver, cats in R.STIX2_OBJ_MAPS.items():
        for cat in ("objects", "observables", "extensions"):
            for ty, cls in cats[cat].items():
                try:
                    registry.append(["%s/%s/%s" % (ver, cat, ty), cname(cls)])
                except WorldError:
                    continue      # classes registered by other code (custom); not part of the model world
                todo.append(cls)
    for extra in ("v20.TLPMarking", "v20.StatementMarking", "v21.TLPMarking", "v21.StatementMarking",
                  "v20.MarkingDefinition", "v21.MarkingDefinition"):
        todo.append(cls_of(extra))
    while todo:
        cls = todo.pop()
        n = cname(cls)
        if n in classes:
            continue
        classes[n] = [[pn, kind_of(p, todo)] for pn, p in cls._properties.items()]
        defaults[n] = [[pn, default_of(pn, p)] for pn, p in cls._properties.items() if hasattr(p, "default")]
        if issubclass(cls, Obs21):
            det_id.append(n)
    check_inits(classes)
    return {"classes": classes, "registry": registry, "det_id": sorted(det_id), "defaults": defaults,
            "defn_classes": defn_classes(), "with_ext": with_ext(classes), "keep_in_bundle": keep_in_bundle(classes),
            "observables": sorted(n for n in classes if issubclass(cls_of(n), stix2.base._Observable))}


# --------------------------------------------------------------------------
# deep values (snapshots)

def snap(x, depth=0):
    """Deep value with type tags; dict members sorted by key (value identity,
    not insertion order); library objects by class, wrapped mapping and
    serialize()."""
    if depth > 60:
        return ["deep"]
    if x is None or isinstance(x, (bool, int, str)):
        return [type(x).__name__, x]
    if isinstance(x, float):
        return ["float", x.hex()]
    if isinstance(x, dict):
        return ["d", sorted(([str(k), snap(v, depth + 1)] for k, v in x.items()), key=lambda kv: kv[0])]
    if isinstance(x, list):
        return ["l", [snap(v, depth + 1) for v in x]]
    if isinstance(x, tuple):
        return ["t", [snap(v, depth + 1) for v in x]]
    if isinstance(x, (set, frozenset)):
        return ["s", sorted(json.dumps(snap(v, depth + 1), sort_keys=True) for v in x)]
    if isinstance(x, _STIXBase):
        try:
            ser = x.serialize()
        except Exception as e:  # noqa: BLE001
            ser = "serialize raised " + type(e).__name__
        attrs = sorted(k for k in vars(x) if not k.startswith("_"))
        return ["o", type(x).__module__ + "." + type(x).__name__, snap(x._inner, depth + 1), ser,
                [[a, snap(vars(x)[a], depth + 1)] for a in attrs]]
    if isinstance(x, dt.datetime):
        return ["dt", x.isoformat(), x.fold, str(x.utcoffset()), type(x).__name__,
                str(getattr(x, "precision", None)), str(getattr(x, "precision_constraint", None))]
    if isinstance(x, (stix2.MemoryStore, stix2.MemorySink, stix2.MemorySource)):
        return ["mem", snap_memdata(x._data, depth + 1)]
    if isinstance(x, (stix2.FileSystemStore, stix2.FileSystemSink, stix2.FileSystemSource)):
        root = x.sink._stix_dir if isinstance(x, stix2.FileSystemStore) else x._stix_dir
        files = []
        for d, _, fs in sorted(os.walk(root)):
            for f in sorted(fs):
                p = os.path.join(d, f)
                files.append([os.path.relpath(p, root), open(p, encoding="utf-8").read()])
        return ["fs", files]
    if isinstance(x, stix2.ObjectFactory):
        return ["factory", snap(x._defaults, depth + 1), x._list_append]
    if isinstance(x, stix2.Environment):
        return ["env", snap(x.factory, depth + 1), snap(getattr(x, "sink", None), depth + 1)]
    if isinstance(x, stix2.datastore.filters.Filter):
        return ["filter", x.property, x.op, snap(x.value, depth + 1)]
    return ["x", type(x).__name__]


def snap_memdata(data, depth):
    out = []
    for k, v in data.items():
        if hasattr(v, "all_versions"):
            for m, o in v.all_versions.items():
                out.append([str(k), str(m), snap(o, depth + 1)])
        else:
            out.append([str(k), "", snap(v, depth + 1)])
    return sorted(out, key=lambda e: (e[0], e[1]))


# --------------------------------------------------------------------------
# identity of mutable containers

def walk(x, path, out, seen, full=False):
    """Collect (id, path) of every dict / list / set / library object reachable
    from x.  Library objects are entered through `_inner` (and `_valid_refs`);
    with full=True through every instance attribute."""
    if isinstance(x, dict):
        out.append((id(x), path, x))
        if id(x) in seen:
            return
        seen.add(id(x))
        for k, v in x.items():
            walk(v, path + "/" + str(k), out, seen, full)
    elif isinstance(x, (list, tuple)):
        if isinstance(x, list):
            out.append((id(x), path, x))
            if id(x) in seen:
                return
            seen.add(id(x))
        for i, v in enumerate(x):
            walk(v, path + "/" + str(i), out, seen, full)
    elif isinstance(x, set):
        out.append((id(x), path, x))
    elif isinstance(x, _STIXBase):
        out.append((id(x), path, x))
        if id(x) in seen:
            return
        seen.add(id(x))
        if full:
            for k, v in vars(x).items():
                walk(v, path + "/" + k, out, seen, full)
        else:
            walk(x._inner, path + "/_inner", out, seen, full)
            vr = vars(x).get("_STIXBase__valid_refs")
            if vr is not None:
                walk(vr, path + "/_valid_refs", out, seen, full)
    elif isinstance(x, stix2.ObjectFactory):
        out.append((id(x), path, x))
        walk(x._defaults, path + "/_defaults", out, seen, full)
    # stores are opaque: their private tables are not caller data


def names_before(env):
    """Canonical name of every container reachable from env: smallest env
    index, then smallest path string."""
    names = {}
    keep = []
    for i, e in enumerate(env):
        out = []
        walk(e, "", out, set())
        best = {}
        for ident, path, obj in out:
            if ident in names:
                continue
            if ident not in best or path < best[ident]:
                best[ident] = path
            keep.append(obj)
        for ident, path in best.items():
            names[ident] = "%d:%s" % (i, path)
    return names, keep


def shared_with(result, names):
    out = []
    walk(result, "", out, set())
    return sorted({names[i] for i, _, _ in out if i in names})


# --------------------------------------------------------------------------
# operations

def tmpdir():
    d = tempfile.mkdtemp(prefix="c13fs", dir=os.getcwd())
    _TMPDIRS.append(d)
    return d


def kw_of(env, op, key="kw"):
    i = op.get(key)
    return {} if i is None else env[i]


def backing(x, depth=0):
    """what a store-like object keeps its content in (identity of the table /
    directory): objects with a common backing legitimately change together"""
    out = set()
    if depth > 4:
        return out
    if isinstance(x, (stix2.MemoryStore, stix2.MemorySink, stix2.MemorySource)):
        out.add(("mem", id(x._data)))
    elif isinstance(x, stix2.FileSystemStore):
        out.add(("fs", os.path.realpath(x.sink._stix_dir)))
    elif isinstance(x, (stix2.FileSystemSink, stix2.FileSystemSource)):
        out.add(("fs", os.path.realpath(x._stix_dir)))
    elif isinstance(x, stix2.CompositeDataSource):
        for d in x.get_all_data_sources():
            out |= backing(d, depth + 1)
    elif isinstance(x, stix2.Environment):
        for a in ("sink", "source"):
            if getattr(x, a, None) is not None:
                out |= backing(getattr(x, a), depth + 1)
    return out


def sharing_store(env, target):
    b = backing(target)
    return tuple(i for i, x in enumerate(env) if x is not None and backing(x) & b)


def run_op(op, env, extra):
    """Returns (result, extra, exempt) -- exempt: env indices the operation is
    entitled to change (the store it stores into).  `extra` is filled in
    place so that it survives an exception."""
    o = op["op"]
    if o == "mk":
        return build(op["v"], env), extra, ()
    if o == "construct":
        cls = cls_of(op["cls"])
        kw = kw_of(env, op)
        opts = {}
        if "allow_custom" in op:
            opts["allow_custom"] = op["allow_custom"]
        return cls(**opts, **kw), extra, ()
    if o == "bundle":
        cls = cls_of(op["cls"])
        args = [env[i] for i in op.get("args", [])]
        kw = kw_of(env, op)
        return cls(*args, allow_custom=op.get("allow_custom", False), **kw), extra, ()
    if o == "parse":
        return stix2.parse(env[op["arg"]], allow_custom=op.get("allow_custom", False), version=op.get("version")), extra, ()
    if o == "parse_file":
        import io
        return stix2.parse(io.StringIO(json.dumps(env[op["arg"]], default=str)), allow_custom=op.get("allow_custom", False),
                           version=op.get("version")), extra, ()
    if o == "same_id":
        extra["same_id"] = env[op["arg"]]["id"] == env[op["other"]]["id"]
        return extra["same_id"], extra, ()
    if o == "bundle_dict":
        # a bundle given as a plain dict around caller-held members
        return {"type": "bundle", "id": op["id"], "objects": env[op["arg"]]}, extra, ()
    if o == "parse_text":
        text = json.dumps(env[op["arg"]], default=str)
        return stix2.parse(text, allow_custom=op.get("allow_custom", False), version=op.get("version")), extra, ()
    if o == "parse_observable":
        vr = env[op["valid_refs"]] if op.get("valid_refs") is not None else None
        return stix2.parse_observable(env[op["arg"]], vr, allow_custom=op.get("allow_custom", False),
                                      version=op.get("version")), extra, ()
    if o == "deepcopy":
        a = env[op["arg"]]
        c = copy.deepcopy(a)
        oa, oc = [], []
        walk(a, "", oa, set(), full=True)
        walk(c, "", oc, set(), full=True)
        ids_a = {i for i, _, _ in oa}
        common = sorted(p for i, p, _ in oc if i in ids_a)
        extra["equal"] = bool(c == a)
        extra["unshared"] = not common
        extra["common"] = common[:5]
        extra["same_snap"] = snap_cmp(a, c)
        extra["same_instants"] = instants(a) == instants(c)
        return c, extra, ()
    if o == "copy":
        return copy.copy(env[op["arg"]]), extra, ()
    if o == "new_version":
        a = env[op["arg"]]
        kw = kw_of(env, op)
        if op.get("method") and isinstance(a, _STIXBase):
            return a.new_version(**kw), extra, ()
        return stix2.versioning.new_version(a, **kw), extra, ()
    if o == "revoke":
        a = env[op["arg"]]
        if op.get("method") and isinstance(a, _STIXBase):
            return a.revoke(), extra, ()
        return stix2.versioning.revoke(a), extra, ()
    if o == "remove_custom":
        return stix2.versioning.remove_custom_stix(env[op["arg"]]), extra, ()
    if o == "mark":
        a = env[op["arg"]]
        fn = op["fn"]
        level = op.get("level", "api")
        mod = {"api": M, "granular": GM, "object": OM}[level]
        args = []
        if "marking" in op:
            args.append(env[op["marking"]])
        if op.get("selectors") is not None:
            args.append(env[op["selectors"]])
        kwargs = op.get("opts", {})
        if op.get("method") and isinstance(a, _STIXBase) and hasattr(a, fn):
            return getattr(a, fn)(*args, **kwargs), extra, ()
        return getattr(mod, fn)(a, *args, **kwargs), extra, ()
    if o == "util":
        fn = op["fn"]
        if fn in ("expand_markings", "compress_markings", "build_granular_marking", "convert_to_list",
                  "convert_to_marking_list"):
            return getattr(MU, fn)(env[op["arg"]]), extra, ()
        if fn == "validate":
            return MU.validate(env[op["arg"]], env[op["selectors"]]), extra, ()
        if fn == "iterpath":
            return [(list(p), None) for p, _ in MU.iterpath(env[op["arg"]])], extra, ()
        if fn == "serialize":
            return env[op["arg"]].serialize(**op.get("opts", {})), extra, ()
        if fn == "stix2.serialize":
            return stix2.serialization.serialize(env[op["arg"]], **op.get("opts", {})), extra, ()
        if fn == "str":
            return str(env[op["arg"]]), extra, ()
        if fn == "repr":
            return repr(env[op["arg"]]), extra, ()
        if fn == "dict":
            return dict(env[op["arg"]]), extra, ()
        if fn == "eq":
            return env[op["arg"]] == env[op["other"]], extra, ()
        if fn == "deduplicate":
            return stix2.utils.deduplicate(env[op["arg"]]), extra, ()
        if fn == "get_dict":
            return stix2.utils._get_dict(env[op["arg"]]), extra, ()
        if fn == "object_similarity":
            return stix2.Environment().object_similarity(env[op["arg"]], env[op["other"]]), extra, ()
        if fn == "object_equivalence":
            return stix2.Environment().object_equivalence(env[op["arg"]], env[op["other"]]), extra, ()
        raise ValueError("unknown util " + fn)
    if o == "store_new":
        kind = op["kind"]
        data = env[op["arg"]] if op.get("arg") is not None else None
        if kind == "memory":
            return stix2.MemoryStore(data, **op.get("opts", {})), extra, ()
        if kind == "fs":
            st = stix2.FileSystemStore(tmpdir(), **op.get("opts", {}))
            if data is not None:
                st.add(data)
            return st, extra, ()
        raise ValueError(kind)
    if o == "store_add":
        st = env[op["store"]]
        kw = {}
        if op.get("version"):
            kw["version"] = op["version"]
        ex = sharing_store(env, st)
        return st.add(env[op["arg"]], **kw), extra, ex
    if o == "store_get":
        return env[op["store"]].get(op["id"]), extra, ()
    if o == "store_all_versions":
        return env[op["store"]].all_versions(op["id"]), extra, ()
    if o == "store_query":
        q = env[op["arg"]] if op.get("arg") is not None else None
        flt = [stix2.Filter(*f) for f in op.get("filters", [])]
        return env[op["store"]].query(q if q is not None else flt), extra, ()
    if o == "store_save":
        st = env[op["store"]]
        p = os.path.join(tmpdir(), "out.json")
        st.save_to_file(p)
        st2 = stix2.MemoryStore()
        st2.load_from_file(p)
        return st2, extra, ()
    if o == "factory_new":
        return stix2.ObjectFactory(**kw_of(env, op), **op.get("opts", {})), extra, ()
    if o == "factory_create":
        return env[op["factory"]].create(cls_of(op["cls"]), **kw_of(env, op)), extra, ()
    if o == "env_new":
        kw = {}
        if op.get("factory") is not None:
            kw["factory"] = env[op["factory"]]
        if op.get("store") is not None:
            kw["store"] = env[op["store"]]
        return stix2.Environment(**kw), extra, ()
    if o == "env_create":
        return env[op["env"]].create(cls_of(op["cls"]), **kw_of(env, op)), extra, ()
    if o == "env_add":
        e = env[op["env"]]
        exempt = sharing_store(env, e)
        return e.add(env[op["arg"]]), extra, tuple(exempt)
    if o == "env_get":
        return env[op["env"]].get(op["id"]), extra, ()
    if o == "env_parse":
        return env[op["env"]].parse(env[op["arg"]], allow_custom=op.get("allow_custom", False)), extra, ()
    if o == "env_creator_of":
        return env[op["env"]].creator_of(env[op["arg"]]), extra, ()
    # ---- refusals
    if o == "setattr":
        a = env[op["arg"]]
        extra["is_prop"] = isinstance(a, _STIXBase) and op["name"] in a
        before = read_attr(a, op["name"])
        try:
            setattr(a, op["name"], env[op["val"]] if op.get("val") is not None else "changed")
            extra["refused"] = False
        except Exception as e:  # noqa: BLE001
            extra["refused"] = True
            extra["refusal"] = type(e).__name__
            raise
        finally:
            extra["attr_same"] = before == read_attr(a, op["name"])
        return None, extra, ()
    if o == "delattr":
        a = env[op["arg"]]
        extra["is_prop"] = isinstance(a, _STIXBase) and op["name"] in a
        try:
            delattr(a, op["name"])
            extra["refused"] = False
        except Exception as e:  # noqa: BLE001
            extra["refused"] = True
            extra["refusal"] = type(e).__name__
            raise
        return None, extra, ()
    if o == "setitem":
        a = env[op["arg"]]
        extra["is_prop"] = isinstance(a, _STIXBase) and op["name"] in a
        try:
            a[op["name"]] = env[op["val"]] if op.get("val") is not None else "changed"
            extra["refused"] = False
        except Exception as e:  # noqa: BLE001
            extra["refused"] = True
            extra["refusal"] = type(e).__name__
            raise
        return None, extra, ()
    if o == "delitem":
        a = env[op["arg"]]
        extra["is_prop"] = isinstance(a, _STIXBase) and op["name"] in a
        try:
            del a[op["name"]]
            extra["refused"] = False
        except Exception as e:  # noqa: BLE001
            extra["refused"] = True
            extra["refusal"] = type(e).__name__
            raise
        return None, extra, ()
    raise ValueError("unknown op " + o)


def read_attr(a, name):
    try:
        return json.dumps(snap(getattr(a, name)), sort_keys=True, default=str)
    except Exception as e:  # noqa: BLE001
        return "raises " + type(e).__name__


def canon_ser(t):
    """a snapshot with every serialize() text replaced by its parsed JSON value:
    the order in which an object's members are written is not part of its value
    (toplevel-extension / custom property names go through a set)"""
    if isinstance(t, list):
        if len(t) == 5 and t[0] == "o" and isinstance(t[3], str):
            try:
                ser = json.dumps(json.loads(t[3]), sort_keys=True)
            except ValueError:
                ser = t[3]
            return ["o", t[1], canon_ser(t[2]), ser, canon_ser(t[4])]
        return [canon_ser(x) for x in t]
    return t


def instants(x, path="", depth=0, out=None):
    """every datetime reachable from x as (path, UTC instant or naive text, fold): two equal values
    denote the same instants"""
    if out is None:
        out = []
    if depth > 60:
        return out
    if isinstance(x, dt.datetime):
        when = x.astimezone(dt.timezone.utc).isoformat() if x.tzinfo is not None else "naive " + x.isoformat()
        out.append([path, when, x.fold])
    elif isinstance(x, dict):
        for k in sorted(x, key=str):
            instants(x[k], path + "/" + str(k), depth + 1, out)
    elif isinstance(x, (list, tuple)):
        for i, v in enumerate(x):
            instants(v, path + "/" + str(i), depth + 1, out)
    elif isinstance(x, _STIXBase):
        instants(x._inner, path, depth + 1, out)
    return out


def snap_cmp(a, c):
    """deep value of the copy equals deep value of the original, as values:
    member order of dicts and of serialized objects is ignored"""
    return json.dumps(canon_ser(snap(a)), sort_keys=True, default=str) == \
        json.dumps(canon_ser(snap(c)), sort_keys=True, default=str)


def rkind(r):
    if r is None:
        return "none"
    if isinstance(r, _STIXBase):
        return "obj"
    if isinstance(r, dict):
        return "dict"
    if isinstance(r, list):
        return "list"
    if isinstance(r, (bool, int, float, str)):
        return "atom"
    return "other"


def first_diff(a, b, path=""):
    """Short description of where two snapshots differ."""
    if type(a) != type(b):
        return path + ": kind changed"
    if isinstance(a, list):
        if len(a) != len(b):
            return "%s: length %d -> %d" % (path, len(a), len(b))
        for i, (x, y) in enumerate(zip(a, b)):
            if x != y:
                tag = str(i)
                if isinstance(x, list) and len(x) == 2 and isinstance(x[0], str) and not isinstance(x[1], list):
                    return "%s: %r -> %r" % (path, x, y)
                if isinstance(x, list) and x and isinstance(x[0], str) and len(a) == 2 and a[0] in ("d",):
                    tag = x[0]
                return first_diff(x, y, path + "/" + tag)
    return "%s: %r -> %r" % (path, a, b)


OP_LIMIT = float(os.environ.get("C13_OP_LIMIT", "5"))


class OpTimeout(BaseException):
    """not an Exception: the library's own `except Exception` must not swallow it"""


def _alarm(signum, frame):
    raise OpTimeout()


def count_nodes(x, cap=20000):
    """cheap size of a caller value (number of container members, capped)"""
    n, stack = 0, [x]
    while stack and n < cap:
        y = stack.pop()
        n += 1
        if isinstance(y, dict):
            stack.extend(list(y.values())[:cap])
        elif isinstance(y, (list, tuple)):
            stack.extend(y[:cap])
        elif isinstance(y, _STIXBase):
            stack.append(y._inner)
    return n


_TIMEOUTS = [0]


def run_case(case):
    env = []
    obs = []
    if _TIMEOUTS[0] >= 8:
        # the library hangs on call after call: enough evidence, do not spend minutes on it
        return {"ops": [{"exc": "Skipped", "mut": [], "shared": [], "rkind": "exc"} for _ in case["ops"]], "skipped": True}
    for k, op in enumerate(case["ops"]):
        names, keep = names_before(env)
        before = [json.dumps(snap(e), sort_keys=True, default=str) for e in env]
        watched_before = snap_watched()
        before_raw = [snap(e) for e in env] if case.get("explain") else None
        sizes = [count_nodes(e) for e in env]
        exc = None
        result = None
        extra = {}
        exempt = ()
        try:
            signal.setitimer(signal.ITIMER_REAL, OP_LIMIT)
            try:
                result, extra, exempt = run_op(op, env, extra)
            finally:
                signal.setitimer(signal.ITIMER_REAL, 0)
        except OpTimeout:
            _TIMEOUTS[0] += 1
            # the call did not return: report which earlier values grew (cheap comparison, the
            # full snapshot may be enormous) and give up on the rest of the case
            mut = [{"env": i, "where": "size %d -> %d%s" % (a, count_nodes(e), "+" if count_nodes(e) >= 20000 else "")}
                   for i, (a, e) in enumerate(zip(sizes, env)) if count_nodes(e) != a]
            obs.append({"exc": "DidNotReturn", "mut": mut, "shared": [], "rkind": "exc", "timeout": True})
            for _ in case["ops"][k + 1:]:
                obs.append({"exc": "Skipped", "mut": [], "shared": [], "rkind": "exc"})
            return {"ops": obs}
        except Exception as e:  # noqa: BLE001
            exc = type(e).__name__
            extra["msg"] = str(e)[:160]
            if op["op"] == "store_add" and env[op["store"]] is not None:
                exempt = sharing_store(env, env[op["store"]])
            if op["op"] == "env_add" and env[op["env"]] is not None:
                exempt = sharing_store(env, env[op["env"]])
        after = [json.dumps(snap(e), sort_keys=True, default=str) for e in env]
        watched_after = snap_watched()
        mut = []
        for k in watched_before:
            if watched_before[k] != watched_after.get(k):
                mut.append({"env": "registration:" + k, "where": "%s -> %s" % (watched_before[k][:120], watched_after.get(k, "")[:120])})
        for i, (b, a) in enumerate(zip(before, after)):
            if b != a and i not in exempt:
                d = {"env": i}
                if before_raw is not None:
                    d["where"] = first_diff(before_raw[i], snap(env[i]))[:300]
                mut.append(d)
        sh = shared_with(result, names) if exc is None else []
        o = {"exc": exc, "mut": mut, "shared": sh, "rkind": rkind(result) if exc is None else "exc"}
        if "refused" in extra or "equal" in extra or "attr_same" in extra or "is_prop" in extra or "same_id" in extra:
            o["extra"] = {k: v for k, v in extra.items() if k != "msg"}
        if exc is not None and case.get("explain"):
            o["msg"] = extra.get("msg")
        obs.append(o)
        env.append(result if exc is None else None)
        del keep
    return {"ops": obs}


def main():
    if "--world" in sys.argv:
        try:
            print(json.dumps({"world": world()}))
        except WorldError as e:
            print(json.dumps({"world_error": str(e)}))
        return
    register_custom()        # eagerly: the behaviour of a case must not depend on which cases ran before it
    signal.signal(signal.SIGALRM, _alarm)
    try:
        lim = 6 * 1024 ** 3
        resource.setrlimit(resource.RLIMIT_AS, (lim, lim))
    except (ValueError, OSError):
        pass
    try:
        for line in sys.stdin:
            line = line.strip()
            if not line:
                continue
            case = json.loads(line)
            try:
                r = run_case(case)
            except Exception as e:  # noqa: BLE001
                r = {"harness_error": "%s: %s" % (type(e).__name__, e)}
            print(json.dumps(r))
    finally:
        for d in _TMPDIRS:
            shutil.rmtree(d, ignore_errors=True)


if __name__ == "__main__":
    main()

"""Implementation side of C16: stix2.canonicalization.Canonicalize.canonicalize(v, utf8=False).

A case is {"v": <tagged value>}; tagged values: null / true / false / "str" / {"s": [code points]} (strings with surrogates) /
{"i": "<decimal int>"} / {"f": "<float.hex or nan/inf/-inf>"} / {"a": [..]} /
{"o": [[key, value], ..]} (member order = dict insertion order).
Observed: the returned text or the exception class; and what canonicalize
gives for the stdlib-json parse of that text (fixed-point observation)."""
import os as _os
import sys as _sys

if _os.environ.get("VERIF_NO_JSON_ACCEL"):
    _sys.modules["_json"] = None      # the C accelerator of the json module is not importable: pure-Python encoders
    _sys.setrecursionlimit(20000)     # the worker's own transport (pure-Python json.loads of tagged values) recurses deeply

import json
import sys

from stix2.canonicalization.Canonicalize import canonicalize


def dec_str(t):
    return t if isinstance(t, str) else "".join(map(chr, t["s"]))


def enc_str(s):
    return {"s": [ord(c) for c in s]} if any(0xD800 <= ord(c) < 0xE000 for c in s) else s


def dec(t):
    if t is None or t is True or t is False or isinstance(t, str):
        return t
    if "s" in t:
        return dec_str(t)
    if "i" in t:
        return int(t["i"])
    if "f" in t:
        return float.fromhex(t["f"]) if t["f"] not in ("nan", "inf", "-inf") else float(t["f"])
    if "a" in t:
        return [dec(x) for x in t["a"]]
    if "o" in t:
        return {dec_str(k): dec(v) for k, v in t["o"]}
    raise ValueError("bad tagged value")


def hist(h):
    """another public call of the canonicalization package; its outcome is not judged, only that it leaves later
    canonicalize() answers alone"""
    import math
    from stix2.canonicalization import Canonicalize as C
    from stix2.canonicalization.NumberToJson import convert2Es6Format
    op = h["op"]
    try:
        if op == "serialize":
            r = C.serialize(dec(h["v"]), utf8=bool(h.get("utf8")))
        elif op == "canonicalize_utf8":
            r = C.canonicalize(dec(h["v"]), utf8=True)
        elif op == "canonicalize_text":
            r = C.canonicalize(dec(h["v"]), utf8=False)
        elif op == "canonicalize_raises":
            bad = {"nan": [1, {"a": math.nan}], "inf": {"x": [math.inf]}, "set": {"a": {1, 2}}, "key": {"\ud800": 1},
                   "nonstr_key": {(1, 2): 3}}[h["what"]]
            r = C.canonicalize(bad, utf8=False)
        elif op == "convert":
            arg = {"nan": math.nan, "inf": math.inf, "ninf": -math.inf, "big": 10 ** 400, "text": "abc", "numtext": "1e5",
                   "true": True, "none": None, "negzero": -0.0, "tiny": 5e-324, "int": 12345678901234567890}[h["what"]]
            r = convert2Es6Format(arg)
        elif op == "encoder":
            enc = C.JSONEncoder(sort_keys=bool(h.get("sort_keys")), ensure_ascii=bool(h.get("ensure_ascii")))
            r = enc.encode(dec(h["v"]))
        else:
            return {"hist": "unknown-op"}
        return {"hist": "ok"}
    except Exception as e:  # noqa: BLE001
        return {"hist": "exc:" + type(e).__name__}


def call(case):
    if "hist" in case:
        return hist(case["hist"])
    v = dec(case["v"])
    try:
        text = canonicalize(v, utf8=False)
    except Exception as e:  # noqa: BLE001
        return {"exc": type(e).__name__}
    if not isinstance(text, str):
        return {"exc": "returned " + type(text).__name__}
    out = {"ok": enc_str(text)}
    # the default form canonicalize(v) returns the UTF-8 bytes of the same text (where the text can be encoded)
    try:
        b = canonicalize(v)
        out["u8"] = isinstance(b, bytes) and b == text.encode("utf-8")
    except UnicodeEncodeError:
        out["u8"] = None
    except Exception as e:  # noqa: BLE001
        out["u8"] = "exc:" + type(e).__name__
    try:
        out["re"] = enc_str(canonicalize(json.loads(text), utf8=False))
    except Exception as e:  # noqa: BLE001
        out["re_exc"] = type(e).__name__
    return out


for line in sys.stdin:
    line = line.strip()
    if line:
        print(json.dumps(call(json.loads(line))))

"""Implementation side of C16: stix2.canonicalization.Canonicalize.canonicalize(v, utf8=False).

A case is {"v": <tagged value>}; tagged values: null / true / false / "str" / {"s": [code points]} (strings with surrogates) /
{"i": "<decimal int>"} / {"f": "<float.hex or nan/inf/-inf>"} / {"a": [..]} /
{"o": [[key, value], ..]} (member order = dict insertion order).
Observed: the returned text or the exception class; and what canonicalize
gives for the stdlib-json parse of that text (fixed-point observation)."""
import json
import sys

from stix2.canonicalization.Canonicalize import canonicalize


def dec_str(t):
    return t if isinstance(t, str) else "".join(map(chr, t["s"]))


def enc_str(s):
    return {"s": [ord(c) for c in s]} if any(0xD800 <= ord(c) < 0xE000 for c in s) else s


def dec(t):
    if t is None or t is True or t is False or isinstance(t, str):
        return t
    if "s" in t:
        return dec_str(t)
    if "i" in t:
        return int(t["i"])
    if "f" in t:
        return float.fromhex(t["f"]) if t["f"] not in ("nan", "inf", "-inf") else float(t["f"])
    if "a" in t:
        return [dec(x) for x in t["a"]]
    if "o" in t:
        return {dec_str(k): dec(v) for k, v in t["o"]}
    raise ValueError("bad tagged value")


def call(case):
    v = dec(case["v"])
    try:
        text = canonicalize(v, utf8=False)
    except Exception as e:  # noqa: BLE001
        return {"exc": type(e).__name__}
    if not isinstance(text, str):
        return {"exc": "returned " + type(text).__name__}
    out = {"ok": enc_str(text)}
    try:
        out["re"] = enc_str(canonicalize(json.loads(text), utf8=False))
    except Exception as e:  # noqa: BLE001
        out["re_exc"] = type(e).__name__
    return out


for line in sys.stdin:
    line = line.strip()
    if line:
        print(json.dumps(call(json.loads(line))))

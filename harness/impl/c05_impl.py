"""Implementation side of C05: chains of new_version / revoke / object-marking
operations on real stix2 objects and plain dicts, with the clock
`stix2.versioning.get_timestamp` substituted by a scripted one (no repo hook).

One JSON case per stdin line:
  {"carrier": "object"|"dict"|"nonmapping", "ver": "2.0"|"2.1", "init": [[key, val], ...],
   "allow_custom": bool, "ops": [op, ...]}
  val : {"j": json} | {"dt": [local_us, off_us|null]} | {"date": [y, m, d]}
  op  : {"op": "new", "changes": [[key, val], ...], "now": us, "allow_custom": bool|null}
      | {"op": "revoke", "now": us} | {"op": "add_mark"|"remove_mark", "ms": [...], "now": us}
      | {"op": "clear_mark", "now": us} | {"op": "set_mark", "ms": [...], "now": us, "now2": us}
One JSON result per line:
  {"init": [[key, val], ...]            the state the first operation is applied to (for an object: its
                                         cleaned properties), or {"badcase": "..."} if it cannot be built
   "line": "<same rendering as Model/Versioning.v show_chain>",
   "steps": [{"ok": bool, "exc": cls|null, "same": bool, "state": [[key,val],...]|null,
              "ser": text|null, "orig_untouched": bool, "clock_reads": n}, ...]}
Instants are microseconds since 0001-01-01T00:00:00.
"""
import collections
import copy
import datetime as dt
import json
import sys
import time
import zoneinfo

import pytz

import stix2
import stix2.base
import stix2.markings
import stix2.serialization
import stix2.utils
import stix2.versioning
from stix2.serialization import STIXJSONEncoder
from stix2.utils import STIXdatetime

EPOCH = dt.datetime(1, 1, 1)
US = dt.timedelta(microseconds=1)


# ---- scripted clock -------------------------------------------------------
class Clock:
    def __init__(self):
        self.readings = []
        self.reads = 0

    def __call__(self):
        if not self.readings:
            raise RuntimeError("scripted clock exhausted")
        self.reads += 1
        us = self.readings.pop(0)
        return STIXdatetime(pytz.utc.localize(EPOCH + us * US))


CLOCK = Clock()
stix2.versioning.get_timestamp = CLOCK


# ---- value encoding -------------------------------------------------------
# the process time zone is whatever TZ says (the harness runs a share of the workers in non-UTC zones)
time.tzset()

def dec(v):
    if "j" in v:
        return copy.deepcopy(v["j"])
    if "dt" in v:
        local, off = v["dt"]
        d = EPOCH + local * US
        if off is not None:
            d = d.replace(tzinfo=pytz.utc if off == 0 else dt.timezone(dt.timedelta(microseconds=off)))
        return d
    if "date" in v:
        return dt.date(*v["date"])
    if "zdt" in v:
        # an aware datetime in a zoneinfo zone (variable offset; `fold` tells the two readings of a repeated hour apart)
        y, m, d, hh, mm, ss, us, zone, fold = v["zdt"]
        return dt.datetime(y, m, d, hh, mm, ss, us, tzinfo=zoneinfo.ZoneInfo(zone), fold=fold)
    if "sdt" in v:
        # a STIXdatetime as found on another object: a datetime cleaned earlier at the given precision / constraint
        local, off, prec, cons = v["sdt"]
        d = EPOCH + local * US
        d = d.replace(tzinfo=pytz.utc if off == 0 else dt.timezone(dt.timedelta(microseconds=off)))
        return stix2.utils.parse_into_datetime(d, prec, cons)
    raise ValueError("bad value encoding")


def enc(v):
    if isinstance(v, dt.datetime):
        o = v.utcoffset()
        return {"dt": [(v.replace(tzinfo=None) - EPOCH) // US, None if o is None else o // US]}
    if isinstance(v, dt.date):
        return {"date": [v.year, v.month, v.day]}
    return {"j": json.loads(json.dumps(v, cls=STIXJSONEncoder))}


def state_of(x):
    """[[key, val], ...] of a mapping in its own order (an object's _inner)."""
    inner = x._inner if isinstance(x, stix2.base._STIXBase) else x.data if isinstance(x, collections.UserDict) else x
    return [[k, enc(inner[k])] for k in inner]


# ---- rendering, mirror of Model/Versioning.v ------------------------------
def show_ustr(s):
    out = []
    for ch in s:
        c = ord(ch)
        if 32 <= c <= 126 and ch not in '\\"':
            out.append(ch)
        else:
            out.append("\\%06X" % c)
    return "".join(out)


def show_j(x):
    if x is None:
        return "null"
    if x is True:
        return "true"
    if x is False:
        return "false"
    if isinstance(x, int):
        return "i%d" % x
    if isinstance(x, float):
        return "f" + show_ustr(repr(x))
    if isinstance(x, str):
        return "'" + show_ustr(x) + "'"
    if isinstance(x, list):
        return "[" + "".join(show_j(e) + "," for e in x) + "]"
    if isinstance(x, dict):
        return "{" + "".join(show_ustr(k) + ":" + show_j(v) + "," for k, v in x.items()) + "}"
    raise TypeError(type(x))


def show_val(v):
    if "j" in v:
        return show_j(v["j"])
    if "dt" in v:
        local, off = v["dt"]
        return "@N%d" % local if off is None else "@A%d" % (local - off)
    y, m, d = v["date"]
    return "@D%d-%d-%d" % (y, m, d)


def canon_marks(st):
    out = []
    for k, v in st:
        if k == "object_marking_refs" and isinstance(v.get("j"), list) and all(isinstance(x, str) for x in v["j"]):
            v = {"j": sorted(v["j"])}
        out.append([k, v])
    return out


def view(carrier, st):
    return canon_marks(sorted(st, key=lambda kv: kv[0]) if carrier == "object" else st)


def show_state(st):
    return "".join("%s=%s;" % (show_ustr(k), show_val(v)) for k, v in st)


def show_diff(old, new):
    od = {k: v for k, v in reversed(old)}       # plookup finds the first binding
    out = []
    for k, v in new:
        if not (k in od and od[k] == v):
            out.append("%s=%s;" % (show_ustr(k), show_val(v)))
    nk = {k for k, _ in new}
    for k, _ in old:
        if k not in nk:
            out.append("-%s;" % show_ustr(k))
    return "".join(out)


# ---- building and operating ----------------------------------------------
def build(case):
    carrier = case["carrier"]
    d = {k: dec(v) for k, v in case["init"]}
    if carrier == "nonmapping":
        return "not-a-mapping"
    if carrier == "dict":
        return d
    if carrier == "mapping":
        return collections.UserDict(d)        # a Mapping that is not a dict
    return stix2.parse(d, allow_custom=bool(case.get("allow_custom")), version=case["ver"])


def serialized_modified(carrier, ver, x):
    """The `modified` text the new version serializes to at its spec version, by the library's own
    serialization (an object directly; a dict through parse at its version when the library can)."""
    try:
        if "modified" not in x:
            return None
        if carrier == "object":
            return json.loads(x.serialize()).get("modified")
        o = stix2.parse(copy.deepcopy(dict(x)), allow_custom=True, version=ver)
        if isinstance(o, stix2.base._STIXBase):
            return json.loads(o.serialize()).get("modified")
    except Exception:  # noqa: BLE001
        pass
    return None


def apply(carrier, cur, op):
    k = op["op"]
    if k == "new":
        kw = {key: dec(v) for key, v in op["changes"]}
        if op.get("allow_custom") is not None:
            kw["allow_custom"] = op["allow_custom"]
        api = op.get("api")
        if api == "toplevel":
            return stix2.new_version(cur, **kw)
        if carrier == "object" and api != "function":
            return cur.new_version(**kw)
        return stix2.versioning.new_version(cur, **kw)
    if k == "revoke":
        api = op.get("api")
        if api == "toplevel":
            return stix2.revoke(cur)
        if carrier == "object" and api != "function":
            return cur.revoke()
        return stix2.versioning.revoke(cur)
    # objects of classes with the markings mix-in through their methods, everything else through the functions
    meth = carrier == "object" and hasattr(cur, "add_markings")
    if k == "add_mark":
        return cur.add_markings(op["ms"]) if meth else stix2.markings.add_markings(cur, op["ms"], None)
    if k == "remove_mark":
        return cur.remove_markings(op["ms"]) if meth else stix2.markings.remove_markings(cur, op["ms"], None)
    if k == "clear_mark":
        return cur.clear_markings() if meth else stix2.markings.clear_markings(cur, None)
    if k == "set_mark":
        return cur.set_markings(op["ms"]) if meth else stix2.markings.set_markings(cur, op["ms"], None)
    raise ValueError("bad op")


def probe(case):
    """_fudge_modified on its own: {"probe": "fudge", "old": us, "now": us, "v21": bool} -> microseconds"""
    old = STIXdatetime(pytz.utc.localize(EPOCH + case["old"] * US))
    now = STIXdatetime(pytz.utc.localize(EPOCH + case["now"] * US))
    try:
        r = stix2.versioning._fudge_modified(old, now, case["v21"])
        return {"us": (r.replace(tzinfo=None) - EPOCH) // US}
    except Exception as e:  # noqa: BLE001
        return {"exc": type(e).__name__}


def run(case):
    if "probe" in case:
        return probe(case)
    carrier, ver = case["carrier"], case["ver"]
    try:
        cur = build(case)
    except Exception as e:  # noqa: BLE001
        return {"badcase": "%s: %s" % (type(e).__name__, str(e)[:200])}
    if carrier == "nonmapping":
        init = case["init"]
    else:
        init = state_of(cur)
    cur_state = init
    parts, steps = [], []
    for op in case["ops"]:
        CLOCK.readings = [op["now"]] + ([op["now2"]] if "now2" in op else [])
        CLOCK.reads = 0
        before = None if carrier == "nonmapping" else state_of(cur)
        try:
            r = apply(carrier, cur, op)
            exc = None
        except Exception as e:  # noqa: BLE001
            r, exc = None, type(e).__name__
        after = None if carrier == "nonmapping" else state_of(cur)
        step = {"ok": exc is None, "exc": exc, "same": False, "state": None, "ser": None,
                "orig_untouched": before == after, "clock_reads": CLOCK.reads}
        if exc is None:
            step["same"] = r is cur
            st = state_of(r)
            step["state"] = st
            step["ser"] = serialized_modified(carrier, ver, r)
            parts.append("OK " + show_diff(view(carrier, cur_state), view(carrier, st)))
            cur, cur_state = r, st
        else:
            parts.append("EXC " + exc)
        steps.append(step)
    parts.append("FINAL " + show_state(view(carrier, cur_state)))
    return {"init": init, "init_ser": None if carrier == "nonmapping" else serialized_modified(carrier, ver, build(case)),
            "line": " | ".join(parts), "steps": steps}


for line in sys.stdin:
    line = line.strip()
    if line:
        print(json.dumps(run(json.loads(line))))

"""Implementation side of C11 and C18: drive MemoryStore / FileSystemStore /
CompositeDataSource / Environment of the stix2 under test through their public
API only.  One JSON case per stdin line, one JSON result per line.

Observed per step: for an add, "ok" or "!<exception class>"; for a read, the
list of [id, version, payload] of the returned objects (order as returned), or
"!<exception class>".  version is "I<microseconds since the epoch>" for a
datetime or a text that spells a timestamp, "T<text>" for other text, "N" when
there is no `modified`; payload is the object's x_pay."""
import datetime
import json
import time
import os
import shutil
import sys
import tempfile

sys.path.insert(0, os.path.dirname(os.path.abspath(__file__)))
import storeutil  # noqa: E402

import stix2  # noqa: E402
from stix2 import v20, v21  # noqa: E402
from stix2.properties import IntegerProperty  # noqa: E402


@v21.CustomObject('x-reg', [('x_pay', IntegerProperty())])
class XReg21(object):
    pass


@v20.CustomObject('x-reg', [('x_pay', IntegerProperty())])
class XReg20(object):
    pass


CLASSES = {
    "identity21": v21.Identity, "identity20": v20.Identity,
    "campaign21": v21.Campaign, "campaign20": v20.Campaign,
    "rel21": v21.Relationship, "rel20": v20.Relationship,
    "marking21": v21.MarkingDefinition, "marking20": v20.MarkingDefinition,
    "sco21": v21.DomainName, "xreg21": XReg21, "xreg20": XReg20, "lang21": v21.LanguageContent,
}


def to_dict(o):
    """The JSON dictionary of an object spec."""
    cls = o["cls"]
    d = {"type": o["typ"]}
    if cls.endswith("21"):
        d["spec_version"] = "2.1"
    d["id"] = o["id"]
    if o.get("cre") is not None:
        d["created"] = o["cre"]
    if o.get("mod") is not None:
        d["modified"] = o["mod"]
    pay = o["pay"]
    if cls.startswith("identity"):
        d["name"] = "n%d" % pay
        if cls == "identity20":
            d["identity_class"] = "individual"
    elif cls.startswith("campaign"):
        d["name"] = "c%d" % pay
    elif cls.startswith("marking"):
        d["definition_type"] = "statement"
        d["definition"] = {"statement": "s%d" % pay}
    elif cls == "sco21":
        d["value"] = "d%d.example" % pay
    elif cls == "lang21":
        d["object_ref"] = "identity--00000001-0000-4000-8000-000000000001"
        d["contents"] = {"en": {"name": "l%d" % pay}}
    d["x_pay"] = pay
    for k, v in (o.get("props") or {}).items():
        d[k] = v
    if o.get("noid"):
        del d["id"]
    return d


def to_datetime(spec):
    y, mo, dd, h, mi, s, us = spec["parts"]
    tz = None
    if spec.get("tzmin") is not None:
        tz = datetime.timezone(datetime.timedelta(minutes=spec["tzmin"]))
    return datetime.datetime(y, mo, dd, h, mi, s, us, tzinfo=tz)


def to_object(o):
    d = to_dict(o)
    d.pop("type")
    d.pop("spec_version", None)
    if o.get("moddt"):
        d["modified"] = to_datetime(o["moddt"])
    return CLASSES[o["cls"]](allow_custom=True, **d)


def bad_dict(kind):
    if kind == "notype":
        return {"id": "identity--00000000-0000-4000-8000-00000000dead", "name": "x"}
    if kind == "missing":
        return {"type": "identity", "spec_version": "2.1", "id": "identity--00000000-0000-4000-8000-00000000dead",
                "created": "2015-01-01T00:00:00Z", "modified": "2015-01-01T00:00:00Z"}
    if kind == "badid":
        return {"type": "identity", "spec_version": "2.1", "id": "identity--zzz", "name": "x",
                "created": "2015-01-01T00:00:00Z", "modified": "2015-01-01T00:00:00Z"}
    raise ValueError(kind)


def as_plain(x):
    """dictionary form of a tree (for JSON text / files)."""
    t = x["t"]
    if t in ("obj", "dict"):
        return to_dict(x["o"])
    if t == "bad":
        return bad_dict(x["kind"])
    if t == "bundle_dict":
        b = {"type": "bundle", "id": "bundle--00000000-0000-4000-8000-%012x" % x.get("n", 0),
             "objects": [as_plain(e) for e in x["xs"]]}
        if x.get("v") == "20":
            b["spec_version"] = "2.0"
        return b
    if t == "list":
        return [as_plain(e) for e in x["xs"]]
    raise ValueError("as_plain: " + t)


def build(x):
    """The Python value handed to store.add for a tree."""
    t = x["t"]
    if t == "obj":
        return to_object(x["o"])
    if t == "dict":
        return to_dict(x["o"])
    if t == "bad":
        return bad_dict(x["kind"])
    if t == "json":
        return json.dumps(as_plain(x["x"]))
    if t == "list":
        return [build(e) for e in x["xs"]]
    if t == "bundle_dict":
        return as_plain(x)
    if t == "bundle_obj":
        cls = v21.Bundle if x["v"] == "21" else v20.Bundle
        return cls(objects=[build(e) for e in x["xs"]], allow_custom=True,
                   id="bundle--00000000-0000-4000-8000-%012x" % x.get("n", 0))
    raise ValueError("build: " + t)


def mk_filter(f):
    k, op = f["k"], f.get("op", "=")
    name = {"type": "type", "id": "id", "pay": "x_pay", "mod": "modified", "cre": "created"}.get(k) or f["p"]
    return stix2.Filter(name, op, f["v"])


def show_ver(v):
    if v is None:
        return "N"
    if isinstance(v, datetime.datetime):
        return "I%d" % storeutil.dt_to_us(v)
    if isinstance(v, str):
        us = storeutil.parse_ts(v)
        return "I%d" % us if us is not None else "T" + v
    return "?" + type(v).__name__


def show_obj(o):
    return [o["id"], show_ver(o.get("modified")), o.get("x_pay")]


def guarded(fn):
    try:
        r = fn()
    except Exception as e:  # noqa: BLE001
        return "!" + type(e).__name__
    if r is None:
        return []
    if isinstance(r, list):
        return [show_obj(o) for o in r]
    return [show_obj(r)]


def count_files(root):
    n = 0
    for _, _, files in os.walk(root):
        n += len(files)
    return n


def layout(root):
    out = []
    for d, _, files in os.walk(root):
        for f in files:
            out.append(os.path.relpath(os.path.join(d, f), root))
    return sorted(out)


class Ctx(object):
    def __init__(self):
        self.tmp = tempfile.mkdtemp(prefix="c11-", dir=os.getcwd())
        self.n = 0

    def fresh_dir(self):
        self.n += 1
        p = os.path.join(self.tmp, "d%d" % self.n)
        os.makedirs(p)
        return p

    def fresh_file(self):
        self.n += 1
        return os.path.join(self.tmp, "f%d.json" % self.n)

    def close(self):
        shutil.rmtree(self.tmp, ignore_errors=True)


def run_c11(case, ctx):
    out = []
    af = [mk_filter(f) for f in case.get("af", [])]
    if case["store"] == "mem":
        store = stix2.MemoryStore()
        root = None
    else:
        root = ctx.fresh_dir()
        # the directory as the caller names it: absolute, or relative to the working directory at construction
        root_arg = os.path.relpath(root, os.getcwd()) if case.get("relpath") else root
        store = stix2.FileSystemStore(root_arg, allow_custom=True, bundlify=bool(case.get("bundlify")))
    if af:
        store.source.filters.add(af)
    for st in case["steps"]:
        op = st["op"]
        if op == "chdir":
            os.chdir(ctx.fresh_dir())            # the process moves elsewhere; the store must not (no token)
        elif op == "reopen":
            if root:                             # a fresh store object over the same directory (no token)
                store = stix2.FileSystemStore(root, allow_custom=True, bundlify=bool(case.get("bundlify")))
                if af:
                    store.source.filters.add(af)
        elif op == "add":
            try:
                store.add(build(st["x"]))
                out.append("ok")
            except Exception as e:  # noqa: BLE001
                out.append("!" + type(e).__name__)
        elif op == "load":
            path = ctx.fresh_file()
            with open(path, "w", encoding="utf-8") as f:
                json.dump(as_plain(st["x"]), f)
            try:
                store.load_from_file(path)
                out.append("ok")
            except Exception as e:  # noqa: BLE001
                out.append("!" + type(e).__name__)
        elif op == "get":
            out.append(guarded(lambda: store.get(st["id"])))
        elif op == "all":
            out.append(guarded(lambda: store.all_versions(st["id"])))
        elif op == "query":
            q = [mk_filter(f) for f in st["q"]]
            out.append(guarded(lambda: store.query(q)))
        elif op == "count":
            out.append(count_files(root) if root else len(store.query()))
        elif op == "layout":
            out.append(layout(root) if root else [])
        elif op == "saveload":
            if root:
                out.append("n/a")
                continue
            try:
                # alternately a file path and a directory (the bundle id names the file)
                if st.get("dir"):
                    path = store.save_to_file(ctx.fresh_dir())
                else:
                    path = store.save_to_file(ctx.fresh_file())
                new = stix2.MemoryStore()
                new.load_from_file(path)
                if af:
                    new.source.filters.add(af)
                store = new
                out.append("ok")
            except Exception as e:  # noqa: BLE001
                out.append("!" + type(e).__name__)
        else:
            raise ValueError(op)
    return out


class Node(object):
    """a built source: obj = what reads are called on, ds = the DataSource (attached filters, composite member),
    adder = callable adding later content to the same underlying store (None if there is none), kids = members"""

    def __init__(self, obj, ds, adder=None, kids=()):
        self.obj, self.ds, self.adder, self.kids = obj, ds, adder, list(kids)
        self.det = []          # members detached from this composite (may be attached again)


def _quiet(fn):
    def add(v):
        try:
            fn(v)
        except Exception:  # noqa: BLE001 -- a refused addition leaves the store as it is (as at construction)
            pass
    return add


def build_node(x, ctx):
    t = x["t"]
    af = [mk_filter(f) for f in x.get("af", [])]
    if t == "mem":
        st = stix2.MemoryStore()
        adder = _quiet(st.add)
        if x.get("wrap") == "store":
            for a in x["adds"]:
                adder(build(a))
            if af:
                st.source.filters.add(af)
            return Node(st, st.source, adder)
        src = None
        try:
            src = stix2.MemorySource(stix_data=[build(a) for a in x["adds"]])
            adder = None                     # a bare MemorySource cannot be added to
        except Exception:  # noqa: BLE001
            # partial content on failure is only reachable through a store
            for a in x["adds"]:
                adder(build(a))
            src = st.source
        if af:
            src.filters.add(af)
        return Node(src, src, adder)
    if t == "fs":
        root = ctx.fresh_dir()
        st = stix2.FileSystemStore(root, allow_custom=True, bundlify=bool(x.get("bundlify")))
        adder = _quiet(st.add)
        for a in x["adds"]:
            adder(build(a))
        if x.get("wrap") == "store":
            if af:
                st.source.filters.add(af)
            return Node(st, st.source, adder)
        src = stix2.FileSystemSource(root, allow_custom=True)      # a separate source object over the same directory
        if af:
            src.filters.add(af)
        return Node(src, src, adder)
    if t == "comp":
        c = stix2.CompositeDataSource()
        kids = [build_node(m, ctx) for m in x["ms"]]
        # "late": k -- the members from position k on are attached only after the whole source tree (the parent
        # composite / the Environment over this composite) has been constructed
        late = x.get("late")
        now = kids if late is None else kids[:late]
        for k in now:
            c.add_data_source(k.ds)
        if late is not None:
            rest = [k.ds for k in kids[late:]]
            if x.get("late_bulk"):
                ctx.deferred.append(lambda c=c, rest=rest: c.add_data_sources(rest))
            else:
                ctx.deferred.append(lambda c=c, rest=rest: [c.add_data_source(d) for d in rest])
        if af:
            c.filters.add(af)
        return Node(c, c, None, kids)
    if t == "env":
        kids = []
        store = source = None
        if x.get("store"):
            k = build_node(x["store"], ctx)
            kids.append(k)
            store = k.obj
        if x.get("source"):
            k = build_node(x["source"], ctx)
            kids.append(k)
            source = k.ds
        if x.get("sink") and store is None:
            env = stix2.Environment(source=source, sink=stix2.MemorySink())
        else:
            env = stix2.Environment(store=store, source=source)
        for f in af:
            env.add_filter(f)
        return Node(env, env.source, None, kids)
    raise ValueError(t)


def build_src(x, ctx):
    ctx.deferred = []
    n = build_node(x, ctx)
    for act in ctx.deferred:
        act()
    ctx.deferred = []
    return n.obj, n.ds


def node_at(n, path):
    for i in path:
        n = n.kids[i]
    return n


def nav_arg(r):
    form = r.get("argform", "id")
    if form == "id":
        return r["a"]
    if form == "dict":
        return {"id": r["a"], "type": "x"}
    if form == "obj":
        return to_object(r["ao"])
    raise ValueError(form)


def run_c18(case, ctx):
    """steps: reads (optionally `at` a member path), `addf` / `rmf` (attach / detach a filter at a path), `add`
    (later content for the store under a leaf); reads yield one token each, the other steps none"""
    ctx.deferred = []
    root = build_node(case["src"], ctx)
    for act in ctx.deferred:          # members attached after construction
        act()
    ctx.deferred = []
    out = []
    for r in case.get("steps", case.get("reads", [])):
        op = r["op"]
        node = node_at(root, r.get("at", []))
        top = node.obj
        if op == "addf":
            node.ds.filters.add(mk_filter(r["f"]))
        elif op == "rmf":
            node.ds.filters.remove(mk_filter(r["f"]))
        elif op == "add":
            if node.adder is not None:
                node.adder(build(r["x"]))
        elif op == "detach":
            k = node.kids.pop(r["i"])
            node.det.append(k)
            if r.get("bulk"):
                node.ds.remove_data_sources([k.ds.id])
            else:
                node.ds.remove_data_source(k.ds.id)
        elif op == "reattach":
            k = node.det.pop(r.get("j", -1))
            node.kids.append(k)
            if r.get("bulk"):
                node.ds.add_data_sources([k.ds])
            else:
                node.ds.add_data_source(k.ds)
        elif op == "get":
            out.append(guarded(lambda: top.get(r["id"])))
        elif op == "all":
            out.append(guarded(lambda: top.all_versions(r["id"])))
        elif op == "query":
            q = [mk_filter(f) for f in r["q"]]
            out.append(guarded(lambda: top.query(q)))
        elif op == "rels":
            out.append(guarded(lambda: top.relationships(nav_arg(r), relationship_type=r.get("rt"),
                                                         source_only=r["so"], target_only=r["to"])))
        elif op == "related":
            fl = [mk_filter(f) for f in r.get("fl", [])]
            out.append(guarded(lambda: top.related_to(nav_arg(r), relationship_type=r.get("rt"),
                                                      source_only=r["so"], target_only=r["to"],
                                                      filters=fl or None)))
        elif op == "creator":
            o = to_dict(r["o"]) if r.get("oform") == "dict" else to_object(r["o"])
            out.append(guarded(lambda: top.creator_of(o)))
        else:
            raise ValueError(op)
    return out


# --------------------------------------------------------------------------
# ObjectFactory (property C18's anchors: environment wiring and default-property factory)

def fact_value(key, v):
    """token(s) of a factory case -> Python value; external references are written as source names"""
    if v is None:
        return None
    if key == "external_references":
        mk = lambda n: {"source_name": n, "external_id": "x"}  # noqa: E731
        return [mk(n) for n in v] if isinstance(v, list) else mk(v)
    return list(v) if isinstance(v, list) else v


def fact_seen(o, key):
    v = o.get(key)
    if v is None:
        return "-"
    if key in ("created", "modified"):
        return "=" + storeutil.ts_text(storeutil.dt_to_us(v), "ms")
    if key == "external_references":
        return [e["source_name"] for e in v]
    if key == "object_marking_refs":
        return [str(x) for x in v]
    return "=" + str(v)


FACT_KEYS = ["created_by_ref", "created", "modified", "external_references", "object_marking_refs"]
FACT_SETTERS = ["set_default_creator", "set_default_created", "set_default_external_refs", "set_default_object_marking_refs"]
FACT_INIT = {"created_by_ref": "created_by_ref", "created": "created", "external_references": "external_references",
             "object_marking_refs": "object_marking_refs"}


def run_factory(case):
    init = {k: fact_value(k, v) for k, v in case["init"].items()}
    cls = CLASSES[case["cls"]]
    if case.get("via") == "env":
        target = stix2.Environment(factory=stix2.ObjectFactory(list_append=case["list_append"], **init))
    else:
        target = stix2.ObjectFactory(list_append=case["list_append"], **init)
    for n, v in case["setters"]:
        key = ["created_by_ref", "created", "external_references", "object_marking_refs"][n]
        getattr(target, FACT_SETTERS[n])(fact_value(key, v))
    out = []
    for kw in case["calls"]:
        args = {k: fact_value(k, v) for k, v in kw.items()}
        try:
            o = target.create(cls, **args)
            out.append([fact_seen(o, k) for k in FACT_KEYS])
        except Exception as e:  # noqa: BLE001
            out.append("!" + type(e).__name__)
    return out


def main():
    for a in sys.argv[1:]:
        if a.startswith("--tz="):                # run under another POSIX zone: answers must not change
            os.environ["TZ"] = a[5:]
            time.tzset()
    ctx = Ctx()
    cwd0 = os.getcwd()
    tz0 = os.environ.get("TZ")
    try:
        for line in sys.stdin:
            line = line.strip()
            if not line:
                continue
            case = json.loads(line)
            try:
                if case.get("tz"):               # this case runs under another POSIX zone: answers must not change
                    os.environ["TZ"] = case["tz"]
                    time.tzset()
                if case["kind"] == "probe":
                    o = v21.Identity(name="p", modified=datetime.datetime(2020, 1, 1, 0, 0, 0))
                    res = {"naive_kept": o["modified"].tzinfo is None}
                elif case["kind"] == "c11":
                    res = run_c11(case, ctx)
                elif case["kind"] == "factory":
                    res = run_factory(case)
                else:
                    res = run_c18(case, ctx)
            except Exception as e:  # noqa: BLE001
                import traceback
                res = {"worker_error": "%s: %s" % (type(e).__name__, e), "trace": traceback.format_exc()[-800:]}
            print(json.dumps(res))
            sys.stdout.flush()
            os.chdir(cwd0)
            if case.get("tz"):
                if tz0 is None:
                    os.environ.pop("TZ", None)
                else:
                    os.environ["TZ"] = tz0
                time.tzset()
            for name in os.listdir(ctx.tmp):
                shutil.rmtree(os.path.join(ctx.tmp, name), ignore_errors=True)
                try:
                    os.remove(os.path.join(ctx.tmp, name))
                except OSError:
                    pass
    finally:
        ctx.close()


if __name__ == "__main__":
    main()

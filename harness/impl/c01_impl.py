"""Implementation side of C01 (serialize/parse round trip).

One case per stdin line:
  {"route": "parse"|"construct", "cid": "2.1/Identity", "data": {...}, "allow": bool,
   "opts": [ {serialize keyword arguments}, ... ]}
The object is made through the public API (stix2.parse without a version, or
the class constructor), serialized under every option set, parsed back
(without naming the spec version) and re-serialized.  The worker reports what
it observed; the verdicts are computed by judge() below from these
observations and the FROZEN specification tables (/verif/spec), never from
the live class tables.
"""
import json
import os as _os
import sys as _sys

# another hash seed than the parent's (set / dict iteration orders must not matter): re-exec once, stdin is inherited
if __name__ == "__main__" and _os.environ.get("PYTHONHASHSEED") != "20260929":
    _os.environ["PYTHONHASHSEED"] = "20260929"
    _os.execv(_sys.executable, [_sys.executable, "-B"] + _sys.argv)
import os
import sys
import warnings

warnings.simplefilter("ignore")

# the process runs in a time zone other than UTC (with a half-hour offset): nothing in the round trip may depend on it
os.environ["TZ"] = os.environ.get("VERIF_C01_TZ", "IST-5:30")     # POSIX form: no zone database needed
try:
    import time as _time
    _time.tzset()
except Exception:  # noqa: BLE001
    pass

try:
    import stix2  # noqa: E402
    import stix2.base  # noqa: E402
    import stix2.registry  # noqa: E402
    from stix2.base import _STIXBase  # noqa: E402
    IMPORT_ERROR = None
except Exception as _ie:  # noqa: BLE001
    # the library builds objects from specification text while it is imported (the TLP markings): if that fails in this
    # process -- e.g. because of its time zone -- every case fails the same way, and says so
    stix2 = None
    _STIXBase = object
    IMPORT_ERROR = type(_ie).__name__ + ": " + str(_ie)[:300]

VERIF = os.environ.get("VERIF_DIR") or os.path.dirname(os.path.dirname(os.path.dirname(os.path.abspath(__file__))))

_SPEC = None


def spec():
    global _SPEC
    if _SPEC is None:
        _SPEC = json.load(open(os.path.join(VERIF, "spec", "stix_tables.json")))
    return _SPEC


# custom types registered in this worker ("on request"): plain ones and 2.1 ones declared with
# extension_name= (the builders add the extension entry after construction)
CUSTOM = {}
EXT_OBJ = "extension-definition--a932fcc6-e032-476c-826f-cb970a5a1ade"
EXT_OBS = "extension-definition--b1c2d3e4-0a1b-4c2d-8e3f-1a2b3c4d5e6f"
# two registered toplevel-property-extensions (their properties become top-level properties of the object carrying them)
EXT_TLA = "extension-definition--5a1f7c2e-3b4d-4e6f-8a9b-0c1d2e3f4a5b"
EXT_TLB = "extension-definition--6b2a8d3f-4c5e-4f70-9bac-1d2e3f4a5b6c"


def _register():
    P = stix2.properties

    def mk(name):
        return type(name, (object,), {})
    CUSTOM["custom/2.0/x-c01-object"] = stix2.v20.CustomObject(
        "x-c01-object", [("x_foo", P.StringProperty()), ("x_num", P.IntegerProperty())])(mk("C01Obj20"))
    CUSTOM["custom/2.1/x-c01-object"] = stix2.v21.CustomObject(
        "x-c01-object", [("x_foo", P.StringProperty()), ("x_num", P.IntegerProperty())])(mk("C01Obj21"))
    CUSTOM["custom/2.1/x-c01-new-thing"] = stix2.v21.CustomObject(
        "x-c01-new-thing", [("x_foo", P.StringProperty()), ("bar_value", P.IntegerProperty()), ("zeta", P.ListProperty(P.StringProperty))],
        extension_name=EXT_OBJ)(mk("C01NewThing"))
    CUSTOM["custom/2.0/x-c01-observable"] = stix2.v20.CustomObservable(
        "x-c01-observable", [("value", P.StringProperty(required=True)), ("x_more", P.IntegerProperty())])(mk("C01Obs20"))
    CUSTOM["custom/2.1/x-c01-observable"] = stix2.v21.CustomObservable(
        "x-c01-observable", [("value", P.StringProperty(required=True)), ("x_more", P.IntegerProperty())], ["value"])(mk("C01Obs21"))
    CUSTOM["custom/2.1/x-c01-new-observable"] = stix2.v21.CustomObservable(
        "x-c01-new-observable", [("value", P.StringProperty(required=True)), ("x_more", P.IntegerProperty()), ("a_first", P.StringProperty())],
        ["value"], extension_name=EXT_OBS)(mk("C01NewObs"))
    stix2.v21.CustomExtension(EXT_TLA, [("a_rank", P.IntegerProperty()), ("a_note", P.StringProperty())])(
        type("C01TopLevelA", (object,), {"extension_type": "toplevel-property-extension"}))
    stix2.v21.CustomExtension(EXT_TLB, [("b_req", P.StringProperty(required=True)), ("b_num", P.IntegerProperty())])(
        type("C01TopLevelB", (object,), {"extension_type": "toplevel-property-extension"}))


try:
    if IMPORT_ERROR is None:
        _register()
    REGISTRATION_ERROR = None
except Exception as _e:  # noqa: BLE001
    REGISTRATION_ERROR = type(_e).__name__ + ": " + str(_e)[:300]


def cid_of(obj):
    for k, c in CUSTOM.items():
        if type(obj) is c:
            return k
    mod = type(obj).__module__.split(".")
    ver = {"v20": "2.0", "v21": "2.1"}.get(mod[1] if len(mod) > 1 else "", "?")
    return ver + "/" + type(obj).__name__


def find_class(cid):
    if cid in CUSTOM:
        return CUSTOM[cid]
    ver, name = cid.split("/")
    mod = stix2.v20 if ver == "2.0" else stix2.v21
    for sub in ("common", "sdo", "sro", "observables", "bundle"):
        c = getattr(getattr(mod, sub), name, None)
        if c is not None:
            return c
    raise KeyError(cid)


def kw(opts):
    o = dict(opts)
    if "separators" in o:
        o["separators"] = tuple(o["separators"])
    return o


def register_late(case):
    """A custom type that is looked up BEFORE it is registered: the same data is first parsed while the type is
    unknown (leniently and strictly, through parse and -- observables -- parse_observable), then the type is
    registered, and only then is the case's object made.  Registration is "on request" at any time: what the
    library answered while the type was unknown must not stick."""
    late = case["late"]
    cid = late.get("cid") or case["cid"]
    if cid in CUSTOM:
        return
    P = stix2.properties
    if late.get("member"):
        # the type occurs as a member of the case's container: the container itself is parsed / built first
        for allow in (True, False):
            try:
                stix2.parse(dict(case["data"], type=case["data"].get("type", "observed-data")), allow_custom=allow)
            except Exception:  # noqa: BLE001
                pass
        probe = dict(late["probe"])
    else:
        probe = dict(case["data"], type=late["type"])
    for allow in (True, False):
        try:
            stix2.parse(dict(probe), allow_custom=allow)
        except Exception:  # noqa: BLE001
            pass
        if late["kind"] == "obs":
            try:
                stix2.parse_observable(dict(probe), allow_custom=allow, version=late["ver"])
            except Exception:  # noqa: BLE001
                pass
    mod = stix2.v20 if late["ver"] == "2.0" else stix2.v21
    holder = type("C01Late", (object,), {})
    if late["kind"] == "obj":
        CUSTOM[cid] = mod.CustomObject(late["type"], [("x_foo", P.StringProperty()), ("x_num", P.IntegerProperty())])(holder)
    elif late["ver"] == "2.1":
        CUSTOM[cid] = mod.CustomObservable(late["type"], [("value", P.StringProperty(required=True)), ("x_more", P.IntegerProperty())],
                                           ["value"])(holder)
    else:
        CUSTOM[cid] = mod.CustomObservable(late["type"], [("value", P.StringProperty(required=True)), ("x_more", P.IntegerProperty())])(holder)


def make(case):
    for b in case.get("before", []):
        # other objects built earlier in the same process (what they leave behind must not matter)
        try:
            make(b)
        except Exception:  # noqa: BLE001
            pass
    if case.get("late"):
        register_late(case)
    if case["route"] == "parse":
        return stix2.parse(case["data"], allow_custom=case.get("allow", False))
    cls = find_class(case["cid"])
    data = case["data"]
    if case.get("deep"):
        # a custom property whose value nests `depth` levels (built here: the case stays small and replayable)
        dp = case["deep"]
        v = dp.get("leaf", 1)
        for _ in range(dp["depth"]):
            v = {"k": v} if dp["shape"] == "dict-chain" else [v] if dp["shape"] == "list-chain" else {"k": [v], "n": 0}
        data = dict(data, **{dp["name"]: v})
    if case.get("prebuilt"):
        # nested values handed over as library OBJECTS built beforehand (under allow_custom=True), deepest first
        import copy
        data = copy.deepcopy(data)
        for sp in sorted(case["prebuilt"], key=lambda x: -len(x["path"])):
            holder = data
            for k in sp["path"][:-1]:
                holder = holder[k]
            sub = holder[sp["path"][-1]]
            holder[sp["path"][-1]] = find_class(sp["cid"])(allow_custom=True, **{k: v for k, v in sub.items() if k != "type"})
    if case["route"] == "construct_positional":
        # Bundle(*members, **rest)
        data = dict(data)
        members = data.pop("objects", [])
        return cls(*members, allow_custom=case.get("allow", False), **data)
    return cls(allow_custom=case.get("allow", False), **data)


def derive(obj, how, allow):
    """Objects the library builds from other objects' Python values (datetimes with their precision
    metadata, nested objects), not from JSON-like data."""
    import copy
    if how == "deepcopy":
        return copy.deepcopy(obj)
    if how == "rebuild":
        kwargs = dict(obj)
        return type(obj)(allow_custom=allow or obj.has_custom, **kwargs)
    if how == "other-version":
        if cid_of(obj).startswith("custom/"):
            raise LookupError("custom type")
        ver = "2.0" if cid_of(obj).startswith("2.1") else "2.1"
        t = obj["type"]
        cls = stix2.registry.class_for_type(t, ver, "objects") or stix2.registry.class_for_type(t, ver, "observables")
        if cls is None:
            raise LookupError(t)
        kwargs = {k: v for k, v in obj.items() if k in cls._properties and k != "spec_version"}
        if ver == "2.0" and issubclass(cls, stix2.base._Observable):
            # a 2.0 observable outside a container has no valid object references
            kwargs = {k: v for k, v in kwargs.items() if not (k.endswith("_ref") or k.endswith("_refs"))}
            kwargs.pop("id", None)
        return cls(allow_custom=allow or obj.has_custom, **kwargs)
    if how == "new-version":
        return obj.new_version()
    if how == "revoke":
        return obj.revoke()
    if how == "copy":
        return copy.copy(obj)
    if how == "pickle":
        import pickle
        return pickle.loads(pickle.dumps(obj))
    if how.startswith("zone:"):
        # the same instants given as timezone-aware datetimes of another zone, at every depth
        return rezone(obj, zone_of(how[5:]), allow)
    if how.startswith("micro:"):
        # every timestamp, at every depth, given as a plain datetime OBJECT (UTC) with that microsecond part
        import datetime as dt
        return rezone(obj, dt.timezone.utc, allow, micro=int(how[6:]))
    raise ValueError(how)


def zone_of(name):
    import datetime as dt
    if name.startswith("+") or name.startswith("-"):
        sign = 1 if name[0] == "+" else -1
        hh, mm = name[1:].split(":")
        return dt.timezone(sign * dt.timedelta(hours=int(hh), minutes=int(mm)))
    import pytz
    return pytz.timezone(name)


def rezone(v, tz, allow, micro=None):
    import datetime as dt
    if isinstance(v, dt.datetime):
        aware = v if v.tzinfo is not None else v.replace(tzinfo=dt.timezone.utc)
        moved = aware.astimezone(tz)
        # a plain aware datetime of that zone: the property applies its own precision again
        return dt.datetime(moved.year, moved.month, moved.day, moved.hour, moved.minute, moved.second,
                           moved.microsecond if micro is None else micro, tzinfo=moved.tzinfo, fold=moved.fold)
    if isinstance(v, _STIXBase):
        return type(v)(allow_custom=allow or v.has_custom, **{k: rezone(x, tz, allow, micro) for k, x in v.items()})
    if isinstance(v, dict):
        return {k: rezone(x, tz, allow, micro) for k, x in v.items()}
    if isinstance(v, (list, tuple)):
        return [rezone(x, tz, allow, micro) for x in v]
    return v


def alt_inputs(obj, back, text, opts, allow):
    """the same text handed to parse() in its other accepted forms (dictionary, text stream, bytes) and with the
    spec version named explicitly: each must give the object the plain text gives"""
    import io
    ver = cid_of(obj).replace("custom/", "")[:3]
    out = []
    for how in ("dict", "file", "bytes", "version", "interoperability", "object", "default-arguments"):
        try:
            kwv = {}
            kwa = {"allow_custom": allow}
            if how == "dict":
                src = json.loads(text)
            elif how == "file":
                src = io.StringIO(text)
            elif how == "bytes":
                src = text.encode("utf-8")
            elif how == "interoperability":
                src = text                  # the relaxed identifier rules accept everything the strict ones accept
                kwv = {"interoperability": True}
            elif how == "object":
                src = back                  # a mapping that is already an object
            elif how == "default-arguments":
                if allow:
                    continue
                src = text                  # allow_custom=False is the default: not giving it changes nothing
                kwa = {}
            else:
                src = text
                if ver not in ("2.0", "2.1"):
                    continue
                kwv = {"version": ver}
            b2 = stix2.parse(src, **dict(kwa, **kwv))
            same = type(b2) is type(back)
            eq = bool(b2 == back) and bool(back == b2) if same else False
            txt = (b2.serialize(**kw(opts)) == back.serialize(**kw(opts))) if same else False
            out.append({"how": how, "same_class": same, "equal": eq, "text_same": txt})
        except Exception as e:  # noqa: BLE001
            out.append({"how": how, "err": type(e).__name__ + ": " + str(e)[:160]})
    return out


def other_writers(obj, text, opts):
    """the other ways the library writes an object: fp_serialize to a text stream (same options), str()"""
    import io
    out = {}
    try:
        buf = io.StringIO()
        obj.fp_serialize(buf, **kw(opts))
        out["fp_same"] = buf.getvalue() == text
        if not out["fp_same"]:
            out["fp_text"] = buf.getvalue()[:300]
    except Exception as e:  # noqa: BLE001
        out["fp_err"] = type(e).__name__ + ": " + str(e)[:160]
    if not opts:
        try:
            out["str_same"] = str(obj) == text
        except Exception as e:  # noqa: BLE001
            out["str_err"] = type(e).__name__
        # every option given with its default value, and positionally (serialize(pretty, include_optional_defaults))
        try:
            t2 = obj.serialize(pretty=False, include_optional_defaults=False, sort_keys=False, indent=None)
            t3 = obj.serialize(False, False)
            from stix2 import serialization as _ser
            t4 = _ser.serialize(obj)            # the module-level entry point
            if t4 != text:
                t2 = t4
            out["explicit_defaults_same"] = (t2 == text) and (t3 == text)
            if not out["explicit_defaults_same"]:
                out["explicit_defaults_text"] = (t2 if t2 != text else t3)[:300]
        except Exception as e:  # noqa: BLE001
            out["explicit_defaults_err"] = type(e).__name__ + ": " + str(e)[:160]
    elif opts == {"pretty": True, "include_optional_defaults": True}:
        try:
            t3 = obj.serialize(True, True)
            out["explicit_defaults_same"] = t3 == text
            if not out["explicit_defaults_same"]:
                out["explicit_defaults_text"] = t3[:300]
        except Exception as e:  # noqa: BLE001
            out["explicit_defaults_err"] = type(e).__name__ + ": " + str(e)[:160]
    return out


def contains_datetime(v):
    import datetime as dt
    if isinstance(v, (dt.datetime, dt.date)):
        return True
    if isinstance(v, _STIXBase) or isinstance(v, dict):
        return any(contains_datetime(x) for x in v.values())
    if isinstance(v, (list, tuple)):
        return any(contains_datetime(x) for x in v)
    return False


def python_only_in_custom(obj):
    """a Python-only value (datetime) inside a custom property, at any depth: such a value is written as text and
    read back as text -- outside the statement (DESIGN 6); derived objects can carry them (e.g. a 2.1-only
    timestamp property of a member moved into a 2.0 container becomes a custom property holding a datetime)"""
    if isinstance(obj, _STIXBase):
        for k, v in obj.items():
            if k not in type(obj)._properties:
                if contains_datetime(v):
                    return True
            elif python_only_in_custom(v):
                return True
        return False
    if isinstance(obj, dict):
        return any(python_only_in_custom(x) for x in obj.values())
    if isinstance(obj, (list, tuple)):
        return any(python_only_in_custom(x) for x in obj)
    return False


def pairs_top(text):
    """top-level member names of a JSON object text, in textual order"""
    v = json.loads(text, object_pairs_hook=lambda p: p)
    return [k for k, _ in v]


def observe(case):
    out = {"created": False}
    if REGISTRATION_ERROR and case["cid"].startswith("custom/"):
        out["err"] = "registration:" + REGISTRATION_ERROR
        return out
    if case.get("control"):
        # the same object without the part under test: if even that is refused the case says nothing
        try:
            make(case["control"])
            out["control_ok"] = True
        except Exception:  # noqa: BLE001
            out["control_ok"] = False
    try:
        obj = make(case)
    except RecursionError:
        out["err"] = "RecursionError"
        return out
    except Exception as e:  # noqa: BLE001
        out["err"] = type(e).__name__
        return out
    if not isinstance(obj, _STIXBase):
        out["err"] = "not-an-object:" + type(obj).__name__
        return out
    if case.get("derive"):
        try:
            obj = derive(obj, case["derive"], case.get("allow", False))
        except RecursionError:
            out["err"] = "derive:RecursionError"
            return out
        except Exception as e:  # noqa: BLE001
            out["err"] = "derive:" + type(e).__name__
            return out
        if python_only_in_custom(obj):
            out["err"] = "derive:python-only-value-in-custom-property"
            return out
    out["created"] = True
    out["cls"] = cid_of(obj)
    out["hc"] = bool(obj.has_custom)
    import copy as _copy
    try:
        fresh0 = _copy.deepcopy(obj)       # never serialized: the reference for "the text depends on object and options only"
    except Exception:  # noqa: BLE001
        fresh0 = None
    obs = []
    for opts in case["opts"]:
        o = {"opts": opts}
        obs.append(o)
        try:
            text = obj.serialize(**kw(opts))
        except RecursionError:
            if case.get("deep"):
                # a writer that runs out of stack on this depth has not accepted the object under this option set:
                # nothing to read back (the pretty writer needs more stack per level than the compact one)
                obs.pop()
                out.setdefault("deep_not_written", []).append(opts)
                continue
            o["ser_err"] = "RecursionError"
            continue
        except Exception as e:  # noqa: BLE001
            o["ser_err"] = type(e).__name__ + ": " + str(e)[:200]
            continue
        o["text"] = text
        try:
            o["value"] = json.loads(text)
            o["top"] = pairs_top(text)
        except Exception as e:  # noqa: BLE001
            o["json_err"] = type(e).__name__
            continue
        try:
            back = stix2.parse(text, allow_custom=bool(case.get("allow", False) or (case.get("derive") and obj.has_custom)))
        except Exception as e:  # noqa: BLE001
            o["parse_err"] = type(e).__name__ + ": " + str(e)[:200]
            continue
        o["back_cls"] = cid_of(back) if isinstance(back, _STIXBase) else "not-an-object:" + type(back).__name__
        o["same_class"] = type(back) is type(obj)
        try:
            o["equal"] = bool(back == obj) and bool(obj == back)
        except Exception as e:  # noqa: BLE001
            o["equal"] = False
            o["eq_err"] = type(e).__name__
        if isinstance(back, _STIXBase) and len(obs) <= 2:
            o["alt"] = alt_inputs(obj, back, text, opts, bool(case.get("allow", False) or (case.get("derive") and obj.has_custom)))
            o["other_writers"] = other_writers(obj, text, opts)
        if isinstance(back, _STIXBase):
            try:
                again = back.serialize(**kw(opts))
                o["again_same"] = again == text
                if again != text:
                    o["again"] = again
            except Exception as e:  # noqa: BLE001
                o["again_same"] = False
                o["again"] = "EXC " + type(e).__name__
    out["obs"] = obs
    if fresh0 is not None:
        out["history"] = history_check(obj, fresh0, case["opts"], obs)
    return out


def option_variants(opts):
    """the same option NAMES with other values, then the original values again"""
    base = dict(opts)
    out = [base]
    for k, v in base.items():
        if isinstance(v, bool):
            out.append(dict(base, **{k: not v}))
        elif k == "indent" and isinstance(v, int):
            out.append(dict(base, indent=v + 4))
        elif k == "separators":
            out.append(dict(base, separators=[", ", ": "] if list(v) != [", ", ": "] else [",", ":"]))
    if len(out) > 1:
        out.append(base)
    return out


def ser_outcome(o, opts):
    try:
        return o.serialize(**kw(opts))
    except Exception as e:  # noqa: BLE001
        return "EXC " + type(e).__name__


def history_check(obj, fresh0, optsets, obs):
    """serialize() again on the object that has already been serialized -- the same option names with other
    values, in sequence -- against a never-serialized copy of it: the text may depend on object and options only"""
    import copy as _copy
    diffs = []
    first = {json.dumps(o["opts"], sort_keys=True): o.get("text") for o in obs if "text" in o}
    for opts in optsets[:3]:
        base_key = json.dumps(opts, sort_keys=True)
        if base_key in first and ser_outcome(_copy.deepcopy(fresh0), opts) != first[base_key]:
            continue                # the copy is not a faithful reference here (reported by the deepcopy route, if at all)
        for var in option_variants(opts):
            used = ser_outcome(obj, var)
            ref = ser_outcome(_copy.deepcopy(fresh0), var)
            if used != ref:
                diffs.append({"opts": var, "after": opts, "used_object": used[:300], "fresh_object": ref[:300]})
    return diffs


# ------------------------------------------------------------------ verdicts

def const_defaults_for_type(t):
    """{property: default} over every frozen-spec class whose _type is t (optional properties with a constant
    default); for a type the frozen specification does not know (a registered custom type): the constant
    defaults of the common properties, i.e. of all specified classes"""
    out = {}
    known = any(c.get("type") == t for c in spec()["classes"].values())
    for c in spec()["classes"].values():
        if c.get("type") == t or not known:
            for s in c["slots"]:
                d = s.get("default") or {}
                if d.get("d") == "const" and not s["required"]:
                    out.setdefault(s["name"], []).append(d["v"])
    return out


def jeq(a, b):
    """JSON value equality that keeps bool/int/float apart (Python's == does not); iterative: values may nest deeply"""
    todo = [(a, b)]
    while todo:
        a, b = todo.pop()
        if type(a) is not type(b):
            return False
        if isinstance(a, dict):
            if a.keys() != b.keys():
                return False
            todo.extend((a[k], b[k]) for k in a)
        elif isinstance(a, list):
            if len(a) != len(b):
                return False
            todo.extend(zip(a, b))
        elif a != b:
            return False
    return True


def extras(full, small, path, acc, bad):
    """members present in `full` and absent from `small`, any other difference -> bad"""
    if isinstance(full, dict) and isinstance(small, dict):
        for k in small:
            if k not in full:
                bad.append(path + [k])
        for k, v in full.items():
            if k not in small:
                acc.append((path, full, k, v))
            elif not jeq(v, small[k]):          # equal subtrees (possibly very deep) are not descended into
                extras(v, small[k], path + [k], acc, bad)
    elif isinstance(full, list) and isinstance(small, list):
        if len(full) != len(small):
            bad.append(path)
        else:
            for i, (x, y) in enumerate(zip(full, small)):
                if not jeq(x, y):
                    extras(x, y, path + [i], acc, bad)
    elif not jeq(full, small):
        bad.append(path)


def spec_order(cid):
    c = spec()["classes"].get(cid)
    return [s["name"] for s in c["slots"]] if c else None


def judge(case, res):
    """List of failures {kind, opts, detail} of the property on one observed case."""
    fails = []
    for dff in res.get("repeat_diffs", []):
        fails.append({"kind": "same-input-different-outcome", "opts": dff.get("opts", {}), "detail": dff})
    if not res.get("created"):
        if case.get("expect_created") and res.get("control_ok") is not False:
            # data that is valid by construction of the case (registered types / extensions only)
            fails.append({"kind": "valid-object-refused", "opts": {}, "detail": {"error": res.get("err"), "before": bool(case.get("before")),
                                                                                  "late": bool(case.get("late"))}})
        return fails
    obs = res["obs"]

    def fail(kind, o, detail):
        fails.append({"kind": kind, "opts": o["opts"], "detail": detail})

    for o in obs:
        if "ser_err" in o:
            fail("serialize-raises", o, o["ser_err"])
            continue
        if "json_err" in o:
            fail("output-not-json", o, o["json_err"])
            continue
        if "parse_err" in o:
            fail("reparse-refused", o, o["parse_err"])
            continue
        if not o.get("same_class"):
            fail("class-changed", o, "%s -> %s" % (res["cls"], o.get("back_cls")))
        if not o.get("equal"):
            fail("not-equal", o, o.get("eq_err", ""))
        if not o.get("again_same"):
            fail("reserialize-differs", o, {"first": o["text"][:400], "again": (o.get("again") or "")[:400]})
        for al in o.get("alt", []):
            if "err" in al:
                fail("other-input-form-refused", o, al)
            elif not (al["same_class"] and al["equal"] and al["text_same"]):
                fail("other-input-form-gives-another-object", o, al)
        ow = o.get("other_writers") or {}
        if "fp_err" in ow or ow.get("fp_same") is False:
            fail("fp_serialize-differs-from-serialize", o, ow)
        if "str_err" in ow or ow.get("str_same") is False:
            fail("str-differs-from-serialize", o, ow)
        if "explicit_defaults_err" in ow or ow.get("explicit_defaults_same") is False:
            fail("options-given-with-their-default-values-or-positionally-differ", o, ow)
    for dff in res.get("history", []):
        fails.append({"kind": "serialize-depends-on-earlier-calls", "opts": dff["opts"], "detail": dff})
    good = [o for o in obs if "value" in o]
    # all option sets with the same include_optional_defaults denote the same value
    for incl in (False, True):
        grp = [o for o in good if bool(o["opts"].get("include_optional_defaults")) == incl]
        for o in grp[1:]:
            if not jeq(o["value"], grp[0]["value"]):
                fail("options-disagree", o, {"against": grp[0]["opts"]})
    # include_optional_defaults only adds default-valued optional properties
    full = [o for o in good if o["opts"].get("include_optional_defaults")]
    small = [o for o in good if not o["opts"].get("include_optional_defaults")]
    if full and small:
        acc, bad = [], []
        extras(full[0]["value"], small[0]["value"], [], acc, bad)
        for p in bad:
            fail("defaults-option-changes-value", full[0], {"path": p})
        for path, holder, k, v in acc:
            t = holder.get("type") if isinstance(holder.get("type"), str) else None
            dv = const_defaults_for_type(t).get(k, []) if t else []
            if not any(jeq(v, d) for d in dv):
                fail("non-default-property-omitted", small[0], {"path": path, "property": k, "value": v})
    # pretty output lists the top-level members in the object's own order (the order of the plain output with the same
    # include_optional_defaults): custom and extension properties keep their place after the specified ones
    for incl in (False, True):
        plain = [o for o in good if not o["opts"].get("pretty") and not o["opts"].get("sort_keys")
                 and bool(o["opts"].get("include_optional_defaults")) == incl]
        if not plain:
            continue
        ref = plain[0]["top"]
        if any(k.isdigit() for k in ref):
            continue            # all-digit names are looked up as list positions by the pretty printer
        for o in good:
            if o["opts"].get("pretty") and not o["opts"].get("sort_keys") and bool(o["opts"].get("include_optional_defaults")) == incl:
                if o["top"] != ref:
                    fail("pretty-top-level-order-differs-from-object-order", o, {"pretty": o["top"], "plain": ref})
    # pretty output: top-level specification order
    order = spec_order(res["cls"])
    if order:
        pos = {n: i for i, n in enumerate(order)}
        for o in good:
            if o["opts"].get("pretty"):
                idx = [pos[k] for k in o["top"] if k in pos]
                if idx != sorted(idx):
                    fail("pretty-not-in-specification-order", o, {"top": o["top"]})
    return fails


def slim(res):
    """drop bulky fields of passing observations"""
    res.pop("history", None)
    res.pop("repeat_diffs", None)
    for o in res.get("obs", []):
        o.pop("value", None)
        o.pop("again", None)
        o.pop("alt", None)
        o.pop("other_writers", None)
        t = o.pop("text", None)
        if t is not None:
            o["len"] = len(t)
    return res


def observe_case(case):
    """observe(); for a case marked `twice`: observe, build other objects of the same class, observe again --
    the same input must give the same outcome whatever was built in between"""
    tw = case.get("twice")
    if not tw:
        return observe(case)
    plain = {k: v for k, v in case.items() if k != "twice"}
    r1 = observe(plain)
    r1b = observe(plain)        # immediately again: what differs already here (clock, fresh identifiers) is not compared
    for b in tw.get("between", []):
        try:
            make(b)
        except Exception:  # noqa: BLE001
            pass
    r2 = observe(plain)
    diffs = []
    for k in ("created", "err", "cls", "hc"):
        if r1.get(k) == r1b.get(k) and r1.get(k) != r2.get(k):
            diffs.append({"what": k, "first": r1.get(k), "second": r2.get(k)})
    if r1.get("created") and r1b.get("created") and r2.get("created"):
        for o1, o1b, o2 in zip(r1["obs"], r1b["obs"], r2["obs"]):
            for k in ("text", "ser_err", "parse_err", "equal", "same_class"):
                if o1.get(k) == o1b.get(k) and o1.get(k) != o2.get(k):
                    diffs.append({"what": k, "opts": o1["opts"], "first": str(o1.get(k))[:200], "second": str(o2.get(k))[:200]})
                    break
    r1["repeat_diffs"] = diffs[:5]
    return r1


IMPORT_REPORTS = [0]

if __name__ == "__main__":
    for line in sys.stdin:
        line = line.strip()
        if not line:
            continue
        case = json.loads(line)
        if IMPORT_ERROR is not None:
            IMPORT_REPORTS[0] += 1
            if IMPORT_REPORTS[0] > 3:
                print(json.dumps({"created": False, "err": "import", "fails": []}))
                continue
            print(json.dumps({"created": False, "err": "import", "fails": [
                {"kind": "library-not-importable-in-this-process", "opts": {},
                 "detail": {"error": IMPORT_ERROR, "TZ": os.environ.get("TZ")}}]}))
            continue
        try:
            res = observe_case(case)
            fails = judge(case, res)
            res = slim(res)
        except Exception as _oe:  # noqa: BLE001  (the oracle itself must not stop the check: reported as a replayable case)
            res = {"created": False, "err": "oracle"}
            fails = [{"kind": "oracle-could-not-evaluate-the-case", "opts": {}, "detail": {"error": type(_oe).__name__ + ": " + str(_oe)[:300]}}]
        res["fails"] = fails
        print(json.dumps(res))

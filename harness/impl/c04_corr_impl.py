"""Implementation side of the C04 correspondence run: the allow-mode run, its
has_custom flag and the outcome of the strict reparse of its serialization, in
the line format of coq/Model/SchemaReparse.v:flag_and_strict_reparse.  Objects
are made as schema_impl does (same sentinels for generated ids / the clock)."""
import copy
import json
import sys

import schema_impl as S   # patches uuid4 / uuid5 / the constructor clock on import (and survives a failing import of the library)
try:
    import stix2
except Exception:  # noqa: BLE001  -- a library that cannot be imported in this process: every case answers that, nothing crashes
    stix2 = None


def run(case):
    if stix2 is None or getattr(S, "IMPORT_ERROR", None):
        return "ERR library-not-importable " + str(getattr(S, "IMPORT_ERROR", None))
    allow = case.get("allow", True)
    try:
        data = copy.deepcopy(case["data"])
        if case["op"] == "parse":
            obj = stix2.parse(data, allow_custom=allow)
        else:
            obj = S.find_class(case["cid"])(allow_custom=allow, **data)
    except RecursionError:
        return "ERR RecursionError"
    except Exception as e:  # noqa: BLE001
        return "ERR " + type(e).__name__
    if not isinstance(obj, S._STIXBase):
        return "OK not-an-object"
    try:
        text = obj.serialize()
    except Exception as e:  # noqa: BLE001
        return "OK hc=%s serialize-raises %s" % ("true" if obj.has_custom else "false", type(e).__name__)
    try:
        stix2.parse(text, allow_custom=False)
        rp = "ok"
    except RecursionError:
        rp = "ERR RecursionError"
    except Exception as e:  # noqa: BLE001
        rp = "ERR " + type(e).__name__
    return "OK hc=%s reparse=%s" % ("true" if obj.has_custom else "false", rp)


if __name__ == "__main__":
    for line in sys.stdin:
        line = line.strip()
        if line:
            print(json.dumps(run(json.loads(line))))

"""Implementation side of the schema family (C01-C04): parse / construct /
serialize through the public API of the stix2 under PYTHONPATH, rendered in
the same line format as coq/Model/Schema.v:show_result_obj.

Auto-generated values are made recognisable from outside the library (no
hook): uuid.uuid4 / uuid.uuid5 / the constructor's clock are replaced by
sentinels from this process and written as <uuid4> / <det-id> / <now>.
"""
import datetime
import json
import re
import sys
import uuid
import warnings

warnings.simplefilter("ignore")

import stix2  # noqa: E402
import stix2.base  # noqa: E402
import stix2.utils  # noqa: E402
from stix2.base import _STIXBase  # noqa: E402

SENT_U5 = uuid.UUID("ffffffff-ffff-5fff-bfff-fffffffffff5")
_U4_COUNT = [0]


def _uuid4():
    # distinct on every call (as the real one), recognisable by its prefix
    _U4_COUNT[0] += 1
    return uuid.UUID("ffffffff-ffff-4fff-bfff-%012x" % _U4_COUNT[0])


U4_RE = re.compile(r"ffffffff-ffff-4fff-bfff-[0-9a-f]{12}")
uuid.uuid4 = _uuid4
uuid.uuid5 = lambda ns, name: SENT_U5
_SENT_NOW = stix2.utils.STIXdatetime(1999, 12, 31, 23, 59, 58, 123456, tzinfo=datetime.timezone.utc)
stix2.base.get_timestamp = lambda: _SENT_NOW
NOW_RE = re.compile(r"1999-12-31T23:59:58(\.\d+)?Z")


def esc(s):
    out = []
    for ch in s:
        c = ord(ch)
        if 32 <= c <= 126 and ch not in '\\"':
            out.append(ch)
        else:
            out.append("\\%06X" % c)
    return "".join(out)


def unmark(s):
    s = U4_RE.sub("<uuid4>", s).replace(str(SENT_U5), "<det-id>")
    return NOW_RE.sub("<now>", s)


def show_j(x):
    if x is None:
        return "null"
    if x is True:
        return "true"
    if x is False:
        return "false"
    if isinstance(x, int):
        return "i%d" % x
    if isinstance(x, float):
        return "f" + esc(repr(x))
    if isinstance(x, str):
        return "'" + esc(unmark(x)) + "'"
    if isinstance(x, (list, tuple)):
        return "[" + "".join(show_j(e) + "," for e in x) + "]"
    if isinstance(x, dict):
        return "{" + "".join(esc(k) + ":" + show_j(v) + "," for k, v in x.items()) + "}"
    return "?" + type(x).__name__


def exc_name(e):
    return type(e).__name__


def canon_json(text):
    return json.loads(text)


def render(obj):
    if isinstance(obj, _STIXBase):
        a = canon_json(obj.serialize())
        b = canon_json(obj.serialize(include_optional_defaults=True))
        return "OK %s | %s | hc=%s" % (show_j(a), show_j(b), "true" if obj.has_custom else "false")
    return "OK %s | %s | hc=false" % (show_j(obj), show_j(obj))


def run(case):
    op = case["op"]
    try:
        if op == "parse":
            obj = stix2.parse(case["data"], allow_custom=case.get("allow", False),
                              interoperability=case.get("interop", False), version=case.get("version"))
            line = render(obj)
            if case.get("want_json") and isinstance(obj, _STIXBase):
                return {"r": line, "ser": json.loads(obj.serialize()),
                        "ser_incl": json.loads(obj.serialize(include_optional_defaults=True)),
                        "cls": type(obj).__module__.split(".")[1] + "/" + type(obj).__name__}
            return line
        if op == "clean":
            # unit level: one Property instance of the live class table
            ver, cname, slot = case["cls"].split("/")[0], case["cls"].split("/")[1], case["slot"]
            mod = stix2.v20 if ver == "2.0" else stix2.v21
            cls = None
            for sub in ("common", "sdo", "sro", "observables", "bundle"):
                cls = getattr(getattr(mod, sub), cname, None)
                if cls is not None:
                    break
            prop = cls._properties[slot]
            if case.get("contained"):
                prop = prop.contained
            args = [case["value"], case.get("allow", False)]
            interop_types = (
                stix2.properties.EmbeddedObjectProperty, stix2.properties.EnumProperty,
                stix2.properties.ExtensionsProperty, stix2.properties.DictionaryProperty,
                stix2.properties.HashesProperty, stix2.properties.IDProperty,
                stix2.properties.ListProperty, stix2.properties.OpenVocabProperty,
                stix2.properties.ReferenceProperty, stix2.properties.SelectorProperty,
            )
            if isinstance(prop, interop_types):
                args.append(case.get("interop", False))
            v, hc = prop.clean(*args)
            text = json.dumps(v, cls=stix2.serialization.STIXJSONIncludeOptionalDefaultsEncoder)
            return "OK %s | hc=%s" % (show_j(json.loads(text)), "true" if hc else "false")
        return "BADOP"
    except RecursionError:
        return "ERR RecursionError"
    except Exception as e:  # noqa: BLE001
        if op == "clean":
            return "ERR"
        return "ERR " + exc_name(e)


if __name__ == "__main__":
    for line in sys.stdin:
        line = line.strip()
        if line:
            print(json.dumps(run(json.loads(line))))

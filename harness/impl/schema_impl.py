"""Implementation side of the schema family (C01-C04): parse / construct /
serialize through the public API of the stix2 under PYTHONPATH, rendered in
the same line format as coq/Model/Schema.v:show_result_obj.

Auto-generated values are made recognisable from outside the library (no
hook): uuid.uuid4 / uuid.uuid5 / the constructor's clock are replaced by
fixed sentinels from this process (the same values as Model/SchemaRun.v:sentinel_env).
"""
import datetime
import json
import os
import re
import sys
import time
import uuid
import warnings

warnings.simplefilter("ignore")

# the worker's LOCAL time zone is far from UTC: STIX timestamps are UTC texts, so nothing the library does may depend
# on the local zone (a naive datetime handed to astimezone() would be read as local time)
os.environ["TZ"] = "Pacific/Kiritimati"
time.tzset()

# a library that cannot even be imported in this environment (it builds the four TLP markings at import) answers
# every case with that error: the oracles then see valid input refused, with a replay that reproduces
IMPORT_ERROR = None
try:
    import stix2  # noqa: E402
    import stix2.base  # noqa: E402
    import stix2.utils  # noqa: E402
    from stix2.base import _STIXBase  # noqa: E402
except Exception as _e:  # noqa: BLE001
    IMPORT_ERROR = "ERR " + type(_e).__name__
    _STIXBase = ()

# the same three values are Model/SchemaRun.v:sentinel_env
# uuid4 must differ from call to call (the constructor compares a fresh default() with the stored id
# when it looks for defaulted optional properties); every generated value is rewritten to SENT_U4 on output
SENT_U4 = "ffffffff-ffff-4fff-bfff-fffffffffff4"
SENT_U5 = uuid.UUID("ffffffff-ffff-5fff-bfff-fffffffffff5")
_U4_COUNT = [0]


def _uuid4():
    _U4_COUNT[0] += 1
    return uuid.UUID("ffffffff-ffff-4fff-bfff-%012x" % _U4_COUNT[0])


U4_RE = re.compile(r"ffffffff-ffff-4fff-bfff-[0-9a-f]{12}")
uuid.uuid4 = _uuid4
uuid.uuid5 = lambda ns, name: SENT_U5
if IMPORT_ERROR is None:
    _SENT_NOW = stix2.utils.STIXdatetime(1999, 12, 31, 23, 59, 58, 123456, tzinfo=datetime.timezone.utc)
    stix2.base.get_timestamp = lambda: _SENT_NOW


def esc(s):
    out = []
    for ch in s:
        c = ord(ch)
        if 32 <= c <= 126 and ch not in '\\"':
            out.append(ch)
        else:
            out.append("\\%06X" % c)
    return "".join(out)


def unmark(s):
    return U4_RE.sub(SENT_U4, s)


def unmark_json(x):
    if isinstance(x, str):
        return unmark(x)
    if isinstance(x, list):
        return [unmark_json(e) for e in x]
    if isinstance(x, dict):
        return {unmark(k): unmark_json(v) for k, v in x.items()}
    return x


def show_j(x):
    if x is None:
        return "null"
    if x is True:
        return "true"
    if x is False:
        return "false"
    if isinstance(x, int):
        return "i%d" % x
    if isinstance(x, float):
        return "f" + esc(repr(x))
    if isinstance(x, str):
        return "'" + esc(unmark(x)) + "'"
    if isinstance(x, (list, tuple)):
        return "[" + "".join(show_j(e) + "," for e in x) + "]"
    if isinstance(x, dict):
        return "{" + "".join(esc(k) + ":" + show_j(v) + "," for k, v in x.items()) + "}"
    return "?" + type(x).__name__


def exc_name(e):
    return type(e).__name__


def canon_json(text):
    return json.loads(text)


def render(obj):
    if isinstance(obj, _STIXBase):
        a = canon_json(obj.serialize())
        b = canon_json(obj.serialize(include_optional_defaults=True))
        return "OK %s | %s | hc=%s" % (show_j(a), show_j(b), "true" if obj.has_custom else "false")
    return "OK %s | %s | hc=false" % (show_j(obj), show_j(obj))


def find_class(cid):
    ver, cname = cid.split("/")
    mod = stix2.v20 if ver == "2.0" else stix2.v21
    for sub in ("common", "sdo", "sro", "observables", "bundle"):
        cls = getattr(getattr(mod, sub), cname, None)
        if cls is not None:
            return cls
    raise LookupError(cid)


def class_id(obj):
    m = type(obj).__module__.split(".")
    return {"v20": "2.0", "v21": "2.1"}.get(m[1], m[1]) + "/" + type(obj).__name__


def result_of(obj, case):
    line = render(obj)
    if case.get("want_json") and isinstance(obj, _STIXBase):
        return {"r": line, "ser": unmark_json(json.loads(obj.serialize())),
                "ser_incl": unmark_json(json.loads(obj.serialize(include_optional_defaults=True))),
                "cls": class_id(obj)}
    return line


def ext_order_probe():
    """True when extra + custom properties next to an unregistered toplevel-property-extension come out as one sorted run."""
    u = "8d1c5bdf-5a0e-4b8e-9a3c-1f2e3d4c5b6a"
    names = ["zeta_p", "alpha_p", "mid_p", "beta_p", "omega_p", "gamma_p"]
    try:
        o = stix2.v21.Identity(name="n", extensions={"extension-definition--" + u: {"extension_type": "toplevel-property-extension"}},
                               custom_properties={"x_c": 1}, **{n: 1 for n in names})
        keys = [k for k in json.loads(o.serialize()) if k in names or k == "x_c"]
        return keys == sorted(names + ["x_c"])
    except Exception:  # noqa: BLE001
        return False


def probes():
    """Witnesses of the C02 defect variants, run on public Property classes: True = accepted."""
    P = stix2.properties
    u = "8d1c5bdf-5a0e-4b8e-9a3c-1f2e3d4c5b6a"

    def acc(f):
        try:
            f()
            return True
        except Exception:  # noqa: BLE001
            return False

    def exc_of(f):
        try:
            f()
            return "ok"
        except Exception as e:  # noqa: BLE001
            return type(e).__name__
    ident = {"type": "identity", "spec_version": "2.1", "id": "identity--" + u, "created": "2016-01-01T00:00:00.000Z",
             "modified": "2016-01-01T00:00:00.000Z", "name": "n"}
    return {
        "hex_nl": acc(lambda: P.HexProperty().clean("ab\n")),
        "key_nl": acc(lambda: P.DictionaryProperty(spec_version="2.1").clean({"abc\n": 1})),
        "sel_nl": acc(lambda: P.SelectorProperty().clean("name\n")),
        "hash_nl": acc(lambda: P.HashesProperty(["MD5"], spec_version="2.1").clean({"MD5": "f" * 32 + "\n"}, False)),
        "interop_nl": acc(lambda: P.IDProperty("identity", spec_version="2.1").clean("identity--" + u + "\n", False, True)),
        "uuid_nohyphen": acc(lambda: P.IDProperty("identity", spec_version="2.1").clean("identity--" + u.replace("-", ""))),
        "uuid_urn": acc(lambda: P.IDProperty("identity", spec_version="2.1").clean("identity--urn:uuid:" + u)),
        "uuid_braces": acc(lambda: P.IDProperty("identity", spec_version="2.1").clean("identity--{" + u + "}")),
        "year_pad": stix2.utils.format_datetime(stix2.utils.parse_into_datetime("0999-01-02T00:00:00Z")).startswith("0999-"),
        "sel_upper": acc(lambda: P.SelectorProperty().clean("abc.Bar")),
        # C04: allow mode admits a registered type outside the reference's category
        "ref_flip_registered": acc(lambda: P.ReferenceProperty(valid_types=["SCO", "SDO"], spec_version="2.1").clean(
            "marking-definition--" + u, True)),
        # C04: a "custom_properties" member of parsed data switches customisation on under allow_custom=False
        "parse_custom_properties": acc(lambda: stix2.parse(dict(ident, custom_properties={"x_a": 1}))),
        # C17 guards
        "ext_scan_nonmapping": exc_of(lambda: stix2.parse(dict(ident, extensions={"x-foo-ext": 5}), allow_custom=True)),
        "bundle_without_objects": exc_of(lambda: stix2.parse({"type": "bundle", "id": "bundle--" + u})),
        # C02: unregistered toplevel-property-extension on a type without an `extensions` property
        "toplevel_without_slot": acc(lambda: stix2.v21.ExternalReference(
            source_name="s", url="u", extensions={"foo": {"extension_type": "toplevel-property-extension"}}, anything="y")),
        "empty_extensions": acc(lambda: stix2.v21.Identity(name="n", extensions={})),
        # C04: MarkingProperty.clean ignores the has_custom flag of an already wrapped definition
        "marking_flag_ignored": acc(lambda: stix2.parse({
            "type": "marking-definition", "spec_version": "2.1", "id": "marking-definition--" + u,
            "created": "2017-06-24T13:09:27.000Z", "definition_type": "statement",
            "definition": {"statement": "s", "custom_properties": {"x_via_loophole": 1}}})),
        # C04: a custom property given as None sets has_custom although nothing is stored
        "null_custom_sets_flag": bool(stix2.parse(dict(ident, x_foo=None), allow_custom=True).has_custom),
        # C01: extra properties next to an unregistered toplevel-property-extension keep set order
        "ext_order_sorted": ext_order_probe(),
        # C02: a boolean passes for an integer in socket-ext options
        "sock_bool": acc(lambda: stix2.v21.SocketExt(address_family="AF_INET", options={"SO_KEEPALIVE": True})),
        # C03: a falsy named argument ("" for a string property) is dropped by the positional-argument __init__
        "positional_empty_string": acc(lambda: stix2.v21.StatementMarking(statement="")),
        # C01: a 2.0 bundle member that parses to an object carrying spec_version
        "bundle20_member_21_sco": acc(lambda: stix2.v20.Bundle(objects=[
            {"type": "ipv4-addr", "id": "ipv4-addr--ff26c055-6336-5bc5-b98d-13d6226742dd", "value": "1.2.3.4"}])),
        # v20 MarkingDefinition without `created`: is the clock value written with exactly three fraction digits
        "md20_default_ms": bool(re.search(r'"created": "[^"]*\.\d{3}Z"', stix2.v20.MarkingDefinition(
            definition_type="statement", definition={"statement": "s"}).serialize())),
        "d2s_ext_nondict": exc_of(lambda: stix2.parse({"type": "x-unknown-type", "id": "x-unknown-type--" + u, "extensions": "abc"})),
        # C02: characters outside the base64 alphabet are skipped by the lenient decoder
        "b64_garbage": acc(lambda: P.BinaryProperty().clean("aGVs bG8=")),
        # C02: DictionaryProperty does not look at the values
        "dict_null_value": acc(lambda: P.DictionaryProperty(spec_version="2.1").clean({"abc": None})),
        # detect_spec_version on a dictionary without `type` (3b082cc: ParseError)
        "detect_notype": exc_of(lambda: stix2.utils.detect_spec_version({})),
    }


EXT_E1 = "extension-definition--11111111-1111-4111-8111-111111111111"
EXT_E2 = "extension-definition--22222222-2222-4222-8222-222222222222"
EXT_TOPLEVEL = {EXT_E1: ["e1_rank", "e1_note"], EXT_E2: ["e2_rank"]}
_REGISTERED = []


def register_toplevel_extensions():
    if _REGISTERED:
        return
    P = stix2.properties
    stix2.v21.CustomExtension(EXT_E1, [("e1_rank", P.IntegerProperty()), ("e1_note", P.StringProperty())])(
        type("RegTopE1", (object,), {"extension_type": "toplevel-property-extension"}))
    stix2.v21.CustomExtension(EXT_E2, [("e2_rank", P.IntegerProperty())])(
        type("RegTopE2", (object,), {"extension_type": "toplevel-property-extension"}))
    _REGISTERED.append(True)


def pyify(x):
    """{"__py__": tag, "items": [...]} -> the Python value it stands for (harness/stixgen.py:py_value_cases)."""
    if isinstance(x, dict):
        if "__py__" in x:
            tag, items = x["__py__"], [pyify(i) for i in x.get("items", [])]
            if tag == "iter":
                return iter(items)
            if tag == "genexp":
                return (i for i in items)
            if tag == "map":
                return map(lambda i: i, items)
            if tag == "filter":
                return filter(lambda i: True, items)
            if tag == "tuple":
                return tuple(items)
            if tag == "set":
                return set()
            if tag == "datetime":
                return datetime.datetime(*items, tzinfo=datetime.timezone.utc)
            if tag == "datetime-naive":
                return datetime.datetime(*items)
            if tag == "date":
                return datetime.date(*items[:3])
            if tag == "datetime-offset":
                return datetime.datetime(*items, tzinfo=datetime.timezone(datetime.timedelta(minutes=x.get("offset", 0))))
            if tag == "stix":
                # an already constructed object of a library class (possibly built with allow_custom)
                return find_class(x["cid"])(allow_custom=x.get("allow", False), **pyify(x.get("kwargs", {})))
            raise ValueError(tag)
        return {k: pyify(v) for k, v in x.items()}
    if isinstance(x, list):
        return [pyify(i) for i in x]
    return x


def run(case):
    op = case["op"]
    if IMPORT_ERROR is not None:
        return {} if op == "probes" else IMPORT_ERROR
    try:
        if case.get("py"):
            case = dict(case, data=pyify(case["data"]))
        if op == "probes":
            return probes()
        if op == "parse":
            form = case.get("form")
            if form == "text":
                case = dict(case, data=json.dumps(case["data"]))
            elif form == "file":
                import io
                case = dict(case, data=io.StringIO(json.dumps(case["data"])))
            elif form == "bytes-file":
                import io
                case = dict(case, data=io.BytesIO(json.dumps(case["data"]).encode("utf-8")))
            obj = stix2.parse(case["data"], allow_custom=case.get("allow", False),
                              interoperability=case.get("interop", False), version=case.get("version"))
            return result_of(obj, case)
        if op == "construct":
            cls = find_class(case["cid"])
            obj = cls(allow_custom=case.get("allow", False), interoperability=case.get("interop", False), **case["data"])
            return result_of(obj, case)
        if op == "ext-history":
            # two REGISTERED toplevel-property-extensions (registered in this process only, on first use), then the
            # given dictionaries parsed in order, strict
            register_toplevel_extensions()
            out = []
            for d in case["steps"]:
                try:
                    o = stix2.parse(d, allow_custom=False)
                    out.append({"r": "OK", "ser": unmark_json(json.loads(o.serialize()))})
                except Exception as e:  # noqa: BLE001
                    out.append({"r": "ERR " + exc_name(e)})
            return {"r": "HISTORY", "steps": out}
        if op == "clean":
            # unit level: one Property instance of the live class table
            slot = case["slot"]
            cls = find_class(case["cls"])
            prop = cls._properties[slot]
            if case.get("contained"):
                prop = prop.contained
            args = [case["value"], case.get("allow", False)]
            interop_types = (
                stix2.properties.EmbeddedObjectProperty, stix2.properties.EnumProperty,
                stix2.properties.ExtensionsProperty, stix2.properties.DictionaryProperty,
                stix2.properties.HashesProperty, stix2.properties.IDProperty,
                stix2.properties.ListProperty, stix2.properties.OpenVocabProperty,
                stix2.properties.ReferenceProperty, stix2.properties.SelectorProperty,
            )
            if isinstance(prop, interop_types):
                args.append(case.get("interop", False))
            v, hc = prop.clean(*args)
            text = json.dumps(v, cls=stix2.serialization.STIXJSONIncludeOptionalDefaultsEncoder)
            return "OK %s | hc=%s" % (show_j(json.loads(text)), "true" if hc else "false")
        return "BADOP"
    except RecursionError:
        return "ERR RecursionError"
    except Exception as e:  # noqa: BLE001
        if op == "clean":
            return "ERR"
        return "ERR " + exc_name(e)


if __name__ == "__main__":
    for line in sys.stdin:
        line = line.strip()
        if line:
            print(json.dumps(run(json.loads(line))))

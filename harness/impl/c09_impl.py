"""Implementation side of C09: stix2.equivalence.pattern on pattern texts.

One JSON case per stdin line, one JSON result per line.

  {"op": "norm", "p": text}
      -> {"valid": bool, "parse": DUMP | {"exc":..}, "norm": DUMP | {"exc":..}}
         `parse` is the object model built by pattern_visitor.create_pattern_object
         (before normalisation), `norm` the same object after the normaliser of
         stix2.equivalence.pattern has run on it.
  {"op": "equiv", "p": text, "q": text}          -> {"r": bool} | {"exc":..}
  {"op": "find", "p": text, "ps": [text, ...]}   -> {"r": [indices]} | {"exc":..}

DUMP (lists, first element is the tag):
  observation level  ["obs", C] ["oand", [..]] ["oor", [..]] ["ofby", [..]]
                     ["qual", E, Q] ["oparen", E]
  qualifiers         ["repeat", K] ["within", K] ["startstop", K, K]
  comparison level   ["atom", type, [STEP..], op, negated, K] ["and", [..]] ["or", [..]] ["paren", C]
  STEP               ["k", str] | ["i", int]      (the values object_path_to_raw_values yields)
  constants K        ["int", n] ["float", repr] ["str", s] ["bool", b] ["time", microseconds]
                     ["hex", s] ["bin", s] ["list", [K..]]
Anything unexpected is dumped as ["unknown", type name]; exceptions as
{"exc": class name, "where": "file.py:function", "msg": text}.
"""
import datetime
import json
import signal
import sys
import traceback

import stix2.equivalence.pattern as eqp
from stix2 import pattern_visitor, patterns as P
from stix2.equivalence.pattern.compare.comparison import object_path_to_raw_values
from stix2patterns.validator import run_validator

EPOCH = datetime.datetime(1970, 1, 1, tzinfo=datetime.timezone.utc)


def exc_info(e):
    tb = traceback.extract_tb(e.__traceback__)
    where = "?"
    for fr in reversed(tb):
        fn = fr.filename.replace("\\", "/")
        if "/stix2/" in fn or "/stix2patterns/" in fn:
            where = "%s:%s" % (fn.split("/")[-1], fr.name)
            break
    return {"exc": type(e).__name__, "where": where, "msg": str(e)[:120]}


def dump_const(k):
    t = type(k)
    if t is P.IntegerConstant:
        return ["int", k.value] if type(k.value) is int else ["unknown", "int:" + type(k.value).__name__]
    if t is P.FloatConstant:
        return ["float", repr(k.value)] if type(k.value) is float else ["unknown", "float:" + type(k.value).__name__]
    if t is P.StringConstant:
        return ["str", k.value] if type(k.value) is str else ["unknown", "str:" + type(k.value).__name__]
    if t is P.BooleanConstant:
        return ["bool", bool(k.value)]
    if t is P.TimestampConstant:
        v = k.value
        if v.tzinfo is None:
            v = v.replace(tzinfo=datetime.timezone.utc)
        d = v - EPOCH
        return ["time", (d.days * 86400 + d.seconds) * 1000000 + d.microseconds]
    if t is P.HexConstant:
        return ["hex", k.value]
    if t is P.BinaryConstant:
        return ["bin", k.value]
    if t is P.ListConstant:
        return ["list", [dump_const(x) for x in k.value]]
    return ["unknown", t.__name__]


def dump_path(p):
    steps = []
    for v in object_path_to_raw_values(p):
        if isinstance(v, bool):
            steps.append(["unknown", "bool"])
        elif isinstance(v, int):
            steps.append(["i", v])
        elif isinstance(v, str):
            steps.append(["k", v])
        else:
            steps.append(["unknown", type(v).__name__])
    return steps


def dump_c(e):
    if isinstance(e, P._ComparisonExpression):
        return ["atom", e.lhs.object_type_name, dump_path(e.lhs), e.operator, bool(e.negated), dump_const(e.rhs)]
    t = type(e)
    if t is P.AndBooleanExpression:
        return ["and", [dump_c(x) for x in e.operands]]
    if t is P.OrBooleanExpression:
        return ["or", [dump_c(x) for x in e.operands]]
    if t is P.ParentheticalExpression:
        return ["paren", dump_c(e.expression)]
    return ["unknown", t.__name__]


def dump_q(q):
    t = type(q)
    if t is P.RepeatQualifier:
        return ["repeat", dump_const(q.times_to_repeat)]
    if t is P.WithinQualifier:
        return ["within", dump_const(q.number_of_seconds)]
    if t is P.StartStopQualifier:
        return ["startstop", dump_const(q.start_time), dump_const(q.stop_time)]
    return ["unknown", t.__name__]


def dump_o(e):
    t = type(e)
    if t is P.ObservationExpression:
        return ["obs", dump_c(e.operand)]
    if t is P.AndObservationExpression:
        return ["oand", [dump_o(x) for x in e.operands]]
    if t is P.OrObservationExpression:
        return ["oor", [dump_o(x) for x in e.operands]]
    if t is P.FollowedByObservationExpression:
        return ["ofby", [dump_o(x) for x in e.operands]]
    if t is P.QualifiedObservationExpression:
        return ["qual", dump_o(e.observation_expression), dump_q(e.qualifier)]
    if t is P.ParentheticalExpression:
        return ["oparen", dump_o(e.expression)]
    return ["unknown", t.__name__]


def do_norm(c):
    out = {}
    try:
        out["valid"] = not run_validator(c["p"], stix_version="2.1")
    except Exception as e:  # noqa: BLE001
        out["valid"] = False
        out["validator_exc"] = exc_info(e)
    try:
        ast = pattern_visitor.create_pattern_object(c["p"], version="2.1")
        out["parse"] = dump_o(ast)
    except Exception as e:  # noqa: BLE001
        out["parse"] = exc_info(e)
        return out
    try:
        norm, _ = eqp._get_pattern_normalizer().transform(ast)
        out["norm"] = dump_o(norm)
    except Exception as e:  # noqa: BLE001
        out["norm"] = exc_info(e)
    return out


def version_args(c):
    """the public ways of naming the STIX version: "ver" in {"2.0", "2.1"} handed as keyword (form "kw", the
    default of this worker), positionally (form "pos"), or not at all (form "default": the library's default)"""
    ver, form = c.get("ver", "2.1"), c.get("form", "kw")
    if form == "default":
        return (), {}
    if form == "pos":
        return (ver,), {}
    return (), {"stix_version": ver}


def do_valid(c):
    try:
        return {"valid": not run_validator(c["p"], stix_version=c.get("ver", "2.1"))}
    except Exception as e:  # noqa: BLE001
        return {"valid": False, "validator_exc": exc_info(e)}


def do_equiv(c):
    a, kw = version_args(c)
    try:
        r = eqp.equivalent_patterns(c["p"], c["q"], *a, **kw)
    except Exception as e:  # noqa: BLE001
        return exc_info(e)
    if r is True or r is False:
        return {"r": r}
    return {"exc": "NotBool", "where": "equivalent_patterns", "msg": type(r).__name__}


def do_find(c):
    ps = list(c["ps"])
    tagged = [TaggedStr(s, i) for i, s in enumerate(ps)]
    a, kw = version_args(c)
    try:
        res = list(eqp.find_equivalent_patterns(c["p"], tagged, *a, **kw))
    except Exception as e:  # noqa: BLE001
        return exc_info(e)
    idx = []
    for x in res:
        if isinstance(x, TaggedStr):
            idx.append(x.tag)
        else:
            idx.append({"foreign": str(x)[:80]})
    return {"r": idx}


class TaggedStr(str):
    """A str that remembers its position in the searched collection, so that
    "returns exactly the members" can be observed even with duplicates."""
    def __new__(cls, s, tag):
        o = super().__new__(cls, s)
        o.tag = tag
        return o


OPS = {"norm": do_norm, "equiv": do_equiv, "find": do_find, "valid": do_valid}
CASE_SECONDS = 20
SLOW_AFTER = 3          # after this many timeouts the remaining cases get SHORT_SECONDS each
SHORT_SECONDS = 3
timeouts = 0


class CaseTimeout(BaseException):
    """not an Exception: the per-operation handlers above must not swallow it"""


def on_alarm(signum, frame):
    raise CaseTimeout()


signal.signal(signal.SIGALRM, on_alarm)

for line in sys.stdin:
    line = line.strip()
    if line:
        c = json.loads(line)
        limit = CASE_SECONDS if timeouts < SLOW_AFTER else SHORT_SECONDS
        signal.alarm(limit)
        try:
            r = OPS[c["op"]](c)
        except CaseTimeout:
            timeouts += 1
            # the equivalence test did not return within the limit: reported as a failure of the test
            r = {"exc": "Timeout", "where": "harness", "msg": "no result within %d s" % limit}
            if c["op"] == "norm":
                r = {"valid": True, "parse": r}
        finally:
            signal.alarm(0)
        print(json.dumps(r))

"""Implementation side of C15: stix2.utils.format_datetime,
parse_into_datetime, TimestampProperty.clean + JSON serialization, and
timestamp properties of real objects.  One JSON case per line in, one JSON
result (a string) per line out.

Result lines (the model renders the same text):
  fmt   : "OK <text>" | "EXC <class>"
  parse : "OK <local us> <utc offset us|naive> <format_datetime text | EXC class>" | "EXC <class>"
  prop  : "OK <text>" | "EXC <class>"          (clean, then the JSON encoder)
  obj   : "OK <text>" | "EXC <class>"          (constructor, then obj.serialize())
followed, after " || ", by the write-read-write observation used by the
property oracle: format_datetime(parse_into_datetime(<text>, p, c)) or EXC.
"""
import copy
import datetime as dt
import json
import pickle
import sys
import time
import zoneinfo

import pytz

import stix2
import stix2.exceptions
import stix2.properties
import stix2.utils
from stix2.serialization import STIXJSONEncoder
from stix2.utils import STIXdatetime, format_datetime, parse_into_datetime

EPOCH = dt.datetime(1, 1, 1)
US = dt.timedelta(microseconds=1)


# the process time zone is whatever TZ says (the harness runs a share of the workers in non-UTC zones)
time.tzset()

def via(x, how):
    """The value / object after a copy, a deep copy or a pickle round trip (None: as it is)."""
    if how == "deepcopy":
        return copy.deepcopy(x)
    if how == "copy":
        return copy.copy(x)
    if how == "pickle":
        return pickle.loads(pickle.dumps(x))
    return x


def tzinfo_of(off, kind, zone=None, fields=None, is_dst=False):
    if kind == "pytzloc":
        # the tzinfo instance pytz's localize() attaches for this wall time (one instance per offset of the zone)
        return pytz.timezone(zone).localize(dt.datetime(*fields), is_dst=is_dst).tzinfo
    if kind == "pytzattach":
        # a pytz zone attached with tzinfo=: carries the zone's first (local mean time) offset
        return pytz.timezone(zone)
    if kind == "zone":
        # one tzinfo object per zone and process (ZoneInfo caches by key): its offset varies with the datetime
        return zoneinfo.ZoneInfo(zone)
    if off is None:
        return None
    if kind == "pytz" and off % 60000000 == 0:
        return pytz.utc if off == 0 else pytz.FixedOffset(off // 60000000)
    if kind == "utc" and off == 0:
        return dt.timezone.utc
    return dt.timezone(dt.timedelta(microseconds=off))


DONOR = [None]        # how to write the donor of the current case again (None: the case has no donor)


def build_input(spec, p, c):
    if "str" in spec:
        return spec["str"]
    if "date" in spec:
        return dt.date(*spec["date"])
    y, m, d, hh, mm, ss, us = spec["dt"]
    tz = tzinfo_of(spec.get("off"), spec.get("tz", "std"), spec.get("zone"), spec["dt"], spec.get("is_dst", False))
    fold = spec.get("fold", 0)
    if spec.get("cls") == "stix":
        return STIXdatetime(y, m, d, hh, mm, ss, us, tz, precision=p, precision_constraint=c, fold=fold)
    if "src" in spec:
        # a STIXdatetime produced by an earlier parse_into_datetime at another precision/constraint, or taken from
        # the timestamp property of an object built before (the donor): handed on to another property
        raw = dt.datetime(y, m, d, hh, mm, ss, us, tz, fold=fold)
        if spec.get("src_route"):
            donor = OBJ_ROUTES[spec["src_route"]](raw)
            DONOR[0] = lambda: json.loads(donor.serialize())[spec["src_route"].split(".")[-1]]
            return donor[spec["src_route"].split(".")[-1]]
        v = parse_into_datetime(raw, spec["src"][0], spec["src"][1])
        DONOR[0] = lambda: format_datetime(v)
        return v
    return dt.datetime(y, m, d, hh, mm, ss, us, tz, fold=fold)


def local_us(x):
    return (x.replace(tzinfo=None) - EPOCH) // US


def off_us(x):
    o = x.utcoffset()
    return "naive" if o is None else str(o // US)


def exc(e):
    return "EXC " + type(e).__name__


OBJ_ROUTES = {
    "v20.Identity.created": lambda v: stix2.v20.Identity(
        id="identity--311b2d2d-f010-4473-83ec-1edf84858f4c", name="x", identity_class="individual", created=v, modified=v),
    "v21.Identity.created": lambda v: stix2.v21.Identity(
        id="identity--311b2d2d-f010-4473-83ec-1edf84858f4c", name="x", created=v, modified=v),
    "v21.Campaign.first_seen": lambda v: stix2.v21.Campaign(
        id="campaign--8e2e2d2b-17d4-4cbf-938f-98ee46b3cd3f", name="x", created="2016-04-06T20:03:00.000Z",
        modified="2016-04-06T20:03:00.000Z", first_seen=v),
    "v20.Indicator.valid_from": lambda v: stix2.v20.Indicator(
        id="indicator--a740531e-63ff-4e49-a9e1-a0a3eed0e3e7", labels=["x"], pattern="[a:b = 1]",
        created="2016-04-06T20:03:00.000Z", modified="2016-04-06T20:03:00.000Z", valid_from=v),
    "v21.WindowsPEBinaryExt.time_date_stamp": lambda v: stix2.v21.WindowsPEBinaryExt(pe_type="exe", time_date_stamp=v),
}


def forms(p, c, af):
    """the same precision / constraint in another public argument form"""
    if af == "enum":
        return stix2.utils.Precision[p.upper()], stix2.utils.PrecisionConstraint[c.upper()]
    if af == "upper":
        return p.upper(), c.upper()
    return p, c


def run(case):
    """the answer, and -- when the input value was taken from a donor -- how the donor is written before and after"""
    DONOR[0] = None
    r = run_(case)
    if DONOR[0] is not None and not r.startswith("BADCASE"):
        try:
            r += " || DONOR %s %s" % (DONOR_BEFORE[0], DONOR[0]())
        except Exception as e:  # noqa: BLE001
            r += " || DONOR %s %s" % (DONOR_BEFORE[0], exc(e).replace(" ", "_"))
    return r


DONOR_BEFORE = [None]


def run_(case):
    k = case["k"]
    p, c = case["p"], case["c"]
    try:
        value = build_input(case["in"], p, c)
    except Exception as e:  # noqa: BLE001
        DONOR[0] = None
        return "BADCASE " + type(e).__name__
    if DONOR[0] is not None:
        try:
            DONOR_BEFORE[0] = DONOR[0]()
        except Exception:  # noqa: BLE001 -- a donor that cannot be written (outside years 1..9999): nothing to compare
            DONOR[0] = None
    text = None
    how = case.get("via")
    if k == "fmt":
        try:
            text = format_datetime(via(value, how))
            out = "OK " + text
        except Exception as e:  # noqa: BLE001
            out = exc(e)
    elif k == "parse":
        try:
            P, C = forms(p, c, case.get("af"))
            if case.get("af") == "keyword":
                r = parse_into_datetime(value, precision=P, precision_constraint=C)
            else:
                r = parse_into_datetime(value, P, C)
        except Exception as e:  # noqa: BLE001
            return exc(e) + " || -"
        try:
            text = format_datetime(r)
            t = text
        except Exception as e:  # noqa: BLE001
            t = exc(e)
        pr = "" if (r.precision.name.lower(), r.precision_constraint.name.lower()) == (p, c) else " PRECISION-LOST"
        out = "OK %d %s %s%s" % (local_us(r), off_us(r), t, pr)
    elif k == "prop":
        try:
            P, C = forms(p, c, case.get("af"))
            if case.get("af") == "positional":
                prop = stix2.properties.TimestampProperty(P, C)
            else:
                prop = stix2.properties.TimestampProperty(precision=P, precision_constraint=C)
            cleaned = via(prop.clean(value, False)[0], how)
            text = json.loads(json.dumps({"x": cleaned}, cls=STIXJSONEncoder))["x"]
            out = "OK " + text
        except Exception as e:  # noqa: BLE001
            out = exc(e)
    elif k == "obj":
        route = case["route"]
        try:
            o = via(OBJ_ROUTES[route](value), how)
            text = json.loads(o.serialize())[route.split(".")[-1]]
            out = "OK " + text
        except stix2.exceptions.InvalidValueError:
            out = "EXC ValueError"      # the generic wrapper around the ValueError of clean()
        except Exception as e:  # noqa: BLE001
            out = exc(e)
    else:
        return "BADCASE kind"
    if text is None:
        return out + " || -"
    try:
        again = format_datetime(parse_into_datetime(text, p, c))
    except Exception as e:  # noqa: BLE001
        again = exc(e)
    return out + " || " + again


for line in sys.stdin:
    line = line.strip()
    if line:
        print(json.dumps(run(json.loads(line))))

"""Implementation side of the C01 correspondence run: make the object exactly as
schema_impl does (same sentinels for generated ids / clock values) and write,
for every option set of the case, the JSON value of obj.serialize(**options)
with its members in TEXTUAL order, in the line format of
coq/Model/Serialize.v:show_serialized_all ("v1 ## v2 ## ... ## ").
"""
import json
import sys

import schema_impl as S   # patches uuid4 / uuid5 / the constructor clock on import (and survives a failing import of the library)
try:
    import stix2
except Exception:  # noqa: BLE001  -- a library that cannot be imported in this process: every case answers that, nothing crashes
    stix2 = None


def kw(opts):
    o = dict(opts)
    if "separators" in o:
        o["separators"] = tuple(o["separators"])
    return o


def run(case):
    if stix2 is None or getattr(S, "IMPORT_ERROR", None):
        return "ERR library-not-importable " + str(getattr(S, "IMPORT_ERROR", None))
    try:
        if case["op"] == "parse":
            obj = stix2.parse(case["data"], allow_custom=case.get("allow", False))
        else:
            obj = S.find_class(case["cid"])(allow_custom=case.get("allow", False), **case["data"])
    except RecursionError:
        return "ERR RecursionError"
    except Exception as e:  # noqa: BLE001
        return "ERR " + type(e).__name__
    if not isinstance(obj, S._STIXBase):
        return "OK not-an-object"
    out = []
    for opts in case["opts"]:
        try:
            text = obj.serialize(**kw(opts))
            out.append(S.show_j(json.loads(text)) + " ## ")      # dicts keep the textual member order
        except Exception as e:  # noqa: BLE001
            out.append("SERIALIZE-RAISES " + type(e).__name__ + " ## ")
    return "".join(out)


if __name__ == "__main__":
    for line in sys.stdin:
        line = line.strip()
        if line:
            print(json.dumps(run(json.loads(line))))

"""C19, `custom types inherit`: register custom types in THIS (fresh) interpreter and dump the live classes
the decorators built, with the same functions the schema family's translator uses for the built-in
classes (translators/dump_tables.py: kind_of, default_of, family).

stdin: one JSON case {"regs": [ {kind, ver, name, cls, exttype?, props: [[name, kindspec, required]]} ]}
stdout: JSON list, one entry per registration: {"registered": "ok"|"exc:...", "cls": {...dump...}}
"""
import json
import os
import sys

sys.path.insert(0, os.path.join(os.environ.get("VERIF_DIR", "/verif"), "translators"))


def make_prop(spec, ver, required):
    from stix2 import properties as P
    k = spec["k"]
    kw = {"required": True} if required else {}
    if k == "string":
        return P.StringProperty(**kw)
    if k == "int":
        return P.IntegerProperty(min=spec.get("min"), max=spec.get("max"), **kw)
    if k == "float":
        return P.FloatProperty(min=spec.get("min"), max=spec.get("max"), **kw)
    if k == "bool":
        if "default" in spec:
            d = spec["default"]
            return P.BooleanProperty(default=lambda: d, **kw)
        return P.BooleanProperty(**kw)
    if k == "time":
        return P.TimestampProperty(precision=spec["prec"], precision_constraint=spec["constr"], **kw)
    if k == "dict":
        return P.DictionaryProperty(spec_version=ver, **kw)
    if k == "binary":
        return P.BinaryProperty(**kw)
    if k == "hex":
        return P.HexProperty(**kw)
    if k == "enum":
        return P.EnumProperty(list(spec["allowed"]), **kw)
    if k == "openvocab":
        return P.OpenVocabProperty(list(spec["allowed"]), **kw)
    if k == "ref":
        return P.ReferenceProperty(valid_types=list(spec["specifics"]), spec_version=ver, **kw)
    if k == "objref":
        return P.ObjectReferenceProperty(valid_types=spec.get("valid_types"), **kw)
    if k == "list":
        return P.ListProperty(make_prop(spec["of"], ver, False), **kw)
    if k == "fixedstr":
        return P.StringProperty(fixed=spec["v"])
    raise ValueError("unknown property spec %r" % (spec,))


def run_one():
    import dump_tables as D
    import stix2
    from stix2 import properties as P
    case = json.loads(sys.stdin.read())
    out = []
    for o in case["regs"]:
        mod = stix2.v20 if o["ver"] == "2.0" else stix2.v21
        dec = {"object": mod.CustomObject, "observable": mod.CustomObservable, "marking": mod.CustomMarking,
               "extension": mod.CustomExtension}[o["kind"]]
        body = {}
        if o.get("exttype"):
            body["extension_type"] = o["exttype"]
        user_cls = type(str(o["cls"]), (object,), body)
        kwargs = {}
        if o.get("extname") is not None:
            kwargs["extension_name"] = o["extname"]
        if o.get("id_contrib") is not None:
            kwargs["id_contrib_props"] = list(o["id_contrib"])
        try:
            props = [(p[0], make_prop(p[1], o["ver"], bool(p[2]))) for p in o["props"]]
            new = dec(o["name"], props, **kwargs)(user_cls)
        except Exception as e:  # noqa: BLE001
            out.append({"registered": "exc:" + type(e).__name__})
            continue
        def slots_of(mapping):
            res = []
            for pname, p in mapping.items():
                if not isinstance(p, P.Property):
                    raise D.Abort("%s is not a Property" % pname)
                res.append({"name": pname, "kind": D.kind_of(p), "required": bool(p.required), "default": D.default_of(p)})
            return res

        def dump_class(c, ver):
            fam = D.family(c)
            return {"cid": c.__module__ + "." + c.__name__, "ver": ver, "type": getattr(c, "_type", None),
                    "family": fam, "slots": slots_of(c._properties),
                    "id_contrib": list(getattr(c, "_id_contributing_properties", []) or []) if fam == "sco" else [],
                    "has_own_constraints": "_check_object_constraints" in vars(c),
                    "toplevel": slots_of(getattr(c, "_toplevel_properties", None) or {})}

        try:
            dumped = dump_class(new, o["ver"])
            dumped["with_extension"] = getattr(new, "with_extension", None)
            side = None
            if dumped["with_extension"]:
                from stix2.registry import class_for_type
                sc = class_for_type(dumped["with_extension"], o["ver"], "extensions")
                side = dump_class(sc, o["ver"]) if sc is not None else {"missing": True}
            dumped["side"] = side
            out.append({"registered": "ok", "cls": dumped})
        except D.Abort as e:
            out.append({"registered": "ok", "abort": str(e)})
    json.dump(out, sys.stdout)


def main():
    """One fresh interpreter per case (the registries are process-global)."""
    import subprocess
    if "--one" in sys.argv:
        run_one()
        return
    for line in sys.stdin:
        line = line.strip()
        if not line:
            continue
        try:
            p = subprocess.run([sys.executable, "-B", os.path.abspath(__file__), "--one"], input=line,
                               stdout=subprocess.PIPE, stderr=subprocess.PIPE, text=True, timeout=120)
            if p.returncode != 0:
                print(json.dumps({"crash": p.stderr[-1500:]}))
            else:
                print(p.stdout.strip())
        except subprocess.TimeoutExpired:
            print(json.dumps({"timeout": 120}))
        sys.stdout.flush()


if __name__ == "__main__":
    main()

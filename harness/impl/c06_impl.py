"""Implementation side of C06: ids of STIX 2.1 cyber-observables.

A case is
  {"type": <sco type>, "mode": "ctor" | "parse", "props": [[name, tagged value], ...],
   "allow_custom": bool,
   "custom": null | {"props": [[name, kind], ...], "contrib": [names]}}
props are given in the order they must be passed (kwargs order / dict order);
tagged values as in c16_impl plus {"t": "<timestamp text>"} (passed as text).
For "custom" the observable class is registered first with
CustomObservable(type, props, contrib) (type names are unique per case).

Observed (public behaviour only): the id of the new object, a tagged view of
every property it holds (Mapping API: keys(), obj[key], recursively; datetimes
by their fields and precision settings), the id obtained by serializing,
dropping "id" and parsing again, or the exception class."""
import datetime as dt
import os as _os
import sys as _sys

if _os.environ.get("VERIF_NO_JSON_ACCEL"):
    _sys.modules["_json"] = None      # the C accelerator of the json module is not importable: pure-Python encoders
    _sys.setrecursionlimit(20000)     # the worker's own transport (pure-Python json.loads of tagged values) recurses deeply

import json
import os
import sys
import time

if os.environ.get("TZ"):
    time.tzset()

import stix2
import stix2.utils
import stix2.v21
from stix2 import properties as P
import collections.abc


def enc_str(s):
    return {"s": [ord(c) for c in s]} if any(0xD800 <= ord(c) < 0xE000 for c in s) else s


def dec_str(t):
    return t if isinstance(t, str) else "".join(map(chr, t["s"]))


def dec(t):
    if t is None or t is True or t is False or isinstance(t, str):
        return t
    if "s" in t:
        return dec_str(t)
    if "i" in t:
        return int(t["i"])
    if "f" in t:
        return float.fromhex(t["f"]) if t["f"] not in ("nan", "inf", "-inf") else float(t["f"])
    if "t" in t:
        return t["t"]
    if "a" in t:
        return [dec(x) for x in t["a"]]
    if "o" in t:
        return {dec_str(k): dec(v) for k, v in t["o"]}
    raise ValueError("bad tagged value")


def view(v):
    """tagged view of a cleaned property value"""
    if v is None or v is True or v is False:
        return v
    if isinstance(v, str):
        return enc_str(v)
    if isinstance(v, int):
        return {"i": str(v)}
    if isinstance(v, float):
        if v != v:
            return {"f": "nan"}
        if v in (float("inf"), float("-inf")):
            return {"f": "inf" if v > 0 else "-inf"}
        return {"f": v.hex()}
    if isinstance(v, dt.datetime):
        off = v.utcoffset()
        return {"t": {"y": v.year, "mo": v.month, "d": v.day, "h": v.hour, "mi": v.minute, "s": v.second,
                      "us": v.microsecond, "off_s": None if off is None else int(off.total_seconds()),
                      "prec": getattr(getattr(v, "precision", None), "name", None),
                      "pc": getattr(getattr(v, "precision_constraint", None), "name", None)}}
    if isinstance(v, collections.abc.Mapping):
        return {"o": [[enc_str(k), view(v[k])] for k in v.keys()]}
    if isinstance(v, (list, tuple)):
        return {"a": [view(x) for x in v]}
    return {"other": type(v).__name__}


KINDS = {
    "str": lambda: P.StringProperty(),
    "int": lambda: P.IntegerProperty(),
    "float": lambda: P.FloatProperty(),
    "bool": lambda: P.BooleanProperty(),
    "time": lambda: P.TimestampProperty(),
    "dict": lambda: P.DictionaryProperty(spec_version="2.1"),
    "liststr": lambda: P.ListProperty(P.StringProperty),
    "hashes": lambda: P.HashesProperty(["MD5", "SHA-1", "SHA-256", "SHA-512", "SHA3-256", "SHA3-512", "SSDEEP", "TLSH"], spec_version="2.1"),
}


HIST_N = [0]


def hist(h):
    """a library operation that must not influence later id computations: new_version / revoke on an SCO object or
    dict of the class (with created/modified/revoked as custom properties, as versioning requires), re-parsing,
    deepcopy, registration of another custom observable"""
    import copy
    import stix2.versioning
    base = h["case"]
    ty = base["type"]
    op = h["op"]
    try:
        if op == "register":
            HIST_N[0] += 1

            @stix2.v21.CustomObservable("x-verif-hist-%d-%d" % (h.get("n", 0), HIST_N[0]),
                                        [("val_a", P.StringProperty()), ("val_b", P.IntegerProperty())], ["val_a"])
            class _H(object):
                pass
            _H(val_a="x", val_b=1)
            return {"hist": "ok"}
        kwargs = dict((dec_str(k), dec(v)) for k, v in base["props"])
        kwargs.update(created="2020-01-01T00:00:00Z", modified="2020-01-01T00:00:00Z", revoked=False)
        cls = stix2.registry.class_for_type(ty, "2.1", "observables")
        obj = cls(allow_custom=True, **kwargs)
        if op == "new_version_obj":
            stix2.versioning.new_version(obj, defanged=not kwargs.get("defanged", False))
        elif op == "new_version_dict":
            stix2.versioning.new_version(json.loads(obj.serialize()), x_verif_note="seen again")
        elif op == "revoke_obj":
            stix2.versioning.revoke(obj)
        elif op == "revoke_dict":
            stix2.versioning.revoke(json.loads(obj.serialize()))
        elif op == "reparse":
            stix2.parse(json.loads(obj.serialize()), allow_custom=True, version="2.1")
        elif op == "deepcopy":
            copy.deepcopy(obj)
        else:
            return {"hist": "unknown-op"}
        return {"hist": "ok"}
    except Exception as e:  # noqa: BLE001
        return {"hist": "exc:" + type(e).__name__}


def contrib_tables():
    reg = stix2.registry.STIX2_OBJ_MAPS["2.1"]["observables"]
    return {"tables": {ty: list(getattr(cls, "_id_contributing_properties", ["<missing>"])) for ty, cls in reg.items()
                       if not ty.startswith("x-verif-")}}


def call(case):
    if "hist" in case:
        return hist(case["hist"])
    if case.get("probe") == "contrib_tables":
        return contrib_tables()
    if case.get("probe") == "year999":
        return {"text": stix2.utils.format_datetime(dt.datetime(999, 1, 2, 3, 4, 5))}
    ty = case["type"]
    props = [(dec_str(k), dec(v)) for k, v in case["props"]]
    allow_custom = bool(case.get("allow_custom"))
    try:
        cls = None
        if case.get("custom"):
            cu = case["custom"]

            given = cu.get("given", cu["contrib"])
            extra = {"extension_name": cu["extension_name"]} if cu.get("extension_name") else {}
            if given is None:
                deco = stix2.v21.CustomObservable(ty, [(n, KINDS[k]()) for n, k in cu["props"]], **extra)
            else:
                deco = stix2.v21.CustomObservable(ty, [(n, KINDS[k]()) for n, k in cu["props"]], list(given), **extra)

            @deco
            class _C(object):
                pass
            cls = _C
        if case["mode"] == "ctor":
            if cls is None:
                cls = stix2.registry.class_for_type(ty, "2.1", "observables")
            kwargs = dict(props)
            if allow_custom:
                kwargs["allow_custom"] = True
            if case.get("id_none"):
                kwargs["id"] = None            # an explicit None: the library drops None-valued arguments
            obj = cls(**kwargs)
        else:
            d = {"type": ty, "spec_version": "2.1"}
            d.update(dict(props))
            if case["mode"] == "parse_text":
                # the same data as JSON text (another public argument form of parse)
                d = json.dumps(d, ensure_ascii=False)
            obj = stix2.parse(d, allow_custom=allow_custom, version="2.1")
    except Exception as e:  # noqa: BLE001
        return {"exc": type(e).__name__}
    if not isinstance(obj, stix2.base._STIXBase):
        return {"exc": "not-an-object:" + type(obj).__name__}
    out = {"id": obj["id"], "view": [[enc_str(k), view(obj[k])] for k in obj.keys()]}
    try:
        d2 = json.loads(obj.serialize())
        d2.pop("id", None)
        out["rt_id"] = stix2.parse(d2, allow_custom=allow_custom, version="2.1")["id"]
    except Exception as e:  # noqa: BLE001
        out["rt_exc"] = type(e).__name__
    return out


for line in sys.stdin:
    line = line.strip()
    if line:
        print(json.dumps(call(json.loads(line))))

"""Before/after snapshots for property C13 (library operations never modify
their arguments or existing objects) -- reusable by any implementation worker.

Usage (inside a worker that has already imported stix2 from the repository
under check; this module lives next to the workers, so `import snapshot`):

    import snapshot
    tok = snapshot.snap([arg1, arg2, existing_obj])        # before the call
    result = stix2.parse(arg1, ...)                        # the library call (may raise)
    diffs = snapshot.check(tok, [arg1, arg2, existing_obj])  # after: [] when nothing changed

`values` is any list of Python values: the caller's dicts / lists / tuples,
library objects (_STIXBase), stores, factories, environments, filters, atoms.
Pass the SAME objects, in the same order, to `snap` and to `check`.

`check` returns a list of differences, each a dict
    {"index": i,              # position in `values`
     "kind": "value",         # the deep value of values[i] changed  -> a C13 violation
     "where": "<path>: a -> b"}
or  {"index": i, "kind": "identity", "where": "<path>"}
                              # same deep value, but the mutable container at that path inside
                              # values[i] is now a different object (a member was replaced by an
                              # equal copy).  Not a violation of C13 by itself; reported because
                              # it means the parent container was written.
Call `check(tok, values, identity=False)` to get value differences only.

What counts as the deep value: atoms with their type (True != 1, floats by
hex), dict members regardless of insertion order, list / tuple order, sets as
sets, datetimes with precision attributes, a library object by class +
wrapped mapping (`_inner`) + `serialize()` text + public instance attributes,
memory stores by content (all versions), filesystem stores by the files under
their directory, ObjectFactory by defaults, Environment by factory + sink.
A store that is the TARGET of an `add` is supposed to change: leave it out of
`values` for that call (or ignore its index).

The snapshot costs a serialize() per library object and a directory walk per
filesystem store: cheap for test-sized data, not meant for bulk loops.
Nothing here imports /verif/harness/common.py; only stix2 and the stdlib.
"""
import datetime as _dt
import json as _json
import os as _os


def _stix2():
    import stix2
    import stix2.base
    return stix2


def deep_value(x, depth=0):
    """Type-tagged, JSON-serialisable deep value of x (see module docstring)."""
    stix2 = _stix2()
    base = stix2.base._STIXBase
    if depth > 60:
        return ["deep"]
    if x is None or isinstance(x, (bool, int, str)):
        return [type(x).__name__, x]
    if isinstance(x, float):
        return ["float", x.hex()]
    if isinstance(x, bytes):
        return ["bytes", x.hex()]
    if isinstance(x, dict):
        return ["d", sorted(([str(k), deep_value(v, depth + 1)] for k, v in x.items()), key=lambda kv: kv[0])]
    if isinstance(x, list):
        return ["l", [deep_value(v, depth + 1) for v in x]]
    if isinstance(x, tuple):
        return ["t", [deep_value(v, depth + 1) for v in x]]
    if isinstance(x, (set, frozenset)):
        return ["s", sorted(_json.dumps(deep_value(v, depth + 1), sort_keys=True, default=str) for v in x)]
    if isinstance(x, base):
        try:
            ser = x.serialize()
        except Exception as e:  # noqa: BLE001 -- an object that cannot be serialised still has a value
            ser = "serialize raised " + type(e).__name__
        attrs = sorted(k for k in vars(x) if not k.startswith("_"))
        return ["o", type(x).__module__ + "." + type(x).__name__, deep_value(x._inner, depth + 1), ser,
                [[a, deep_value(vars(x)[a], depth + 1)] for a in attrs]]
    if isinstance(x, _dt.datetime):
        return ["dt", x.isoformat(), str(getattr(x, "precision", None)), str(getattr(x, "precision_constraint", None))]
    if isinstance(x, (stix2.MemoryStore, stix2.MemorySink, stix2.MemorySource)):
        out = []
        for k, v in x._data.items():
            if hasattr(v, "all_versions"):
                for m, o in v.all_versions.items():
                    out.append([str(k), str(m), deep_value(o, depth + 1)])
            else:
                out.append([str(k), "", deep_value(v, depth + 1)])
        return ["mem", sorted(out, key=lambda e: (e[0], e[1]))]
    if isinstance(x, (stix2.FileSystemStore, stix2.FileSystemSink, stix2.FileSystemSource)):
        root = x.sink._stix_dir if isinstance(x, stix2.FileSystemStore) else x._stix_dir
        files = []
        for d, _, fs in sorted(_os.walk(root)):
            for f in sorted(fs):
                p = _os.path.join(d, f)
                with open(p, encoding="utf-8") as fh:
                    files.append([_os.path.relpath(p, root), fh.read()])
        return ["fs", files]
    if isinstance(x, stix2.ObjectFactory):
        return ["factory", deep_value(x._defaults, depth + 1), x._list_append]
    if isinstance(x, stix2.Environment):
        return ["env", deep_value(x.factory, depth + 1), deep_value(getattr(x, "sink", None), depth + 1)]
    if isinstance(x, stix2.datastore.filters.Filter):
        return ["filter", x.property, x.op, deep_value(x.value, depth + 1)]
    return ["x", type(x).__name__]


def containers(x, path="", out=None, seen=None):
    """{path: id} of every mutable container (dict, list, set, library object)
    reachable from x; library objects are entered through `_inner`."""
    stix2 = _stix2()
    base = stix2.base._STIXBase
    if out is None:
        out, seen = {}, set()
    if isinstance(x, dict):
        out[path] = id(x)
        if id(x) in seen:
            return out
        seen.add(id(x))
        for k, v in x.items():
            containers(v, path + "/" + str(k), out, seen)
    elif isinstance(x, (list, tuple)):
        if isinstance(x, list):
            out[path] = id(x)
            if id(x) in seen:
                return out
            seen.add(id(x))
        for i, v in enumerate(x):
            containers(v, path + "/" + str(i), out, seen)
    elif isinstance(x, set):
        out[path] = id(x)
    elif isinstance(x, base):
        out[path] = id(x)
        if id(x) in seen:
            return out
        seen.add(id(x))
        containers(x._inner, path + "/_inner", out, seen)
    elif isinstance(x, stix2.ObjectFactory):
        out[path] = id(x)
        containers(x._defaults, path + "/_defaults", out, seen)
    return out


def snap(values):
    """Token describing `values` now: deep values and container identities.
    The token keeps the container objects alive so that ids are not reused."""
    vals = [deep_value(v) for v in values]
    return {"text": [_json.dumps(v, sort_keys=True, default=str) for v in vals], "raw": vals,
            "ids": [containers(v) for v in values], "keep": list(values)}


def _first_diff(a, b, path=""):
    if type(a) != type(b):
        return path + ": kind changed"
    if isinstance(a, list):
        if len(a) != len(b):
            return "%s: length %d -> %d" % (path, len(a), len(b))
        for i, (x, y) in enumerate(zip(a, b)):
            if x != y:
                if isinstance(x, list) and len(x) == 2 and isinstance(x[0], str) and not isinstance(x[1], list):
                    return "%s: %r -> %r" % (path, x, y)
                return _first_diff(x, y, path + "/" + str(i))
    return "%s: %r -> %r" % (path, a, b)


def check(token, values, identity=True):
    """Differences between the state recorded in `token` and `values` now."""
    out = []
    if len(values) != len(token["text"]):
        raise ValueError("snapshot.check: pass the same values as to snap()")
    for i, v in enumerate(values):
        now = deep_value(v)
        if _json.dumps(now, sort_keys=True, default=str) != token["text"][i]:
            out.append({"index": i, "kind": "value", "where": _first_diff(token["raw"][i], now)[:300]})
        elif identity:
            ids = containers(v)
            for p, ident in token["ids"][i].items():
                if p in ids and ids[p] != ident:
                    out.append({"index": i, "kind": "identity", "where": p})
                    break
    return out

"""Implementation side of C20: call stix2.confidence.scales functions."""
import json
import sys

from stix2.confidence import scales


def call(case):
    """The conversions are specified as functions of their argument: the same
    call is made twice in this process and must answer the same both times
    (a refusal remembered as a value by some cache would show up here)."""
    first = call_once(case)
    second = call_once(case)
    if first != second:
        return "EXC unstable: first call %s, second call %s" % (first, second)
    return first


class _Spelled(object):
    """An object that is not a string but prints like one."""

    def __init__(self, s):
        self.s = s

    def __str__(self):
        return self.s

    __repr__ = __str__


def _arg(a):
    # JSON cannot carry Python-only values: {"py": kind, ...} stands for them
    if isinstance(a, dict) and "py" in a:
        k = a["py"]
        if k == "None":
            return None
        if k == "bool":
            return bool(a["v"])
        if k == "float":
            return float(a["v"])
        if k == "strobj":
            return _Spelled(a["s"])
        if k == "bytes":
            return a["s"].encode("utf-8")
        if k == "list":
            return [a["s"]]
        raise ValueError("unknown py kind")
    return a


def call_once(case):
    fn = getattr(scales, case["fn"], None)
    if fn is None:
        return "EXC MissingFunction"
    try:
        if case.get("kw"):
            # the same call with the argument given by keyword (the name the function declares)
            import inspect
            name = list(inspect.signature(fn).parameters)[0]
            r = fn(**{name: _arg(case["arg"])})
        else:
            r = fn(_arg(case["arg"]))
    except ValueError:
        return "ValueError"
    except Exception as e:  # noqa: BLE001
        return "EXC " + type(e).__name__
    if r is None:
        return "None"
    if isinstance(r, bool) or not isinstance(r, (int, str)):
        return "EXC returned " + type(r).__name__
    return "V " + str(r)


for line in sys.stdin:
    line = line.strip()
    if line:
        print(json.dumps(call(json.loads(line))))

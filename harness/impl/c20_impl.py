"""Implementation side of C20: call stix2.confidence.scales functions."""
import json
import sys

from stix2.confidence import scales


def call(case):
    fn = getattr(scales, case["fn"], None)
    if fn is None:
        return "EXC MissingFunction"
    try:
        r = fn(case["arg"])
    except ValueError:
        return "ValueError"
    except Exception as e:  # noqa: BLE001
        return "EXC " + type(e).__name__
    if r is None:
        return "None"
    if isinstance(r, bool) or not isinstance(r, (int, str)):
        return "EXC returned " + type(r).__name__
    return "V " + str(r)


for line in sys.stdin:
    line = line.strip()
    if line:
        print(json.dumps(call(json.loads(line))))

"""Implementation side of C14.  One JSON case per stdin line, one JSON result
per line.  Only public behaviour is observed: what an entry point returns or
raises, what a store hands back afterwards, what a sink wrote.

ops
  registry : live key sets of stix2.registry.STIX2_OBJ_MAPS (objects / observables per version)
  probe    : {"data": d, "entries": [[name, cfg], ..], "direct": [[fn, ac, io, v], ..]}
             -> {"entries": [outcome..], "own": [[fn, ac, io]..], "direct": [outcome..]}
  detect   : stix2.utils.detect_spec_version(data)
  idcheck  : IDProperty(type, spec_version).clean(value, False, interop)  /  ReferenceProperty
  own      : construct (parse with the version named), serialise, hand the text back through
             every entry point WITHOUT a version, report the classes
An outcome is ["ok", class-or-"dict"-or-null, canonical JSON restricted to the input's keys]
or ["exc", exception class, class the error names, property the error names] or ["none"].
"""
import collections
import functools
import inspect
import io
import json
import os
import shutil
import sys
import tempfile
import types as types_mod

TAXII = "taxii" in sys.argv[1:]
if TAXII:
    # The TAXII classes need the taxii2client package (not installed here) and a server.  In a worker
    # of its own, a stand-in package is put in sys.modules BEFORE stix2 is imported: a Collection that
    # serves the objects it was given and records what is posted to it.  All stix2 code run is real.
    import types

    def _install_taxii_stub():
        tc = types.ModuleType("taxii2client")
        tc.__path__ = []
        exc_m = types.ModuleType("taxii2client.exceptions")

        class ValidationError(Exception):
            pass
        exc_m.ValidationError = ValidationError
        mods = {"taxii2client": tc, "taxii2client.exceptions": exc_m}
        for v in ("v20", "v21"):
            m = types.ModuleType("taxii2client." + v)

            class Collection(object):
                can_read = True
                can_write = True

                def __init__(self, objects=None):
                    self.objects = list(objects or [])
                    self.posted = []

                def get_object(self, obj_id, **kw):
                    return {"objects": [o for o in self.objects if o.get("id") == obj_id]}

                def get_objects(self, **kw):
                    objs = self.objects
                    if "id" in kw:
                        objs = [o for o in objs if o.get("id") == kw["id"]]
                    return {"objects": objs}

                def add_objects(self, bundle):
                    self.posted.append(bundle)

            def as_pages(func, per_request=0, **kw):
                yield func(**kw)
            m.Collection = Collection
            m.as_pages = as_pages
            setattr(tc, v, m)
            mods["taxii2client." + v] = m
        tc.exceptions = exc_m
        sys.modules.update(mods)
        return mods["taxii2client.v21"].Collection
    TaxiiCollection = _install_taxii_stub()

import stix2
from stix2 import parsing, registry
from stix2.base import _STIXBase
from stix2.datastore.filters import Filter
from stix2.datastore.filesystem import FileSystemSink, FileSystemSource, FileSystemStore
from stix2.datastore.memory import MemorySink, MemorySource, MemoryStore

if os.environ.get("TZ"):
    import time as _time
    _time.tzset()
WORKBENCH = "workbench" in sys.argv[1:]
if WORKBENCH:
    # importing the workbench replaces the 2.1 SDO classes of the registry by factory functions:
    # done only in a worker of its own
    import stix2.workbench as wb

TMP = tempfile.mkdtemp(prefix="c14_", dir=os.getcwd())
_n = [0]


def fresh_dir():
    _n[0] += 1
    d = os.path.join(TMP, "d%d" % _n[0])
    os.makedirs(d)
    return d


def clsname(c):
    if c is None:
        return None
    if isinstance(c, type):
        return c.__module__ + "." + c.__qualname__
    return type(c).__module__ + "." + type(c).__qualname__


def canon(x):
    return json.dumps(x, sort_keys=True, ensure_ascii=True, default=str)


def as_json(o):
    if isinstance(o, _STIXBase):
        return json.loads(o.serialize())
    return o


def restrict(js, inp):
    """keep, at every depth, only the members the input had: what the library adds by itself
    (defaulted timestamps, generated ids of embedded observables) is not part of the comparison"""
    if isinstance(inp, dict) and isinstance(js, dict):
        return {k: restrict(js[k], inp[k]) if k in js else "<absent>" for k in inp if k != "_valid_refs"}
    if isinstance(inp, list) and isinstance(js, list) and len(inp) == len(js):
        return [restrict(a, b) for a, b in zip(js, inp)]
    return js


def versions_of(k):
    """spec versions under which class k is registered (objects / observables)"""
    out = []
    for ver, cats in registry.STIX2_OBJ_MAPS.items():
        for cat in ("objects", "observables"):
            for c in cats.get(cat, {}).values():
                if isinstance(c, functools.partial) and c.args and isinstance(c.args[0], type):
                    c = c.args[0]          # workbench factory: partial(_environ.create, wrapped class)
                if c is k or (WORKBENCH and isinstance(c, type) and isinstance(k, type) and c in k.__mro__[:2]):
                    out.append(ver)
    return sorted(set(out))


def module_version(k):
    m = getattr(k, "__module__", "") or ""
    if m.startswith("stix2.v20"):
        return "2.0"
    if m.startswith("stix2.v21"):
        return "2.1"
    return None


def nested_versions(o, depth=0):
    """spec versions (by defining package) of every library object embedded in o, at any depth"""
    out = set()
    if depth > 12:
        return out
    if isinstance(o, _STIXBase):
        vals = list(getattr(o, "_inner", {}).values())
    elif isinstance(o, dict):
        vals = list(o.values())
    elif isinstance(o, (list, tuple)):
        vals = list(o)
    else:
        return out
    for x in vals:
        if isinstance(x, _STIXBase):
            mv = module_version(type(x))
            if mv:
                out.add(mv)
        out |= nested_versions(x, depth + 1)
    return out


def ok(o, inp, with_class=True):
    js = restrict(as_json(o), inp)
    if isinstance(o, _STIXBase):
        c = clsname(type(o))
    elif isinstance(o, dict):
        c = "dict"
    else:
        c = "other:" + type(o).__name__
    vers = versions_of(type(o)) if isinstance(o, _STIXBase) else None
    if isinstance(o, _STIXBase):
        top = module_version(type(o)) or (vers[0] if vers and len(vers) == 1 else None)
        # the members of a Bundle are objects in their own right (each read by its own detected version, a 2.1 bundle may
        # hold 2.0 objects): the rule is about what an object EMBEDS (extensions, observables of observed-data, markings)
        if o.get("type") == "bundle" and top == "2.1":
            other = []
        else:
            # (a 2.0 bundle cannot hold objects of a later spec version: the library refuses them itself)
            other = sorted(v for v in nested_versions(o) if top and v != top)
        if other:
            # an embedded object (extension, observable, marking, ...) of another spec version than the object holding it
            c = c + " +embedded objects of " + ",".join(other)
            vers = ["mixed: %s holding objects of %s" % (top, ",".join(other))]
    return ["ok", c if with_class else None, canon(js), vers]


def exc(e, inp=None):
    k = getattr(e, "cls", None)
    vers = None
    if isinstance(k, type) and isinstance(inp, dict) and getattr(k, "_type", None) == inp.get("type"):
        vers = versions_of(k)          # the error names the class chosen for the top-level object
    return ["exc", type(e).__name__, clsname(k), getattr(e, "prop_name", None), vers]


def guard(f, inp=None):
    try:
        return f()
    except Exception as e:  # noqa: BLE001 -- every exception is an observation
        return exc(e, inp)


def kw(cfg, names):
    return {k: cfg[k] for k in names if k in cfg}


# ---------------------------------------------------------------------------
# the entry points

def default_of(fn, name):
    p = inspect.signature(fn).parameters.get(name)
    if p is None or p.default is inspect.Parameter.empty:
        return None
    return p.default


def own_allow(cfg, fn, split=None):
    """allow_custom the caller gave, else the default the signature documents;
    FileSystemStore(allow_custom=None) documents True for its source, False for its sink."""
    if "allow_custom" in cfg:
        return bool(cfg["allow_custom"])
    d = default_of(fn, "allow_custom")
    if d is None and split is not None:
        return split
    return bool(d)


def single(res, inp, with_class=True):
    if res is None:
        return ["none"]
    if isinstance(res, list):
        if len(res) == 0:
            return ["none"]
        if len(res) > 1:
            return ["many", len(res)]
        res = res[0]
    return ok(res, inp, with_class)


BUNDLE_ID = "bundle--5d0092c5-5f74-4287-9642-33f4c354e56d"
BUNDLE_ID_V1 = "bundle--5d0092c5-5f74-1287-9642-33f4c354e56d"      # a version-1 UUID: 2.1 admits it, 2.0 does not


def bundle_of(d, v1=False):
    """the bundle a FileSystemSink(bundlify=True) would have written around d"""
    b = {"type": "bundle", "id": BUNDLE_ID_V1 if v1 else BUNDLE_ID}
    if "spec_version" not in d:
        b["spec_version"] = "2.0"
    b["objects"] = [d]
    return b


def write_fs(d, root, bundled=False, flat=False):
    t = d["type"]
    tdir = os.path.join(root, t)
    if flat:
        # legacy layout: <type>/<id>.json, in a type directory that ALSO holds a versioned entry
        # <type>/<other id>/<file>.json (so the directory is searched as a versioned one, and the flat
        # file is found by the backward-compatibility pass)
        other = t + "--5d0092c5-5f74-4287-9642-33f4c354e56d"
        os.makedirs(os.path.join(tdir, other), exist_ok=True)
        with io.open(os.path.join(tdir, other, "v1.json"), "w", encoding="utf-8") as f:
            json.dump(dict(d, id=other), f)
        with io.open(os.path.join(tdir, d["id"] + ".json"), "w", encoding="utf-8") as f:
            json.dump(d, f)
        return
    if "modified" in d:
        odir = os.path.join(tdir, d["id"])
        fn = os.path.join(odir, "v1.json")
    else:
        odir = tdir
        fn = os.path.join(tdir, d["id"] + ".json")
    os.makedirs(odir, exist_ok=True)
    with io.open(fn, "w", encoding="utf-8") as f:
        json.dump(bundle_of(d) if bundled else d, f)


def read_sink_dir(root, inp):
    found = []
    for dp, _dn, fns in os.walk(root):
        for fn in fns:
            if fn.endswith(".json"):
                with io.open(os.path.join(dp, fn), encoding="utf-8") as f:
                    found.append(json.load(f))
    if not found:
        return ["none"]
    if len(found) > 1:
        return ["many", len(found)]
    return ["ok", None, canon(restrict(found[0], inp)), None]


def mem_saved(sink, inp):
    """A MemorySink has no read method (save_to_file re-validates what it holds inside a new Bundle, so
    it is not an observation of what was accepted); its class docstring documents the attribute
    `_data` (id -> object, or -> family of versions): read the one object through it."""
    data = getattr(sink, "_data", None)
    oid = inp.get("id") if isinstance(inp, dict) else None
    if not isinstance(data, dict) or oid not in data:
        return ["ok", None, None, None]
    o = data[oid]
    vs = getattr(o, "all_versions", None)
    if isinstance(vs, dict):
        if len(vs) != 1:
            return ["many", len(vs)]
        o = list(vs.values())[0]
    return ok(o, inp)


def run_entry(name, cfg, d):
    """-> (outcome, [parser fn, own allow_custom, own interoperability])"""
    v = cfg.get("version")
    vk = {"version": v} if "version" in cfg else {}
    oid = d.get("id") if isinstance(d, dict) else None
    io_own = bool(cfg.get("interoperability", False))

    form = cfg.get("form")          # how the same content / the same arguments are handed over
    if name in ("parsing.parse", "parsing.dict_to_stix2", "environment.Environment.parse", "parsing.parse_observable"):
        obs = name == "parsing.parse_observable"
        fn = {"parsing.parse": stix2.parse, "parsing.dict_to_stix2": parsing.dict_to_stix2,
              "environment.Environment.parse": None, "parsing.parse_observable": stix2.parse_observable}[name]
        if fn is None:
            fn = stix2.Environment().parse
        k = kw(cfg, ("allow_custom", "interoperability", "version"))
        own = ["parse_observable" if obs else "parse", own_allow(cfg, stix2.parse_observable if obs else stix2.parse), io_own]

        def f():
            data = d
            if form == "str":
                data = json.dumps(d)
            elif form == "bytes":
                data = json.dumps(d).encode("utf-8")
            elif form == "file":
                data = io.StringIO(json.dumps(d))
            elif form == "mapping":
                data = types_mod.MappingProxyType(d)
            elif form == "userdict":
                data = collections.UserDict(d)
            elif form == "object":
                # the same content as a library object (built with the version the library detects)
                try:
                    data = (stix2.parse_observable if obs else stix2.parse)(d, allow_custom=True)
                except Exception:  # noqa: BLE001
                    return ["skip", "not buildable as an object"]
                if not isinstance(data, _STIXBase):
                    return ["skip", "not an object"]
            if form == "positional":
                a = [cfg.get("allow_custom", False), cfg.get("interoperability", False), cfg.get("version")]
                return ok(fn(data, [], *a) if obs else fn(data, *a), d)
            return ok(fn(data, **k), d)
        return guard(f, d), own

    if name == "workbench.parse":
        k = kw(cfg, ("allow_custom", "interoperability", "version"))
        return guard(lambda: ok(wb.parse(d, **k), d), d), ["parse", own_allow(cfg, stix2.parse), io_own]
    if name == "workbench.save":
        def f():
            wb.save(d, **vk)
            return single(wb.get(oid), d)
        return guard(f, d), ["parse", own_allow({}, MemoryStore.__init__), False]

    wrap = cfg.get("wrap")          # hand the object over inside a bundle dict / a list / as JSON text

    if name.startswith("taxii."):
        from stix2.datastore.taxii import TAXIICollectionSink, TAXIICollectionSource, TAXIICollectionStore
        ck = kw(cfg, ("allow_custom",))
        cname, m = name.split(".")[1], name.split(".")[2]
        C = {"TAXIICollectionSource": TAXIICollectionSource, "TAXIICollectionSink": TAXIICollectionSink,
             "TAXIICollectionStore": TAXIICollectionStore}[cname]
        if m == "add":
            def f():
                col = TaxiiCollection()
                snk = C(col, **ck)
                pl = d
                if wrap == "bundle":
                    pl = bundle_of(d)
                elif wrap == "list":
                    pl = [d]
                elif wrap == "str":
                    pl = json.dumps(d)
                snk.add(pl, **vk)
                if len(col.posted) != 1:
                    return ["many", len(col.posted)]
                b = col.posted[0]
                b = json.loads(b) if isinstance(b, (str, bytes)) else b
                objs = b.get("objects", [])
                if len(objs) != 1:
                    return ["many", len(objs)]
                return ["ok", None, canon(restrict(objs[0], d)), None]
            return guard(f, d), ["parse", own_allow(cfg, C.__init__, split=False), False]

        def f():
            src = C(TaxiiCollection([d]), **ck)
            if m == "query":
                r = src.query([Filter("id", "=", oid)], **vk)
            else:
                r = getattr(src, m)(oid, **vk)
            return single(r, d)
        return guard(f, d), ["parse", own_allow(cfg, C.__init__, split=True), False]


    def payload():
        if wrap == "bundle":
            return {"type": "bundle", "id": BUNDLE_ID, "objects": [d]}
        if wrap == "wbundle":           # a sink that parses the bundle as a whole
            return bundle_of(d)
        if wrap == "wbundle1":
            return bundle_of(d, v1=True)
        if wrap == "list":
            return [d]
        if wrap == "str":
            return json.dumps(d)
        if form == "mapping":
            return types_mod.MappingProxyType(d)
        if form == "userdict":
            return collections.UserDict(d)
        return d

    ck = kw(cfg, ("allow_custom",))
    if name in ("memory.MemoryStore.__init__", "memory.MemorySource.__init__", "memory.MemorySink.__init__"):
        C = {"memory.MemoryStore.__init__": MemoryStore, "memory.MemorySource.__init__": MemorySource,
             "memory.MemorySink.__init__": MemorySink}[name]

        def f():
            s = C(stix_data=[payload()] if wrap is None else payload(), **ck, **vk)
            if C is MemorySink:
                return mem_saved(s, d)
            return single(s.get(oid), d)
        return guard(f, d), ["parse", own_allow(cfg, C.__init__), False]
    if name in ("memory.MemoryStore.add", "memory.MemorySink.add"):
        C = MemoryStore if name.startswith("memory.MemoryStore") else MemorySink

        def f():
            s = C(**ck, **({"version": cfg["ctor_version"]} if "ctor_version" in cfg else {}))
            if form == "positional":
                s.add(payload(), v)
            else:
                s.add(payload(), **vk)
            if C is MemorySink:
                return mem_saved(s, d)
            return single(s.get(oid), d)
        return guard(f, d), ["parse", own_allow(cfg, C.__init__), False]
    if name in ("memory.MemoryStore.load_from_file", "memory.MemorySource.load_from_file"):
        C = MemoryStore if name.startswith("memory.MemoryStore") else MemorySource

        def f():
            root = fresh_dir()
            p = os.path.join(root, "in.json")
            with io.open(p, "w", encoding="utf-8") as fh:
                json.dump(payload(), fh)
            s = C(**ck, **({"version": cfg["ctor_version"]} if "ctor_version" in cfg else {}))
            s.load_from_file(p, **vk)
            return single(s.get(oid), d)
        return guard(f, d), ["parse", own_allow(cfg, C.__init__), False]
    if name.startswith("filesystem.FileSystemSource.") or name in (
            "filesystem.FileSystemStore.get", "filesystem.FileSystemStore.all_versions", "filesystem.FileSystemStore.query"):
        C = FileSystemSource if "FileSystemSource" in name else FileSystemStore
        m = name.rsplit(".", 1)[1]

        def f():
            root = fresh_dir()
            write_fs(d, root, bundled=(wrap == "bundlefile"), flat=(wrap == "flatfile"))
            s = C(os.path.relpath(root) if form == "relpath" else root, **ck)
            if m == "query":
                r = s.query([Filter("id", "=", oid)], v) if form == "positional" else s.query([Filter("id", "=", oid)], **vk)
            else:
                r = getattr(s, m)(oid, v) if form == "positional" else getattr(s, m)(oid, **vk)
            return single(r, d)
        return guard(f, d), ["parse", own_allow(cfg, C.__init__, split=True), False]
    if name in ("filesystem.FileSystemSink.add", "filesystem.FileSystemStore.add"):
        C = FileSystemSink if "FileSystemSink" in name else FileSystemStore

        def f():
            root = fresh_dir()
            s = C(os.path.relpath(root) if form == "relpath" else root, **ck)
            if form == "positional":
                s.add(payload(), v)
            else:
                s.add(payload(), **vk)
            return read_sink_dir(root, d)
        return guard(f, d), ["parse", own_allow(cfg, C.__init__, split=False), False]
    return ["undriven", name], ["parse", False, False]


def run_direct(fn, ac, io_, v, d):
    f = stix2.parse if fn == "parse" else stix2.parse_observable
    return guard(lambda: ok(f(d, allow_custom=ac, interoperability=io_, version=v), d), d)


def run_direct_bundle(ac, io_, v, d, v1=False):
    """what reading d out of a bundle file must amount to: parse the bundle, take its first member"""
    return guard(lambda: ok(stix2.parse(bundle_of(d, v1), allow_custom=ac, interoperability=io_, version=v)["objects"][0], d), d)


# ---------------------------------------------------------------------------

def op_registry(_c):
    out = {}
    for ver in ("2.0", "2.1"):
        for cat in ("objects", "observables"):
            out["%s/%s" % (ver, cat)] = sorted(registry.STIX2_OBJ_MAPS[ver][cat].keys())
    return out


def op_probe(c):
    d = c["data"]
    import time
    ents, owns, tm = [], [], {}
    for name, cfg in c.get("entries", []):
        t0 = time.perf_counter()
        o, own = run_entry(name, cfg, d)
        k = name.split(".")[0] + ("/" + cfg["wrap"] if cfg.get("wrap") else "")
        tm[k] = tm.get(k, 0.0) + time.perf_counter() - t0
        ents.append(o)
        owns.append(own)
    t0 = time.perf_counter()
    dirs = [run_direct(fn, ac, io_, v, d) for fn, ac, io_, v in c.get("direct", [])]
    bdirs = [run_direct_bundle(ac, io_, v, d) for ac, io_, v in c.get("direct_bundle", [])]
    bdirs1 = [run_direct_bundle(ac, io_, v, d, True) for ac, io_, v in c.get("direct_bundle1", [])]
    tm["direct"] = time.perf_counter() - t0
    return {"entries": ents, "own": owns, "direct": dirs, "direct_bundle": bdirs, "direct_bundle1": bdirs1, "t": tm}


def show_detect(r):
    try:
        json.dumps(r)
        return ["V", r]
    except (TypeError, ValueError):
        return ["Vother", type(r).__name__]


def op_detect(c):
    from stix2.utils import detect_spec_version
    try:
        return show_detect(detect_spec_version(c["data"]))
    except KeyError as e:
        return ["KeyError", e.args[0] if e.args and isinstance(e.args[0], str) else None]
    except Exception as e:  # noqa: BLE001
        return [type(e).__name__]


def op_pick(c):
    """which class parse / parse_observable chooses (the class of the result, or the class a
    construction error names)"""
    f = stix2.parse if c["fn"] == "parse" else stix2.parse_observable
    try:
        r = f(c["data"], allow_custom=c["ac"], version=c["version"])
    except Exception as e:  # noqa: BLE001
        k = getattr(e, "cls", None)
        if k is not None:
            if getattr(k, "_type", None) != (c["data"].get("type") if isinstance(c["data"], dict) else None):
                return ["nested"]       # the error names the class of an embedded object
            return ["class", classify(k)]
        return ["exc", type(e).__name__, e.args[0] if isinstance(e, KeyError) and e.args and isinstance(e.args[0], str) else None]
    if isinstance(r, _STIXBase):
        return ["class", classify(type(r))]
    if isinstance(r, dict):
        return ["dict"]
    return ["other", type(r).__name__]


def classify(k):
    hits = []
    for ver, cats in registry.STIX2_OBJ_MAPS.items():
        for cat in ("objects", "observables"):
            for t, c in cats.get(cat, {}).items():
                if c is k:
                    hits.append([ver, cat])
    return hits[0] if len(hits) == 1 else ["?", clsname(k)]


def op_idcheck(c):
    from stix2.properties import IDProperty, ReferenceProperty
    try:
        if c["kind"] == "id":
            IDProperty(c["type"], spec_version=c["spec_version"]).clean(c["value"], False, c["interop"])
        else:
            ReferenceProperty(invalid_types=[], spec_version=c["spec_version"]).clean(c["value"], True, c["interop"])
        return ["ok"]
    except ValueError as e:
        msg = str(e)
        if msg.startswith("must start with"):
            return ["bad-prefix"]
        if msg.startswith("not a valid STIX identifier"):
            return ["invalid"]
        return ["ValueError", msg[:60]]
    except Exception as e:  # noqa: BLE001
        return [type(e).__name__]


def op_own(c):
    """library-produced content of version V handed back without a version"""
    d, V = c["data"], c["version"]
    fn = stix2.parse_observable if c.get("observable") else stix2.parse
    try:
        o = fn(d, version=V) if not c.get("construct") else None
    except Exception as e:  # noqa: BLE001
        return {"built": False, "why": exc(e)}
    if not isinstance(o, _STIXBase):
        return {"built": False, "why": ["not-an-object"]}
    text = o.serialize()
    want = clsname(type(o))
    js = json.loads(text)
    res = {"built": True, "class": want, "text": text, "via": {}}

    def cls_of(f):
        try:
            r = f()
        except Exception as e:  # noqa: BLE001
            return exc(e)
        if isinstance(r, list):
            r = r[0] if len(r) == 1 else None
        return ["ok", clsname(type(r)) if isinstance(r, _STIXBase) else ("dict" if isinstance(r, dict) else "none")]
    if c.get("observable") and "id" not in js:
        res["via"]["parse_observable"] = cls_of(lambda: stix2.parse_observable(text))
        return res
    if c.get("observable"):
        res["via"]["parse_observable"] = cls_of(lambda: stix2.parse_observable(text))
    res["via"]["parse"] = cls_of(lambda: stix2.parse(text))
    res["via"]["parse(dict)"] = cls_of(lambda: stix2.parse(json.loads(text)))
    if js.get("type") != "bundle":
        oid = js["id"]

        def mem():
            s = MemoryStore()
            s.add(json.loads(text))
            return s.get(oid)
        res["via"]["MemoryStore.add/get"] = cls_of(mem)

        def mem2():
            return MemoryStore(stix_data=[json.loads(text)]).get(oid)
        res["via"]["MemoryStore(stix_data)"] = cls_of(mem2)

        def fs():
            root = fresh_dir()
            FileSystemSink(root).add(text)
            return FileSystemSource(root).get(oid)
        res["via"]["FileSystemSink.add/Source.get"] = cls_of(fs)

        def fs2():
            root = fresh_dir()
            write_fs(js, root)
            return FileSystemSource(root).query([Filter("id", "=", oid)])
        res["via"]["FileSystemSource.query"] = cls_of(fs2)
    return res


def op_bundle(c):
    """an (empty or not) bundle built by the library for version V, handed back without a version"""
    B = stix2.v21.Bundle if c["version"] == "2.1" else stix2.v20.Bundle
    try:
        members = [stix2.parse(m, version=c["version"], allow_custom=True) for m in c.get("members", [])]
        b = B(*members, allow_custom=True) if members else B()
    except Exception as e:  # noqa: BLE001
        return {"built": False, "why": exc(e)}
    text = b.serialize()
    try:
        r = stix2.parse(text, allow_custom=True)
        got = ["ok", clsname(type(r))]
    except Exception as e:  # noqa: BLE001
        got = exc(e)
    return {"built": True, "class": clsname(B), "text": text, "via": {"parse": got}}


def op_order(c):
    """History independence: the question (content, version `second`) asked through `entry` AFTER the same
    content was parsed under version `first`, and the same question about a copy whose id this process has
    never seen.  The ids are replaced by a placeholder in what is reported."""
    def mask(o, ids):
        t = json.dumps(o)
        for i in ids:
            t = t.replace(i, "<ID>")
        return json.loads(t)
    seen, fresh = c["seen"], c["fresh"]            # same content, two different ids of the same kind
    ids = c["ids"]
    p1 = c.get("first_flags") or {"allow_custom": c["ac"], "interoperability": False}
    p2 = dict(c.get("second_flags") or {"allow_custom": c["ac"]}, version=c["second"])
    if p2.get("version") is None:
        del p2["version"]
    prime = run_direct("parse", bool(p1.get("allow_custom")), bool(p1.get("interoperability")), c["first"], c["prime"])
    if c.get("twice"):
        prime = run_direct("parse", bool(p1.get("allow_custom")), bool(p1.get("interoperability")), c["first"], c["prime"])
    after, _ = run_entry(c["entry"], p2, seen)
    ref, _ = run_entry(c["entry"], p2, fresh)
    return {"prime": mask(prime, ids), "after": mask(after, ids), "fresh": mask(ref, ids)}


def op_mixed(c):
    """One store holding library output of BOTH versions in different type directories, read back without a
    version through queries that span several types: every object must come back as the class it was serialised from."""
    want, texts = {}, {}
    for it in c["items"]:
        try:
            o = stix2.parse(it["data"], version=it["version"])
        except Exception:  # noqa: BLE001 -- not buildable: not part of the store
            continue
        if not isinstance(o, _STIXBase) or "id" not in o:
            continue
        js = json.loads(o.serialize())
        if js["type"] in [t["type"] for t in texts.values()]:
            continue
        want[js["id"]] = clsname(type(o))
        texts[js["id"]] = js
    if len(want) < 2:
        return {"built": len(want), "want": want, "got": {}}
    root = fresh_dir()
    for js in texts.values():
        write_fs(js, root)
    types = sorted({js["type"] for js in texts.values()})

    def classes(f):
        try:
            r = f()
        except Exception as e:  # noqa: BLE001
            return {"exc": exc(e)[:4]}
        out = {}
        for o in r:
            i = o.get("id") if isinstance(o, dict) or isinstance(o, _STIXBase) else None
            out[i] = clsname(type(o)) if isinstance(o, _STIXBase) else ("dict" if isinstance(o, dict) else "other")
        return out
    got = {
        "FileSystemSource.query()": classes(lambda: FileSystemSource(root).query()),
        "FileSystemSource.query(type in ..)": classes(lambda: FileSystemSource(root).query([Filter("type", "in", types)])),
        "FileSystemStore.query()": classes(lambda: FileSystemStore(root).query()),
    }

    def mem():
        st = MemoryStore()
        st.add([dict(js) for js in texts.values()])
        return st.query()
    got["MemoryStore.add(list)/query()"] = classes(mem)

    def mem_file():
        p = os.path.join(fresh_dir(), "b.json")
        with io.open(p, "w", encoding="utf-8") as f:
            json.dump({"type": "bundle", "id": BUNDLE_ID, "objects": list(texts.values())}, f)
        st = MemoryStore()
        st.load_from_file(p)
        return st.query()
    got["MemoryStore.load_from_file/query()"] = classes(mem_file)

    def per_id():
        src = FileSystemSource(root)
        return [x for i in texts for x in src.all_versions(i)]
    got["FileSystemSource.all_versions(each id)"] = classes(per_id)
    return {"built": len(want), "want": want, "got": got, "dir_order": os.listdir(root)}


def op_collide(c):
    """A custom 2.0 object type and a custom 2.1 observable type of the SAME name, both registered with the public
    decorators (this changes the registries of the process: run in a worker of its own).  The 2.0 object's own
    serialisation is handed back without a version, before and after the 2.1 registration."""
    from stix2 import properties as P, v20, v21
    name = c["name"]

    @v20.CustomObject(name, [("name", P.StringProperty(required=True))])
    class Obj20(object):
        pass
    o = Obj20(name="a", id="%s--c9bd2a4e-2b1c-4d3e-8f00-0123456789ab" % name,
              created="2020-01-01T00:00:00.000Z", modified="2020-01-01T00:00:00.000Z")
    text = o.serialize()

    def back(**k):
        try:
            r = stix2.parse(text, **k)
            return ["ok", "same-class" if type(r) is type(o) else clsname(type(r)), versions_of(type(r))]
        except Exception as e:  # noqa: BLE001
            return exc(e, json.loads(text))
    before = back()

    @v21.CustomObservable(name, [("name", P.StringProperty(required=True))], ["name"])
    class Obs21(object):
        pass
    return {"text": text, "before": before, "after": back(), "after_named_20": back(version="2.0")}


def op_idpos(c):
    """the same UUID text as an object's own id and as a reference held by an object of the same spec version"""
    from stix2.properties import IDProperty, ReferenceProperty

    def verdict(f):
        try:
            f()
            return "ok"
        except ValueError as e:
            return "invalid" if str(e).startswith("not a valid STIX identifier") else "other:" + str(e)[:40]
        except Exception as e:  # noqa: BLE001
            return "exc:" + type(e).__name__
    v = c["value"]
    out = {"id": verdict(lambda: IDProperty("identity", spec_version=c["spec_version"]).clean(v, False, c["interop"])),
           "ref": verdict(lambda: ReferenceProperty(valid_types="identity", spec_version=c["spec_version"]).clean(v, False, c["interop"]))}
    if c.get("object"):
        d, key = c["object"], c["key"]
        own = run_direct("parse", True, c["interop"], c["spec_version"], dict(d, id=d["id"].split("--", 1)[0] + "--" + v.split("--", 1)[1]))
        held = run_direct("parse", True, c["interop"], c["spec_version"], dict(d, **{key: v if key != "object_marking_refs" else [v]}))
        out["own_id"] = own[:4]
        out["held_ref"] = held[:4]
    return out


OPS = {"idpos": op_idpos, "collide": op_collide, "mixed": op_mixed, "order": op_order, "registry": op_registry, "probe": op_probe, "detect": op_detect, "pick": op_pick,
       "idcheck": op_idcheck, "own": op_own, "bundle": op_bundle}

try:
    for line in sys.stdin:
        line = line.strip()
        if line:
            c = json.loads(line)
            print(json.dumps(OPS[c["op"]](c)))
finally:
    shutil.rmtree(TMP, ignore_errors=True)

"""Implementation side of C10 (pattern text <-> object model).

One JSON case per stdin line, one JSON result per stdout line.

  {"kind": "parse", "text": ..., "version": "2.1"|"2.0"}
      -> tree   the real ANTLR parse tree, printed like Model/PatternShow.shape
         ast    "OK <dump>" | "EXC <class>"   create_pattern_object(text)
         str    str(object)            toks   the real lexer's tokens of str(object)
         m_tree meaning read off the real parse tree (oracle, independent of the visitor)
         m_ast  meaning read off the object model (oracle)
         re_ast/re_str  create_pattern_object(str(object)) and its str()
         valid_in/valid_out  does the real parser accept the text / the printed text
  {"kind": "prog", "spec": <object-model spec>, "version": ...}
      -> the same observations for an object built through the public classes of stix2.patterns

Only public behaviour is observed: attributes of the model classes, str(), exception classes.

Optional keys of a case (the "alternate run" of harness/props/c10.py: every answer must equal the default run):
  "tz": a POSIX TZ value set (time.tzset) before the case is run
  "forms": "alt" -- the same call / the same object through another public argument form (version positional or
      left to its default, constants from their text forms, keyword arguments, plain values for qualifiers);
      "alt_k" rotates which form is taken
  "hist": "merge" | "extend" -- a history for objects built through the classes: every object path is first built
      from a prefix of its steps, the whole object is PRINTED, then the remaining steps are added through the public
      mutator ObjectPath.merge (or by extending the public property_path list in place), and only then the object is
      observed; what is observed must be what the finished object is
Worker argument --hashseed=N: re-executes the interpreter with PYTHONHASHSEED=N.
"""
import datetime
import json
import os
import sys
import time
from decimal import Decimal

import antlr4
import stix2.patterns as P
from stix2.pattern_visitor import create_pattern_object
from stix2patterns.exceptions import ParseException
from stix2patterns.v20.grammars.STIXPatternLexer import STIXPatternLexer as Lexer20
from stix2patterns.v20.grammars.STIXPatternParser import STIXPatternParser as Parser20
from stix2patterns.v21.grammars.STIXPatternLexer import STIXPatternLexer as Lexer21
from stix2patterns.v21.grammars.STIXPatternParser import STIXPatternParser as Parser21
from stix2patterns.v21.validator import ValidationListener as VL21, DuplicateQualifierTypeError as Dup21

def q(s):
    """printable ASCII except backslash and double quote as is, everything else \\XXXXXX
    (Model/PatternShow.show_q)"""
    return "".join(c if (32 <= ord(c) <= 126 and c not in '\\"()[];,') else "\\%06X" % ord(c) for c in s)


# ---------------------------------------------------------------- real parser

class _Err(antlr4.error.ErrorListener.ErrorListener):
    def __init__(self):
        self.errors = []

    def syntaxError(self, recognizer, offendingSymbol, line, column, msg, e):
        self.errors.append("%d:%d %s" % (line, column, msg))


def real_parse(text, version):
    """(tree, parser) or raises ValueError on any lexer/parser error."""
    L, Pz = (Lexer21, Parser21) if version == "2.1" else (Lexer20, Parser20)
    err = _Err()
    lexer = L(antlr4.InputStream(text))
    lexer.removeErrorListeners()
    lexer.addErrorListener(err)
    parser = Pz(antlr4.CommonTokenStream(lexer))
    parser.removeErrorListeners()
    parser.addErrorListener(err)
    tree = parser.pattern()
    if err.errors:
        raise ValueError("; ".join(err.errors))
    # InvalidCharacter tokens are lexed, not rejected, by the lexer; the parser rejects them.
    return tree, parser


def real_tokens(text, version):
    L = Lexer21 if version == "2.1" else Lexer20
    lexer = L(antlr4.InputStream(text))
    lexer.removeErrorListeners()
    out = []
    for t in lexer.getAllTokens():
        out.append("%s:%d" % (L.symbolicNames[t.type], len(t.text)))
    return " ".join(out)


def tree_shape(node):
    if isinstance(node, antlr4.tree.Tree.TerminalNode):
        return q(node.getText())
    name = type(node).__name__
    if name.endswith("Context"):
        name = name[:-7]
    return "(%s %s)" % (name, " ".join(tree_shape(c) for c in node.getChildren()))


def valid(text, version):
    """The printed text is a valid pattern: the real parser accepts it and no
    qualifier type is duplicated on one observation expression (the part of
    stix2patterns' validator that does not depend on its inspector)."""
    try:
        tree, _ = real_parse(text, version)
    except ValueError:
        return False
    if version == "2.1":      # the 2.0 validator of stix2patterns has no such check
        try:
            antlr4.ParseTreeWalker.DEFAULT.walk(VL21(), tree)
        except Dup21:
            return False
    return True


# ---------------------------------------------------------------- dumps

def fdigits(v):
    """A Python float as sign, integer digits, fraction digits (positional, from repr)."""
    r = repr(v)
    if r in ("inf", "-inf", "nan"):
        return "F(%s)" % r
    d = Decimal(r)
    s = format(d, "f")
    neg = s.startswith("-")
    s = s.lstrip("+-")
    ip, _, fp = s.partition(".")
    return "F(%s,%s,%s)" % ("-" if neg else "+", ip.lstrip("0"), fp.rstrip("0"))


def ts_dump(v):
    return "T(%d,%d,%d,%d,%d,%d,%06d)" % (v.year, v.month, v.day, v.hour, v.minute, v.second, v.microsecond)


class Junk(Exception):
    pass


def d_const(o):
    t = type(o)
    if t is P.ListConstant:
        return "L[%s]" % ";".join(d_const(x) for x in o.value)
    if t is P.StringConstant or t is P.HashConstant:
        return "S(%s,%s)" % (q(o.value), "q" if o.needs_to_be_quoted else "r")
    if t is P.TimestampConstant:
        return ts_dump(o.value)
    if t is P.IntegerConstant:
        if type(o.value) is not int:
            raise Junk("IntegerConstant.value %r" % type(o.value))
        return "I(%d)" % o.value
    if t is P.FloatConstant:
        return fdigits(o.value)
    if t is P.BooleanConstant:
        return "B(t)" if o.value else "B(f)"
    if t is P.BinaryConstant:
        return "Y(%s)" % q(o.value)
    if t is P.HexConstant:
        return "H(%s)" % q(o.value)
    raise Junk(t.__name__)


def d_idx(i):
    if type(i) is int:
        return "i%d" % i
    if type(i) is str:
        return "s" + q(i)
    raise Junk("index %s" % type(i).__name__)


def d_comp(o):
    t = type(o)
    if type(o.property_name) is not str:
        raise Junk("property_name")
    if t is P.BasicObjectPathComponent:
        return "b(%s)" % q(o.property_name)
    if t is P.ListObjectPathComponent:
        return "l(%s,%s)" % (q(o.property_name), d_idx(o.index))
    if t is P.ReferenceObjectPathComponent:
        return "r(%s)" % q(o.property_name)
    raise Junk(t.__name__)


def d_path(o):
    if type(o) is not P.ObjectPath:
        raise Junk(type(o).__name__)
    return "P(%s)[%s]" % (q(o.object_type_name), ";".join(d_comp(c) for c in o.property_path))


CMP = {P.EqualityComparisonExpression: "Equality", P.GreaterThanComparisonExpression: "GreaterThan",
       P.LessThanComparisonExpression: "LessThan", P.GreaterThanEqualComparisonExpression: "GreaterThanEqual",
       P.LessThanEqualComparisonExpression: "LessThanEqual", P.InComparisonExpression: "In",
       P.LikeComparisonExpression: "Like", P.MatchesComparisonExpression: "Matches",
       P.IsSubsetComparisonExpression: "IsSubset", P.IsSupersetComparisonExpression: "IsSuperset"}
BOOL = {P.AndBooleanExpression: "AND", P.OrBooleanExpression: "OR"}
CPD = {P.AndObservationExpression: "AND", P.OrObservationExpression: "OR", P.FollowedByObservationExpression: "FOLLOWEDBY"}


def d_qual(o):
    t = type(o)
    if t is P.RepeatQualifier:
        return "Rep(%s)" % d_const(o.times_to_repeat)
    if t is P.WithinQualifier:
        return "Win(%s)" % d_const(o.number_of_seconds)
    if t is P.StartStopQualifier:
        return "SS(%s;%s)" % (d_const(o.start_time), d_const(o.stop_time))
    raise Junk(t.__name__)


def d_expr(o):
    t = type(o)
    if t in CMP:
        if type(o.negated) is not bool or type(o.operator) is not str:
            raise Junk("negated/operator")
        return "Cmp(%s,%s,%s,%s,%s)" % (CMP[t], q(o.operator), "1" if o.negated else "0", d_path(o.lhs), d_const(o.rhs))
    if t in BOOL:
        if o.operator != BOOL[t]:
            raise Junk("operator")
        return "Bool(%s)[%s]" % (BOOL[t], ";".join(d_expr(x) for x in o.operands))
    if t is P.ObservationExpression:
        return "Obs[%s]" % d_expr(o.operand)
    if t in CPD:
        if o.operator != CPD[t]:
            raise Junk("operator")
        return "Cpd(%s)[%s]" % (CPD[t], ";".join(d_expr(x) for x in o.operands))
    if t is P.ParentheticalExpression:
        return "Par[%s]" % d_expr(o.expression)
    if t is P.QualifiedObservationExpression:
        return "Qual[%s;%s]" % (d_expr(o.observation_expression), d_qual(o.qualifier))
    raise Junk(t.__name__)


def dump(o):
    try:
        return "OK " + d_expr(o)
    except Junk as e:
        return "JUNK " + str(e)


# ---------------------------------------------------------------- oracle: meaning
# (the property's own notion of "what the pattern says"; written against the
#  STIX patterning text, independent of the Coq model and of the visitor)

def unesc(body):
    out, i = [], 0
    while i < len(body):
        if body[i] == "\\" and i + 1 < len(body):
            out.append(body[i + 1])
            i += 2
        else:
            out.append(body[i])
            i += 1
    return "".join(out)


def m_ts_text(inner):
    # YYYY-MM-DDTHH:MM:SS(.f+)?Z  -> instant with the fraction as written (trailing zeros are not significant)
    date, _, rest = inner.partition("T")
    y, mo, d = date.split("-")
    hms, _, frac = rest[:-1].partition(".")
    h, mi, s = hms.split(":")
    return "T(%d,%d,%d,%d,%d,%d,%s)" % (int(y), int(mo), int(d), int(h), int(mi), int(s), frac.rstrip("0"))


def m_float_text(t):
    neg = t.startswith("-")
    t = t.lstrip("+-")
    ip, _, fp = t.partition(".")
    return "F(%s,%s,%s)" % ("-" if neg else "+", ip.lstrip("0"), fp.rstrip("0"))


def m_literal_tok(kind, text):
    if kind in ("IntPosLiteral", "IntNegLiteral"):
        return "I(%d)" % int(text)
    if kind in ("FloatPosLiteral", "FloatNegLiteral"):
        return m_float_text(text)
    if kind == "StringLiteral":
        return "S(%s)" % q(unesc(text[1:-1]))
    if kind == "BoolLiteral":
        return "B(t)" if text == "true" else "B(f)"
    if kind == "HexLiteral":
        return "H(%s)" % q(text[2:-1])
    if kind == "BinaryLiteral":
        return "Y(%s)" % q(text[2:-1])
    if kind == "TimestampLiteral":
        return m_ts_text(text[2:-1])
    return "BAD"


def m_name(text):
    return unesc(text[1:-1]) if text.startswith("'") else text


class TreeMeaning:
    """Meaning read off a real ANTLR parse tree."""

    def __init__(self, parser_class):
        self.Pz = parser_class

    def kind(self, term):
        return self.Pz.symbolicNames[term.symbol.type]

    def lit(self, ctx):
        # primitiveLiteral / orderableLiteral / a bare terminal
        while not isinstance(ctx, antlr4.tree.Tree.TerminalNode):
            ctx = ctx.getChild(0)
        return m_literal_tok(self.kind(ctx), ctx.getText())

    def steps(self, ctx, out):
        name = type(ctx).__name__
        if name == "PathStepContext":
            for c in ctx.getChildren():
                self.steps(c, out)
        elif name == "KeyPathStepContext":
            out.append("k(%s)" % q(m_name(ctx.getChild(1).getText())))
        elif name == "IndexPathStepContext":
            t = ctx.getChild(1)
            out.append("*" if t.getText() == "*" else "i(%d)" % int(t.getText()))
        else:
            raise ValueError(name)

    def path(self, ctx):
        ty = ctx.getChild(0).getText()
        out = ["k(%s)" % q(m_name(ctx.getChild(2).getText()))]
        if ctx.getChildCount() > 3:
            self.steps(ctx.getChild(3), out)
        return "P(%s)[%s]" % (q(ty), ";".join(out))

    def chain(self, ctx, sub, fmt):
        """flatten the left spine of a left-recursive binary rule"""
        items = []
        while ctx.getChildCount() == 3:
            items.append(sub(ctx.getChild(2).getChild(0)))
            ctx = ctx.getChild(0)
        items.append(sub(ctx.getChild(0)))
        items.reverse()
        return items[0] if len(items) == 1 else fmt % ";".join(items)

    def proptest(self, ctx):
        name = type(ctx).__name__
        kids = list(ctx.getChildren())
        if name == "PropTestParenContext":
            return "Par[%s]" % self.cmp_or(kids[1])
        if name == "PropTestExistsContext":
            neg = self.kind(kids[0]) == "NOT"
            return "Exists(%s,%s)" % (self.path(kids[-1]), "1" if neg else "0")
        p = self.path(kids[0])
        neg = self.kind(kids[1]) == "NOT" if isinstance(kids[1], antlr4.tree.Tree.TerminalNode) else False
        opt = kids[2] if neg else kids[1]
        rhs = kids[-1]
        k = self.kind(opt)
        if name == "PropTestEqualContext":
            if k == "NEQ":
                neg = not neg
            return "Cmp(%s,=,%s,%s)" % (p, "1" if neg else "0", self.lit(rhs))
        if name == "PropTestOrderContext":
            op = {"GT": ">", "LT": "<", "GE": ">=", "LE": "<="}[k]
            return "Cmp(%s,%s,%s,%s)" % (p, op, "1" if neg else "0", self.lit(rhs))
        if name == "PropTestSetContext":
            elems = [self.lit(c) for c in rhs.getChildren() if not isinstance(c, antlr4.tree.Tree.TerminalNode)]
            return "Cmp(%s,IN,%s,L[%s])" % (p, "1" if neg else "0", ";".join(elems))
        op = {"PropTestLikeContext": "LIKE", "PropTestRegexContext": "MATCHES",
              "PropTestIsSubsetContext": "ISSUBSET", "PropTestIsSupersetContext": "ISSUPERSET"}[name]
        return "Cmp(%s,%s,%s,%s)" % (p, op, "1" if neg else "0", self.lit(rhs))

    def cmp_and(self, ctx):
        return self.chain(ctx, self.proptest, "Bool(AND)[%s]")

    def cmp_or(self, ctx):
        return self.chain(ctx, self.cmp_and, "Bool(OR)[%s]")

    def qual(self, ctx):
        name = type(ctx).__name__
        if name == "StartStopQualifierContext":
            return "SS(%s;%s)" % (self.lit(ctx.getChild(1)), self.lit(ctx.getChild(3)))
        if name == "WithinQualifierContext":
            return "Win(%s)" % self.lit(ctx.getChild(1))
        return "Rep(%s)" % self.lit(ctx.getChild(1))

    def obs(self, ctx):
        name = type(ctx).__name__
        if name == "ObservationExpressionSimpleContext":
            return "Obs[%s]" % self.cmp_or(ctx.getChild(1))
        if name == "ObservationExpressionCompoundContext":
            return "Par[%s]" % self.fb(ctx.getChild(1))
        return "Qual[%s;%s]" % (self.obs(ctx.getChild(0)), self.qual(ctx.getChild(1)))

    def oand(self, ctx):
        return self.chain(ctx, self.obs, "Cpd(AND)[%s]")

    def oor(self, ctx):
        return self.chain(ctx, self.oand, "Cpd(OR)[%s]")

    def fb(self, ctx):
        return self.chain(ctx, self.oor, "Cpd(FOLLOWEDBY)[%s]")

    def pattern(self, tree):
        return self.fb(tree.getChild(0))


def om_const(o):
    """Meaning of a constant of the object model."""
    t = type(o)
    if t is P.ListConstant:
        return "L[%s]" % ";".join(om_const(x) for x in o.value)
    if t is P.StringConstant or t is P.HashConstant:
        return "S(%s)" % q(o.value if o.needs_to_be_quoted else unesc(o.value))
    if t is P.TimestampConstant:
        v = o.value
        return "T(%d,%d,%d,%d,%d,%d,%s)" % (v.year, v.month, v.day, v.hour, v.minute, v.second, ("%06d" % v.microsecond).rstrip("0"))
    return d_const(o)


def om_name(n):
    # a component's name is read the way it prints
    s = P.quote_if_needed(n)
    return m_name(s)


def om_path(o):
    steps = []
    for c in o.property_path:
        steps.append("k(%s)" % q(om_name(c.property_name)))
        if type(c) is P.ListObjectPathComponent:
            i = c.index
            if i == "*":
                steps.append("*")
            else:
                try:
                    steps.append("i(%d)" % int(i))
                except (TypeError, ValueError):
                    steps.append("BAD")
    return "P(%s)[%s]" % (q(o.object_type_name), ";".join(steps))


def om_tree(o):
    """meaning of an object as a nested tuple; an unparenthesised first operand
    with the same operator continues the chain (that is how the text reads)"""
    t = type(o)
    if t in CMP:
        return ("leaf", "Cmp(%s,%s,%s,%s)" % (om_path(o.lhs), o.operator, "1" if o.negated else "0", om_const(o.rhs)))
    if t in BOOL or t in CPD:
        tag = ("Bool", BOOL[t]) if t in BOOL else ("Cpd", CPD[t])
        items = [om_tree(x) for x in o.operands]
        if items and items[0][0] == "op" and items[0][1] == tag:
            items = items[0][2] + items[1:]
        return ("op", tag, items)
    if t is P.ObservationExpression:
        if isinstance(o.operand, (P.ObservationExpression, P._CompoundObservationExpression)):
            return om_tree(o.operand)
        return ("wrap", "Obs", om_tree(o.operand))
    if t is P.ParentheticalExpression:
        return ("wrap", "Par", om_tree(o.expression))
    if t is P.QualifiedObservationExpression:
        ql = o.qualifier
        if type(ql) is P.RepeatQualifier:
            qs = "Rep(%s)" % om_const(ql.times_to_repeat)
        elif type(ql) is P.WithinQualifier:
            qs = "Win(%s)" % om_const(ql.number_of_seconds)
        elif type(ql) is P.StartStopQualifier:
            qs = "SS(%s;%s)" % (om_const(ql.start_time), om_const(ql.stop_time))
        else:
            raise Junk(type(ql).__name__)
        return ("qual", om_tree(o.observation_expression), qs)
    raise Junk(t.__name__)


def om_render(t):
    if t[0] == "leaf":
        return t[1]
    if t[0] == "op":
        return "%s(%s)[%s]" % (t[1][0], t[1][1], ";".join(om_render(x) for x in t[2]))
    if t[0] == "wrap":
        return "%s[%s]" % (t[1], om_render(t[2]))
    return "Qual[%s;%s]" % (om_render(t[1]), t[2])


def om_expr(o):
    return om_render(om_tree(o))


def meaning_of_object(o):
    try:
        return om_expr(o)
    except Junk as e:
        return "JUNK " + str(e)
    except Exception as e:  # noqa: BLE001
        return "JUNK " + type(e).__name__


# ---------------------------------------------------------------- programmatic construction

ALT = {"on": False, "k": 0}
HIST = {"mode": None, "pending": []}


def alt(n):
    """which of n argument forms to take (0 = the default form)"""
    if not ALT["on"]:
        return 0
    ALT["k"] += 1
    return ALT["k"] % n


def ts_text(v):
    y, mo, d, h, mi, sec, us = v
    frac = (".%06d" % us).rstrip("0") if us else ""
    return "%04d-%02d-%02dT%02d:%02d:%02d%sZ" % (y, mo, d, h, mi, sec, frac)


def b_const(s):
    k = s["k"]
    if k == "raw":           # a plain Python value: the classes convert it with make_constant
        return s["v"]
    if ALT["on"]:
        a = alt(3)
        if k == "str" and a:
            return P.StringConstant(value=s["v"], from_parse_tree=False) if a == 1 else P.StringConstant(s["v"], False)
        if k == "int" and a:
            return P.IntegerConstant(str(s["v"])) if a == 1 else P.IntegerConstant(value=s["v"])
        if k == "float" and a:
            return P.FloatConstant(s["v"]) if a == 1 else P.FloatConstant(value=float(s["v"]))
        if k == "bool" and a:
            return P.BooleanConstant(("true" if s["v"] else "false") if a == 1 else (1 if s["v"] else 0))
        if k == "hex" and a:
            return P.HexConstant("h'%s'" % s["v"]) if a == 1 else P.HexConstant("h'%s'" % s["v"], from_parse_tree=True)
        if k == "bin" and a:
            return P.BinaryConstant("b'%s'" % s["v"], from_parse_tree=True) if a == 1 else P.BinaryConstant(value=s["v"])
        if k == "ts" and a:
            y, mo, d, h, mi, sec, us = s["v"]
            if a == 1:
                return P.TimestampConstant(ts_text(s["v"]))
            if (h, mi, sec, us) == (0, 0, 0, 0):
                return P.TimestampConstant(datetime.date(y, mo, d))      # a date stands for its midnight
            return P.TimestampConstant(datetime.datetime(y, mo, d, h, mi, sec, us, tzinfo=datetime.timezone.utc))
    if k == "str":
        return P.StringConstant(s["v"])
    if k == "int":
        return P.IntegerConstant(s["v"])
    if k == "float":
        return P.FloatConstant(float(s["v"]))
    if k == "bool":
        return P.BooleanConstant(s["v"])
    if k == "hex":
        return P.HexConstant(s["v"])
    if k == "bin":
        return P.BinaryConstant(s["v"])
    if k == "ts":
        y, mo, d, h, mi, sec, us = s["v"]
        return P.TimestampConstant(datetime.datetime(y, mo, d, h, mi, sec, us))
    if k == "tsstr":
        return P.TimestampConstant(s["v"])
    if k == "list":
        return P.ListConstant([b_const(x) for x in s["v"]])
    raise ValueError(k)


def b_comp(s):
    k = s["k"]
    if k == "basic":
        return P.BasicObjectPathComponent(s["n"], False)
    if k == "list":
        return P.ListObjectPathComponent(s["n"], s["i"])
    if k == "ref":
        return P.ReferenceObjectPathComponent(s["n"])
    if k == "text":          # a plain str handed to ObjectPath: create_ObjectPathComponent decides
        return s["n"]
    raise ValueError(k)


def b_path(s):
    comps = s["comps"]
    if HIST["mode"] and len(comps) >= 2:
        HIST["n"] = HIST.get("n", 0) + 1
        cut = 1 + HIST["n"] % (len(comps) - 1)
        path = P.ObjectPath(s["type"], [b_comp(c) for c in comps[:cut]])
        HIST["pending"].append((path, s["type"], comps[cut:]))
        return path
    return P.ObjectPath(s["type"], [b_comp(c) for c in comps])


def finish_history(obj):
    """print the unfinished object, then complete every path through the public mutators"""
    if not HIST["pending"]:
        return
    try:
        str(obj)
    except Exception:  # noqa: BLE001
        pass
    for path, typ, rest in HIST["pending"]:
        str(path)
        if HIST["mode"] == "merge":
            path.merge(P.ObjectPath(typ, [b_comp(c) for c in rest]))
        else:
            path.property_path.extend(P.ObjectPath(typ, [b_comp(c) for c in rest]).property_path)
    HIST["pending"] = []


CMP_BY_NAME = {v: k for k, v in CMP.items()}
BOOL_BY_NAME = {v: k for k, v in BOOL.items()}
CPD_BY_NAME = {v: k for k, v in CPD.items()}


def b_qual(s):
    k = s["k"]
    if "c" in s:             # the number as a constant specification (int / float / raw)
        c = b_const(s["c"])
        return P.RepeatQualifier(c) if k == "repeat" else P.WithinQualifier(c)
    a = alt(2)
    if k == "repeat":
        if a:
            return P.RepeatQualifier(times_to_repeat=P.IntegerConstant(s["n"]) if s.get("raw") else s["n"])
        return P.RepeatQualifier(s["n"] if s.get("raw") else P.IntegerConstant(s["n"]))
    if k == "within":
        if a:
            return P.WithinQualifier(number_of_seconds=P.IntegerConstant(s["n"]) if s.get("raw") else s["n"])
        return P.WithinQualifier(s["n"] if s.get("raw") else P.IntegerConstant(s["n"]))
    if k == "startstop":
        if a and s["a"]["k"] == "ts" and s["b"]["k"] == "ts":     # datetime objects handed to the qualifier itself
            mk = lambda v: datetime.datetime(*v)                    # noqa: E731
            return P.StartStopQualifier(start_time=mk(s["a"]["v"]), stop_time=mk(s["b"]["v"]))
        return P.StartStopQualifier(b_const(s["a"]), b_const(s["b"]))
    raise ValueError(k)


def b_expr(s):
    k = s["k"]
    if k == "cmp":
        lhs = s["lhs_text"] if "lhs_text" in s else b_path(s["lhs"])      # a str goes through ObjectPath.make_object_path
        a = alt(3)
        if a == 1:
            return CMP_BY_NAME[s["cls"]](lhs=lhs, rhs=b_const(s["rhs"]), negated=s["neg"])
        if a == 2 and not s["neg"]:
            return CMP_BY_NAME[s["cls"]](lhs, b_const(s["rhs"]))       # negated left to its default
        return CMP_BY_NAME[s["cls"]](lhs, b_const(s["rhs"]), s["neg"])
    if k == "bool":
        return BOOL_BY_NAME[s["op"]]([b_expr(x) for x in s["ops"]])
    if k == "obs":
        return P.ObservationExpression(b_expr(s["e"]))
    if k == "cpd":
        return CPD_BY_NAME[s["op"]]([b_expr(x) for x in s["ops"]])
    if k == "paren":
        return P.ParentheticalExpression(b_expr(s["e"]))
    if k == "qualified":
        return P.QualifiedObservationExpression(b_expr(s["e"]), b_qual(s["q"]))
    raise ValueError(k)


# ---------------------------------------------------------------- cases

def exc_name(e):
    return "EXC " + type(e).__name__


def observe_object(obj, version, res):
    """str(), its tokens, re-parse, re-print."""
    res["ast"] = dump(obj)
    res["m_ast"] = meaning_of_object(obj)
    try:
        s = str(obj)
    except Exception as e:  # noqa: BLE001
        res["str"] = None
        res["str_exc"] = type(e).__name__
        return
    res["str"] = q(s)
    res["str_raw"] = s
    res["toks"] = real_tokens(s, version)
    res["valid_out"] = valid(s, version)
    try:
        tree2, parser2 = real_parse(s, version)
        res["re_tree"] = tree_shape(tree2)
        res["re_m_tree"] = TreeMeaning(type(parser2)).pattern(tree2)
    except Exception as e:  # noqa: BLE001
        res["re_tree"] = None
    try:
        o2 = cpo(s, version)
        res["re_ast"] = dump(o2)
        res["re_m_ast"] = meaning_of_object(o2)
        res["re_str"] = q(str(o2))
    except Exception as e:  # noqa: BLE001
        res["re_ast"] = exc_name(e)
        res["re_str"] = None


def cpo(text, version):
    """create_pattern_object through one of its public call forms"""
    a = alt(3)
    if a == 1:
        return create_pattern_object(text, "", "", version)
    if a == 2:
        if version == "2.1":
            return create_pattern_object(text)           # DEFAULT_VERSION
        return create_pattern_object(pattern=text, version=version, module_suffix="", module_name="")
    return create_pattern_object(text, version=version)


def run_parse(case):
    text, version = case["text"], case.get("version", "2.1")
    res = {"valid_in": valid(text, version)}
    try:
        tree, parser = real_parse(text, version)
        res["tree"] = tree_shape(tree)
        res["m_tree"] = TreeMeaning(type(parser)).pattern(tree)
    except Exception as e:  # noqa: BLE001
        res["tree"] = None
        res["tree_err"] = str(e)[:200]
    try:
        obj = cpo(text, version)
    except Exception as e:  # noqa: BLE001
        res["ast"] = exc_name(e)
        return res
    observe_object(obj, version, res)
    return res


def run_prog(case):
    version = case.get("version", "2.1")
    res = {}
    HIST["mode"], HIST["pending"], HIST["n"] = case.get("hist"), [], int(case.get("alt_k", 0))
    try:
        obj = b_expr(case["spec"])
        finish_history(obj)
    except Exception as e:  # noqa: BLE001
        res["ast"] = "BUILD-" + exc_name(e)
        return res
    finally:
        HIST["mode"] = None
    observe_object(obj, version, res)
    return res


def main():
    for a in sys.argv[1:]:
        if a.startswith("--hashseed=") and os.environ.get("PYTHONHASHSEED") != a.split("=", 1)[1]:
            os.environ["PYTHONHASHSEED"] = a.split("=", 1)[1]
            os.execv(sys.executable, [sys.executable] + sys.argv)
    tz0 = os.environ.get("TZ")
    for line in sys.stdin:
        line = line.strip()
        if not line:
            continue
        case = json.loads(line)
        tz = case.get("tz", tz0)
        if tz != os.environ.get("TZ"):
            if tz is None:
                os.environ.pop("TZ", None)
            else:
                os.environ["TZ"] = tz
            time.tzset()
        ALT["on"] = case.get("forms") == "alt"
        ALT["k"] = int(case.get("alt_k", 0))
        try:
            r = run_parse(case) if case["kind"] == "parse" else run_prog(case)
        except RecursionError:
            r = {"ast": "EXC RecursionError"}
        except Exception as e:  # noqa: BLE001  -- never lose the batch: the case is reported as it stands
            r = {"ast": "EXC-OBSERVER " + type(e).__name__, "observer_error": str(e)[:300]}
        print(json.dumps(r))


if __name__ == "__main__":
    main()

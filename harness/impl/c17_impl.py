"""Implementation side of C17.

Two modes:

  c17_impl.py describe   (no stdin)  -> ONE JSON line: class descriptors read from the
      live v20/v21 classes (slots, required/default flags, reference kinds, which
      __init__/_check_object_constraints definitions apply, normalised source
      fingerprints of the functions the hand model mirrors) and one maximal valid
      base object per class (built by trial construction on the real code).

  c17_impl.py            (cases on stdin, one JSON per line) -> one JSON result per line.

A case is
  {"op": "parse"|"parse_text"|"construct"|"parse_observable"|"store_add"|"deep",
   "cls": "<key>" (construct), "data": <json>, "allow_custom": bool, "version": null|"2.0"|"2.1",
   "valid_refs": <json> (parse_observable), "pre": [<json>...] (store_add) ...}
and the result records only public behaviour: the escaping exception class
(with its MRO names), the qualified name of the innermost stix2 function on the
traceback, whether the registries and the store changed.
"""
import collections
import copy
import hashlib
import importlib
import inspect
import io
import json
import sys
import ast
import textwrap
import warnings

warnings.simplefilter("ignore")

import stix2  # noqa: E402
import stix2.base  # noqa: E402
import stix2.exceptions  # noqa: E402
import stix2.parsing  # noqa: E402
import stix2.properties as P  # noqa: E402
import stix2.registry  # noqa: E402
import stix2.utils  # noqa: E402
import stix2.markings.utils  # noqa: E402
from stix2.datastore.memory import MemoryStore  # noqa: E402

UUID4 = "8e2e2d2b-17d4-4cbf-938f-98ee46b3cd3f"
UUID4B = "c5a5d1a1-3e2b-4b0c-9f6e-2d7f1a9b8c7d"
TS1 = "2020-01-01T00:00:00.000Z"
TS2 = "2021-01-01T00:00:00.000Z"

MODULES = ["stix2.v20.common", "stix2.v20.bundle", "stix2.v20.sdo", "stix2.v20.sro", "stix2.v20.observables",
           "stix2.v21.common", "stix2.v21.bundle", "stix2.v21.sdo", "stix2.v21.sro", "stix2.v21.observables"]


# ----------------------------------------------------------------------------
# class enumeration

def class_key(cls):
    """'v21.sdo.Identity' for a library class; 'custom.v21.Name' for a class built by stix2.custom's builders"""
    m = cls.__module__
    if m in MODULES:
        return m[len("stix2."):] + "." + cls.__name__
    return "custom.v%s.%s" % (version_of(cls).replace(".", ""), cls.__name__)


CUSTOM_MODE = False


def all_classes():
    """{key: class} for every _STIXBase subclass with a _properties table that
    is defined in the v20/v21 modules; key = 'v21.sdo.Identity'.  In custom mode also the user classes
    found in the registries."""
    out = collections.OrderedDict()
    if CUSTOM_MODE:
        out = _library_classes()
        for ver in sorted(stix2.registry.STIX2_OBJ_MAPS):
            for cat in sorted(stix2.registry.STIX2_OBJ_MAPS[ver]):
                for t, c in sorted(stix2.registry.STIX2_OBJ_MAPS[ver][cat].items()):
                    if inspect.isclass(c) and c.__module__ not in MODULES and isinstance(getattr(c, "_properties", None), dict):
                        out[class_key(c)] = c
        return out
    return _library_classes()


def _library_classes():
    out = collections.OrderedDict()
    for mn in MODULES:
        mod = importlib.import_module(mn)
        for name, obj in sorted(vars(mod).items()):
            if inspect.isclass(obj) and issubclass(obj, stix2.base._STIXBase) and obj.__module__ == mn \
                    and isinstance(getattr(obj, "_properties", None), dict):
                out[mn[len("stix2."):] + "." + name] = obj
    return out


def version_of(cls):
    return "2.0" if issubclass(cls, stix2.v20._STIXBase20) else "2.1"


def base_kind(cls):
    if issubclass(cls, stix2.base._Observable):
        return "observable"
    if issubclass(cls, stix2.base._Extension):
        return "extension"
    if issubclass(cls, stix2.base._DomainObject):
        return "sdo"
    if issubclass(cls, stix2.base._RelationshipObject):
        return "sro"
    return "plain"


def defining(cls, attr):
    """qualified name of the class in the MRO that defines attr."""
    for k in cls.__mro__:
        if attr in vars(k):
            return k.__module__[len("stix2."):] + "." + k.__qualname__ if k.__module__.startswith("stix2.") else k.__qualname__
    return None


def init_chain(cls):
    """every __init__ definition that runs for cls (they all call super), in MRO order.  A class that is not
    part of the stix2 package (a user class wrapped by a custom builder) is listed as 'user:<name>'."""
    out = []
    for k in cls.__mro__:
        if "__init__" in vars(k) and k.__module__.startswith("stix2"):
            out.append(k.__module__[len("stix2."):] + "." + k.__qualname__)
        elif "__init__" in vars(k) and k not in (object, collections.abc.Mapping) and not k.__module__.startswith("collections") \
                and k.__module__ not in ("abc", "typing"):
            out.append("user:" + k.__qualname__)
    return out


def cons_chain(cls):
    out = []
    for k in cls.__mro__:
        if "_check_object_constraints" in vars(k) and k.__module__.startswith("stix2"):
            out.append(k.__module__[len("stix2."):] + "." + k.__qualname__)
    return out


# ----------------------------------------------------------------------------
# source fingerprints (normalised AST: no docstrings, comments, formatting)

def _norm_src(fn):
    try:
        src = textwrap.dedent(inspect.getsource(fn))
        tree = ast.parse(src)
    except (OSError, TypeError, SyntaxError):
        return None
    for node in ast.walk(tree):
        body = getattr(node, "body", None)
        if isinstance(body, list) and body and isinstance(body[0], ast.Expr) and \
                isinstance(getattr(body[0], "value", None), ast.Constant) and isinstance(body[0].value.value, str):
            node.body = body[1:] or [ast.Pass()]
    return ast.dump(tree, include_attributes=False)


def fingerprint(fn):
    s = _norm_src(fn)
    return None if s is None else hashlib.sha1(s.encode()).hexdigest()[:16]


def fingerprints(classes):
    fp = collections.OrderedDict()
    B = stix2.base
    named = {
        "base._STIXBase.__init__": B._STIXBase.__init__,
        "base._STIXBase._check_property": B._STIXBase._check_property,
        "base._STIXBase._check_object_constraints": B._STIXBase._check_object_constraints,
        "base._STIXBase._check_mutually_exclusive_properties": B._STIXBase._check_mutually_exclusive_properties,
        "base._STIXBase._check_at_least_one_property": B._STIXBase._check_at_least_one_property,
        "base._STIXBase._check_properties_dependency": B._STIXBase._check_properties_dependency,
        "base._Observable.__init__": B._Observable.__init__,
        "base._Observable._check_ref": B._Observable._check_ref,
        "base._Observable._check_property": B._Observable._check_property,
        "base._Observable._generate_id": B._Observable._generate_id,
        "base._Extension._check_object_constraints": B._Extension._check_object_constraints,
        "base._choose_one_hash": B._choose_one_hash,
        "base._make_json_serializable": B._make_json_serializable,
        "utils._get_dict": stix2.utils._get_dict,
        "utils.detect_spec_version": stix2.utils.detect_spec_version,
        "parsing.parse": stix2.parsing.parse,
        "parsing.dict_to_stix2": stix2.parsing.dict_to_stix2,
        "parsing.parse_observable": stix2.parsing.parse_observable,
        "registry.class_for_type": stix2.registry.class_for_type,
        "markings.utils.validate": stix2.markings.utils.validate,
        "markings.utils._validate_selector": stix2.markings.utils._validate_selector,
        "markings.utils._evaluate_expression": stix2.markings.utils._evaluate_expression,
        "markings.utils.iterpath": stix2.markings.utils.iterpath,
        "markings.utils.check_tlp_marking": stix2.markings.utils.check_tlp_marking,
        "datastore.memory._add": importlib.import_module("stix2.datastore.memory")._add,
        "v20.common._should_set_millisecond": importlib.import_module("stix2.v20.common")._should_set_millisecond,
    }
    for k, f in named.items():
        fp[k] = fingerprint(f)
    for key, cls in classes.items():
        for attr in ("__init__", "_check_object_constraints", "_check_property"):
            if attr in vars(cls):
                fp[key + "." + attr] = fingerprint(vars(cls)[attr])
    return fp


# ----------------------------------------------------------------------------
# valid values by property type

def ref_type_for(prop, ver):
    """a concrete registered type accepted by a ReferenceProperty"""
    cands = ["identity", "marking-definition", "malware", "indicator", "relationship", "file", "ipv4-addr",
             "observed-data", "location", "network-traffic", "email-addr", "email-message", "artifact",
             "directory", "user-account", "process", "software", "autonomous-system", "domain-name", "mac-addr",
             "ipv6-addr", "windows-registry-key", "url", "x509-certificate", "mutex", "sighting", "attack-pattern"]
    for t in cands:
        try:
            prop.clean(t + "--" + UUID4, False)
            return t
        except Exception:  # noqa: BLE001
            continue
    return "identity"


def valid_value(name, prop, ver, depth=0):
    """a JSON value the property accepts (best effort; verified by trial construction)."""
    if hasattr(prop, "_fixed_value"):
        return prop._fixed_value
    if isinstance(prop, P.ListProperty):
        c = prop.contained
        if isinstance(c, P.Property):
            return [valid_value(name, c, ver, depth + 1)]
        return [base_for_class(c, ver, depth + 1)]
    if isinstance(prop, P.IDProperty):
        return prop.required_prefix + UUID4
    if isinstance(prop, P.ReferenceProperty):
        return ref_type_for(prop, ver) + "--" + UUID4B
    if isinstance(prop, P.ObjectReferenceProperty):
        return "0"
    if isinstance(prop, P.EnumProperty) or isinstance(prop, P.OpenVocabProperty):
        return list(prop.allowed)[0]
    if isinstance(prop, P.PatternProperty):
        return "[file:name = 'x']"
    if isinstance(prop, P.StringProperty):
        if name == "lang":
            return "en"
        if name in ("value",):
            return "198.51.100.3"
        return "s"
    if isinstance(prop, P.IntegerProperty):
        lo = prop.min if prop.min is not None else 1
        return max(lo, 1) if prop.max is None or max(lo, 1) <= prop.max else lo
    if isinstance(prop, P.FloatProperty):
        return 1.5
    if isinstance(prop, P.BooleanProperty):
        return True
    if isinstance(prop, P.TimestampProperty):
        late = any(w in name for w in ("last", "until", "stop", "end", "modified", "accessed", "not_after", "ended"))
        return TS2 if late else TS1
    if isinstance(prop, P.HashesProperty):
        return {"MD5": "d41d8cd98f00b204e9800998ecf8427e"}
    if isinstance(prop, P.ExtensionsProperty):
        if ver == "2.1":
            return {"extension-definition--" + UUID4: {"extension_type": "property-extension", "rank": 5}}
        return None
    if isinstance(prop, P.DictionaryProperty):
        return {"key": "v"}
    if isinstance(prop, P.BinaryProperty):
        return "aGVsbG8="
    if isinstance(prop, P.HexProperty):
        return "ab"
    if isinstance(prop, P.SelectorProperty):
        return "type"
    if isinstance(prop, P.EmbeddedObjectProperty):
        return base_for_class(prop.type, ver, depth + 1)
    if isinstance(prop, P.ObservableProperty):
        return {"0": {"type": "file", "name": "x"}}
    if isinstance(prop, P.STIXObjectProperty):
        if ver == "2.0":
            return {"type": "identity", "id": "identity--" + UUID4B, "created": TS1, "modified": TS1,
                    "name": "n", "identity_class": "individual"}
        return {"type": "identity", "spec_version": "2.1", "id": "identity--" + UUID4B, "created": TS1,
                "modified": TS1, "name": "n"}
    if type(prop).__name__ == "MarkingProperty":
        return {"statement": "s"}
    return "s"


def try_construct(cls, kw, allow_custom=False):
    try:
        with warnings.catch_warnings():
            warnings.simplefilter("ignore")
            cls(allow_custom=allow_custom, **copy.deepcopy(kw))
        return True
    except Exception:  # noqa: BLE001
        return False


_BASE_CACHE = {}

SPECIAL_EXT = {   # observable extension dictionaries that make sense on the class
    "File": {"ntfs-ext": {"sid": "1234"}},
    "NetworkTraffic": {"tcp-ext": {"src_flags_hex": "00000002"}},
    "Process": {"windows-process-ext": {"aslr_enabled": True}},
    "UserAccount": {"unix-account-ext": {"gid": 1001}},
}


def base_for_class(cls, ver, depth=0):
    """maximal valid kwargs for cls: required slots first, then every optional
    slot that keeps the object constructible (real constructor decides)."""
    ck = (cls.__module__, cls.__qualname__)
    if ck in _BASE_CACHE:
        return copy.deepcopy(_BASE_CACHE[ck])
    if depth > 4:
        return {}
    props = cls._properties
    kw = {}
    for n, p in props.items():
        if p.required or n in ("type", "id", "spec_version"):
            v = valid_value(n, p, ver, depth)
            if v is not None:
                kw[n] = v
    if type(props.get("definition")).__name__ == "MarkingProperty":
        kw["definition_type"] = "statement"
        kw["definition"] = {"statement": "s"}
    has_objref = any(isinstance(p, P.ObjectReferenceProperty) or
                     (isinstance(p, P.ListProperty) and isinstance(p.contained, P.ObjectReferenceProperty))
                     for p in props.values())
    if has_objref and issubclass(cls, stix2.base._Observable):
        kw["_valid_refs"] = {"*": "*", "0": "file"}   # '*' disables the reference check in the real code
    # a few classes need one optional slot to satisfy an at-least-one constraint
    if not try_construct(cls, kw):
        for n, p in props.items():
            if n in kw:
                continue
            v = valid_value(n, p, ver, depth)
            if v is None:
                continue
            trial = dict(kw)
            trial[n] = v
            if try_construct(cls, trial):
                kw = trial
                break
    ok0 = try_construct(cls, kw)
    for n, p in props.items():
        if n in kw:
            continue
        v = valid_value(n, p, ver, depth)
        if n == "extensions" and cls.__name__ in SPECIAL_EXT:
            v = SPECIAL_EXT[cls.__name__]
        if v is None:
            continue
        trial = dict(kw)
        trial[n] = v
        if try_construct(cls, trial) or not ok0:
            kw = trial
            ok0 = ok0 or try_construct(cls, kw)
    # second pass: slots that are only acceptable in pairs (latitude/longitude ...)
    missing = [n for n in props if n not in kw]
    for a in missing:
        for b in missing:
            if a < b and a not in kw and b not in kw:
                va, vb = valid_value(a, props[a], ver, depth), valid_value(b, props[b], ver, depth)
                if va is None or vb is None:
                    continue
                trial = dict(kw)
                trial[a], trial[b] = va, vb
                if try_construct(cls, trial):
                    kw = trial
    _BASE_CACHE[ck] = copy.deepcopy(kw)
    return kw


def slot_desc(name, prop):
    ref = "none"
    if isinstance(prop, P.ObjectReferenceProperty):
        ref = "one"
    elif isinstance(prop, P.ListProperty) and isinstance(prop.contained, P.ObjectReferenceProperty):
        ref = "many"
    contained = None
    if isinstance(prop, P.ListProperty):
        c = prop.contained
        contained = type(c).__name__ if isinstance(c, P.Property) else "class:" + c.__name__
    embedded = None
    if isinstance(prop, P.EmbeddedObjectProperty) and inspect.isclass(prop.type):
        embedded = ["one", class_key(prop.type)]
    elif isinstance(prop, P.ListProperty) and inspect.isclass(prop.contained) and type(prop) is P.ListProperty:
        embedded = ["many", class_key(prop.contained)]
    elif type(prop) is P.ExtensionsProperty:
        embedded = ["extensions", prop.spec_version]
    elif type(prop) is P.ListProperty and type(prop.contained) is P.STIXObjectProperty:
        embedded = ["stix_objects", prop.contained.spec_version]
    elif type(prop) is P.ObservableProperty:
        embedded = ["observables", prop.spec_version]
    elif type(prop) is P.DictionaryProperty:
        embedded = ["dict", prop.spec_version]
    return {"name": name, "ptype": type(prop).__name__, "required": bool(prop.required), "embedded": embedded,
            "default": hasattr(prop, "default"), "fixed": hasattr(prop, "_fixed_value"),
            "objref": ref, "contained": contained,
            "has_contained": hasattr(prop, "contained")}


def describe():
    classes = all_classes()
    out = {"classes": collections.OrderedDict(), "fingerprints": fingerprints(classes)}
    reg = {}
    for ver, cats in stix2.registry.STIX2_OBJ_MAPS.items():
        reg[ver] = {}
        for cat, m in cats.items():
            reg[ver][cat] = {t: class_key(c) for t, c in sorted(m.items())}
    out["registry"] = reg
    # registered extension classes: their _toplevel_properties (None = no such attribute)
    ext_tl = {}
    ext_cls = {}
    for ver, cats in stix2.registry.STIX2_OBJ_MAPS.items():
        ext_tl[ver] = {}
        for t, c in sorted(cats.get("extensions", {}).items()):
            tl = getattr(c, "_toplevel_properties", None)
            ext_tl[ver][t] = None if tl is None else [slot_desc(n, p) for n, p in tl.items()]
            ext_cls.setdefault(ver, {})[t] = class_key(c) if inspect.isclass(c) else None
    out["ext_toplevel"] = ext_tl
    out["ext_class"] = ext_cls
    # source text of every __init__ / _check_object_constraints definition that can run
    hook_src = {}
    seen = set()
    for key, cls in classes.items():
        for k in cls.__mro__:
            if not k.__module__.startswith("stix2"):
                continue
            qn = k.__module__[len("stix2."):] + "." + k.__qualname__
            for attr in ("__init__", "_check_object_constraints"):
                if attr in vars(k) and (qn, attr) not in seen:
                    seen.add((qn, attr))
                    try:
                        hook_src.setdefault(qn, {})[attr] = textwrap.dedent(inspect.getsource(vars(k)[attr]))
                    except (OSError, TypeError):
                        hook_src.setdefault(qn, {})[attr] = None
    out["hook_src"] = hook_src
    for key, cls in classes.items():
        ver = version_of(cls)
        base = base_for_class(cls, ver)
        out["classes"][key] = {
            "name": cls.__name__, "version": ver, "kind": base_kind(cls), "type": getattr(cls, "_type", None),
            "slots": [slot_desc(n, p) for n, p in cls._properties.items()],
            "init_chain": init_chain(cls), "cons_chain": cons_chain(cls),
            "check_property": defining(cls, "_check_property"),
            "id_contrib": list(getattr(cls, "_id_contributing_properties", []) or []),
            "base": base, "base_valid": try_construct(cls, base),
            "with_extension": getattr(cls, "with_extension", None),
        }
    return out


# ----------------------------------------------------------------------------
# running a case

FAMILY_ROOTS = (stix2.exceptions.STIXError, ValueError, TypeError)


def _table_ids(tbl):
    if not isinstance(tbl, dict):
        return None
    return tuple((k, id(v), type(v).__name__) for k, v in tbl.items())


DEEP_STATE = False     # also the internal state of every Property object (isolated mode: one fork per case)


def _state(v, depth=0):
    """a value of a Property object's __dict__, by content for containers and scalars, by identity otherwise"""
    if isinstance(v, (str, int, float, bool, type(None))):
        return repr(v)
    if depth < 3 and isinstance(v, (set, frozenset)):
        return "set" + repr(sorted(_state(x, depth + 1) for x in v))
    if depth < 3 and isinstance(v, (list, tuple)):
        return "seq" + repr([_state(x, depth + 1) for x in v])
    if depth < 3 and isinstance(v, dict):
        return "map" + repr(sorted((repr(k), _state(x, depth + 1)) for k, x in v.items()))
    if depth < 2 and isinstance(v, P.Property):
        return "prop" + _prop_state(v, depth + 1)
    return "%s@%d" % (type(v).__name__, id(v))


def _prop_state(p, depth=0):
    try:
        return repr(sorted((k, _state(v, depth)) for k, v in vars(p).items()))
    except Exception as e:  # noqa: BLE001
        return "unreadable:" + type(e).__name__


def _table_state(tbl):
    if not DEEP_STATE or not isinstance(tbl, dict):
        return None
    return tuple(_prop_state(v) for v in tbl.values() if isinstance(v, P.Property))


def registry_snapshot():
    """deep content of the registries: for every (version, category, name) the class object, the keys and
    Property objects of its _properties and _toplevel_properties tables (in order) and its _type /
    _id_contributing_properties; a failed construction must leave all of it as it was."""
    snap = []
    for ver in sorted(stix2.registry.STIX2_OBJ_MAPS):
        for cat in sorted(stix2.registry.STIX2_OBJ_MAPS[ver]):
            m = stix2.registry.STIX2_OBJ_MAPS[ver][cat]
            rows = []
            for k in sorted(m, key=repr):
                v = m[k]
                d = vars(v) if inspect.isclass(v) else {}
                rows.append((repr(k), id(v), _table_ids(getattr(v, "_properties", None)),
                             _table_ids(getattr(v, "_toplevel_properties", None)),
                             repr(d.get("_type")), repr(getattr(v, "_id_contributing_properties", None)),
                             tuple(sorted(x for x in d if not x.startswith("__"))),
                             _table_state(getattr(v, "_properties", None)),
                             _table_state(getattr(v, "_toplevel_properties", None))))
            snap.append((ver, cat, tuple(rows)))
    return hash(tuple(snap))


def store_snapshot(store):
    out = []
    for k in sorted(store._data, key=repr):
        v = store._data[k]
        if hasattr(v, "all_versions"):
            out.append((repr(k), tuple(sorted((repr(m), id(o)) for m, o in v.all_versions.items())),
                        id(v.latest_version)))
        else:
            out.append((repr(k), id(v)))
    return tuple(out)


def innermost_stix2(tb):
    """(module.qualname, source line text) of the innermost traceback frame in the stix2 package."""
    fn, line = None, None
    while tb is not None:
        code = tb.tb_frame.f_code
        mod = tb.tb_frame.f_globals.get("__name__", "")
        if mod == "stix2" or mod.startswith("stix2."):
            qn = getattr(code, "co_qualname", code.co_name)
            fn = mod[len("stix2."):] + "." + qn if mod != "stix2" else qn
            try:
                import linecache
                line = linecache.getline(code.co_filename, tb.tb_lineno).strip()
            except Exception:  # noqa: BLE001
                line = None
        tb = tb.tb_next
    return fn, line


def deep_value(shape, depth, leaf):
    """deeply nested value built here (so case lines stay small)"""
    v = leaf
    for _ in range(depth):
        if shape == "list":
            v = [v]
        elif shape == "dict":
            v = {"a": v}
        else:
            raise ValueError(shape)
    return v


def deep_bundle(depth, ver21=True):
    v = {"type": "identity", "id": "identity--" + UUID4, "name": "n"}
    for _ in range(depth):
        v = {"type": "bundle", "id": "bundle--" + UUID4, "objects": [v]}
    return v


def set_path(obj, path, val):
    """obj with the value at path (list of keys / indexes) replaced (or added)."""
    if not path:
        return val
    obj = copy.copy(obj)
    k = path[0]
    if isinstance(obj, list):
        obj[k] = set_path(obj[k], path[1:], val)
    else:
        obj[k] = set_path(obj.get(k), path[1:], val) if len(path) > 1 else val
    return obj


CLASSES = None
BASES = None


def materialise(case):
    """the input value of a case (cases may refer to a class's base object + a substitution)."""
    global CLASSES, BASES
    if "base" in case:
        if BASES is None:
            CLASSES = all_classes()
            BASES = {}
        key = case["base"]
        if key not in BASES:
            BASES[key] = base_for_class(CLASSES[key], version_of(CLASSES[key]))
        data = copy.deepcopy(BASES[key])
        for path, val in case.get("subst", []):
            data = set_path(data, path, val)
        for k in case.get("drop", []):
            data.pop(k, None)
        return data
    if case.get("op") == "deep" or "deep" in case:
        d = case["deep"]
        if d["shape"] == "bundle":
            return deep_bundle(d["depth"])
        if d.get("text"):
            # nested JSON text without building the Python value first
            if d["shape"] == "list":
                return "[" * d["depth"] + "1" + "]" * d["depth"]
            return '{"a":' * d["depth"] + "1" + "}" * d["depth"]
        inner = deep_value(d["shape"], d["depth"], d.get("leaf", 1))
        if "at" in d:
            data = copy.deepcopy(d["within"])
            return set_path(data, d["at"], inner)
        return inner
    return case.get("data")


def run_case(case):
    global CLASSES
    if case.get("op") == "history":
        # `then` after `first` in this process, against `then` alone in a pristine forked child
        alone = run_isolated(case["then"])      # forked BEFORE anything ran here: the pristine answer
        first = run_case(case["first"])
        after = run_case(case["then"])
        keys = ("out", "cls", "ret")
        return {"out": "History", "first": {k: first.get(k) for k in keys}, "after": {k: after.get(k) for k in keys},
                "alone": {k: alone.get(k) for k in keys},
                "differs": any(after.get(k) != alone.get(k) for k in keys), "reg_same": True}
    op = case["op"]
    allow_custom = bool(case.get("allow_custom", False))
    interop = bool(case.get("interoperability", False))
    version = case.get("version")
    res = {}
    reg0 = registry_snapshot()
    store = None
    st0 = None
    try:
        data = materialise(case)
    except RecursionError:
        return {"out": "Skip", "why": "harness recursion"}
    if op == "store_add":
        store = MemoryStore()
        for pre in case.get("pre", []):
            store.add(copy.deepcopy(pre))
        st0 = store_snapshot(store)
        res["store_len0"] = len(store._data)
        # does constructing the same input fail on its own?  (same call the store makes)
    try:
        with warnings.catch_warnings():
            warnings.simplefilter("ignore")
            if op == "deep" and case.get("via") == "construct":
                if CLASSES is None:
                    CLASSES = all_classes()
                r = CLASSES[case["cls"]](allow_custom=allow_custom, interoperability=interop, **data)
            elif op == "dict_to_stix2" or (op == "deep" and case.get("via") == "dict_to_stix2"):
                r = stix2.parsing.dict_to_stix2(data, allow_custom=allow_custom, interoperability=interop, version=version)
            elif op == "deep" and case.get("via") == "file":
                r = stix2.parse(io.StringIO(data), allow_custom=allow_custom, version=version)
            elif op == "deep" and case.get("via") == "parse_observable":
                r = stix2.parse_observable(data, [], allow_custom=allow_custom, version=version)
            elif op in ("parse", "deep"):
                r = stix2.parse(data, allow_custom=allow_custom, interoperability=interop, version=version)
            elif op == "parse_text":
                r = stix2.parse(data if isinstance(data, str) else json.dumps(data), allow_custom=allow_custom,
                                interoperability=interop, version=version)
            elif op == "parse_file":
                r = stix2.parse(io.StringIO(data if isinstance(data, str) else json.dumps(data)), allow_custom=allow_custom,
                                interoperability=interop, version=version)
            elif op == "construct":
                if CLASSES is None:
                    CLASSES = all_classes()
                cls = CLASSES[case["cls"]]
                if not isinstance(data, dict):
                    raise RuntimeError("harness: construct needs a dict")
                r = cls(allow_custom=allow_custom, interoperability=interop, **data)
            elif op == "parse_observable":
                r = stix2.parse_observable(data, case.get("valid_refs"), allow_custom=allow_custom,
                                           interoperability=interop, version=version)
            elif op == "store_add":
                r = store.add(data, version=version) if version else store.add(data)
            else:
                raise RuntimeError("harness: unknown op " + op)
        res["out"] = "Ok"
        res["ret"] = "obj" if isinstance(r, stix2.base._STIXBase) else type(r).__name__
    except RecursionError as e:
        res["out"] = "Raise"
        res["cls"] = "RecursionError"
        res["mro"] = [k.__name__ for k in type(e).__mro__]
        res["family"] = False
        try:
            res["fn"], res["line"] = innermost_stix2(e.__traceback__)
        except Exception:  # noqa: BLE001
            res["fn"], res["line"] = None, None
    except BaseException as e:  # noqa: BLE001
        res["out"] = "Raise"
        res["cls"] = type(e).__name__
        res["mro"] = [k.__name__ for k in type(e).__mro__]
        res["family"] = isinstance(e, FAMILY_ROOTS)
        res["fn"], res["line"] = innermost_stix2(e.__traceback__)
        res["msg"] = (str(e) or "")[:160]
    res["reg_same"] = registry_snapshot() == reg0
    if store is not None:
        res["store_same"] = store_snapshot(store) == st0
        res["store_len1"] = len(store._data)
        # classify: did the construction (parse) of the input itself fail?
        try:
            with warnings.catch_warnings():
                warnings.simplefilter("ignore")
                probe = copy.deepcopy(data)
                if isinstance(probe, dict) and probe.get("type") != "bundle":
                    stix2.parse(probe, allow_custom=True, version=version)
                    res["construct_failed"] = False
                else:
                    res["construct_failed"] = None
        except BaseException:  # noqa: BLE001
            res["construct_failed"] = True
    return res


EXT_A = "extension-definition--11111111-1111-4111-8111-111111111111"
EXT_B = "extension-definition--22222222-2222-4222-8222-222222222222"
EXT_C = "extension-definition--33333333-3333-4333-8333-333333333333"
EXT_D = "extension-definition--44444444-4444-4444-8444-444444444444"


def register_custom():
    """user registrations (decorators of the public API): two toplevel-property-extensions, a
    property-extension, a custom object defined through a new-sdo extension, a custom observable and a
    custom marking, for 2.1; a custom object and observable for 2.0."""
    import stix2.v20
    import stix2.v21

    @stix2.v21.CustomExtension(EXT_A, [("a_note", P.StringProperty())])
    class ExtA:
        extension_type = "toplevel-property-extension"

    @stix2.v21.CustomExtension(EXT_B, [("b_rank", P.IntegerProperty(min=0)), ("b_tags", P.ListProperty(P.StringProperty))])
    class ExtB:
        extension_type = "toplevel-property-extension"

    @stix2.v21.CustomExtension(EXT_C, [("c_val", P.StringProperty(required=True))])
    class ExtC:
        extension_type = "property-extension"

    @stix2.v21.CustomObject("x-c17-thing", [("size", P.IntegerProperty(required=True))], extension_name=EXT_D)
    class Thing21:
        pass

    @stix2.v21.CustomObservable("x-c17-obs", [("val", P.StringProperty(required=True))], ["val"])
    class Obs21:
        pass

    @stix2.v21.CustomMarking("x-c17-marking", [("note", P.StringProperty(required=True))])
    class Mark21:
        pass

    @stix2.v20.CustomObject("x-c17-thing", [("size", P.IntegerProperty(required=True))])
    class Thing20:
        pass

    @stix2.v20.CustomObservable("x-c17-obs", [("val", P.StringProperty(required=True))])
    class Obs20:
        pass


def main():
    global CUSTOM_MODE
    if len(sys.argv) > 1 and sys.argv[1] == "describe":
        if len(sys.argv) > 2 and sys.argv[2] == "custom":
            register_custom()
            CUSTOM_MODE = True
        print(json.dumps(describe()))
        return
    isolate = False
    if len(sys.argv) > 1 and sys.argv[1] == "custom":
        register_custom()
        isolate = True      # every case is observed from the same registered state (forked child per case)
        global DEEP_STATE
        DEEP_STATE = True
    sys.setrecursionlimit(1000)
    for line in sys.stdin:
        line = line.strip()
        if not line:
            continue
        case = json.loads(line)
        if isolate:
            print(json.dumps(run_isolated(case)))
            sys.stdout.flush()
            continue
        try:
            out = run_case(case)
        except Exception as e:  # noqa: BLE001  (harness failure, not an observation)
            out = {"out": "HarnessError", "msg": "%s: %s" % (type(e).__name__, e)}
        print(json.dumps(out))
        sys.stdout.flush()


def run_isolated(case):
    """run one case in a forked child, so that a registry change made by one case cannot hide the
    same change in a later one"""
    import os
    rfd, wfd = os.pipe()
    sys.stdout.flush()
    pid = os.fork()
    if pid == 0:
        os.close(rfd)
        try:
            out = run_case(case)
        except BaseException as e:  # noqa: BLE001
            out = {"out": "HarnessError", "msg": "%s: %s" % (type(e).__name__, e)}
        with os.fdopen(wfd, "w") as f:
            f.write(json.dumps(out))
        os._exit(0)
    os.close(wfd)
    with os.fdopen(rfd) as f:
        text = f.read()
    os.waitpid(pid, 0)
    try:
        return json.loads(text)
    except ValueError:
        return {"out": "HarnessError", "msg": "child produced no result"}


if __name__ == "__main__":
    main()

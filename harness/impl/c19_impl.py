"""Implementation side of C19.

Reads one JSON case per stdin line and prints one JSON result per line.
The registries are process-global, so every case that registers anything
(`history`, `guarantee`, `witness`) is executed in a FRESH interpreter: this
worker re-invokes itself with `--one` for each of them.  `names` cases are
stateless and run in-process.

Observed, public behaviour only:
  registration through the decorators  -> "ok" | "exc:<ExceptionClass>"
  registry.class_for_type              -> "cls:<module>.<name>" | "none"
  stix2.parse / parse_observable       -> "cls:..." (class of the object built, or of the object whose
                                          constructor refused the body) | "dict" | "exc:<ExceptionClass>"
"""
import json
import os
import subprocess
import sys

UUID4 = "00000000-0000-4000-8000-000000000001"
T0 = "2020-01-01T00:00:00.000Z"


def qual(cls):
    return cls.__module__ + "." + cls.__name__


def make_prop(kind, ver, required=False):
    from stix2 import properties as P
    if kind == "plain":
        return P.StringProperty(required=required)
    if kind == "int":
        return P.IntegerProperty(required=required)
    if kind == "ref":
        return P.ReferenceProperty(valid_types="identity", spec_version=ver, required=required)
    if kind == "reflist":
        return P.ListProperty(P.ReferenceProperty(valid_types="identity", spec_version=ver), required=required)
    if kind == "objref":
        return P.ObjectReferenceProperty(required=required)
    if kind == "objreflist":
        return P.ListProperty(P.ObjectReferenceProperty, required=required)
    if kind == "listplain":
        return P.ListProperty(P.StringProperty, required=required)
    raise ValueError("unknown property kind %r" % kind)


def decorator(kind, ver):
    import stix2
    mod = stix2.v20 if ver == "2.0" else stix2.v21
    return {"object": mod.CustomObject, "observable": mod.CustomObservable,
            "marking": mod.CustomMarking, "extension": mod.CustomExtension}[kind]


REGS = {}     # class name of a registration -> the properties object the caller passed, the class built, its table then


def table_of(c):
    return [list(c._properties), list(getattr(c, "_toplevel_properties", None) or [])]


def do_register(o):
    body = {}
    if o.get("exttype"):
        body["extension_type"] = o["exttype"]
    cls = type(str(o["cls"]), (object,), body)
    props = [(p[0], make_prop(p[1], o["ver"], required=(len(p) > 2 and p[2]))) for p in o["props"]]
    if o.get("props_as") == "dict":
        props = dict(props)        # the caller's own dictionary (kept, and possibly changed later by a `mutate` op)
    kwargs = {}
    if o.get("extname") is not None:
        kwargs["extension_name"] = o["extname"]
    REGS[o["cls"]] = {"props": props, "ver": o["ver"], "class": None, "table": None}
    try:
        if o.get("call") == "keywords":
            new = decorator(o["kind"], o["ver"])(type=o["name"], properties=props, **kwargs)(cls)
        else:
            new = decorator(o["kind"], o["ver"])(o["name"], props, **kwargs)(cls)
    except Exception as e:  # noqa: BLE001
        return "exc:" + type(e).__name__, None
    REGS[o["cls"]].update({"class": new, "table": table_of(new)})
    return "ok", new


def stix_classes_in_traceback(e):
    """Classes of the STIX objects under construction when e was raised, outermost first.  An exception
    wrapped by _check_property (`raise InvalidValueError(...) from exc`) carries the inner frames in its
    __cause__: the chain is followed."""
    from stix2.base import _STIXBase
    out = []
    seen = set()
    while e is not None and id(e) not in seen:
        seen.add(id(e))
        tb = e.__traceback__
        while tb is not None:
            f = tb.tb_frame
            if f.f_code.co_name == "__init__":
                s = f.f_locals.get("self")
                if isinstance(s, _STIXBase) and (not out or out[-1] is not type(s)):
                    out.append(type(s))
            tb = tb.tb_next
        e = e.__cause__
    return out


def innermost(e):
    while e.__cause__ is not None:
        e = e.__cause__
    return e


BUILTIN_BODIES = {
    "identity": {"name": "n", "identity_class": "individual", "created": T0, "modified": T0},
    "malware": {"name": "m", "labels": ["trojan"], "is_family": False, "created": T0, "modified": T0},
    "file": {"name": "f"},
    "ipv4-addr": {"value": "198.51.100.3"},
    "url": {"value": "https://example.com/"},
    "domain-name": {"value": "example.com"},
}


def parse_body(o):
    body = {"type": o["name"]}
    body.update(BUILTIN_BODIES.get(o["name"], {}))
    if o.get("has_id"):
        body["id"] = o["name"] + "--" + UUID4
    if o.get("specv") is not None:
        body["spec_version"] = o["specv"]
    if o.get("exts"):
        body["extensions"] = {k: ({"extension_type": t} if t else {}) for k, t in o["exts"]}
    return body


def observe_parse(fn, body, **kw):
    from stix2.base import _STIXBase
    from stix2.exceptions import ParseError
    try:
        r = fn(body, **kw)
    except ParseError:
        return "exc:ParseError"
    except Exception as e:  # noqa: BLE001
        cl = stix_classes_in_traceback(e)
        if cl:
            return "cls:" + qual(cl[0])
        return "exc:" + type(e).__name__
    if isinstance(r, _STIXBase):
        return "cls:" + qual(type(r))
    if isinstance(r, dict):
        return "dict"
    return "other:" + type(r).__name__


def do_op(o):
    import stix2
    from stix2 import registry
    from stix2.base import _STIXBase
    k = o["op"]
    if k == "reg":
        return do_register(o)[0]
    if k == "mutate":
        # the caller goes on using the properties object it passed to an earlier decorator
        t = REGS.get(o["target"])
        if t is None:
            return "ok"
        pr = make_prop(o["prop"][1], t["ver"])
        if isinstance(t["props"], dict):
            t["props"][o["prop"][0]] = pr
        else:
            t["props"].append((o["prop"][0], pr))
        return "ok"
    if k == "tables":
        changed = sorted(n for n, t in REGS.items() if t["class"] is not None and table_of(t["class"]) != t["table"])
        return "same" if not changed else "changed:" + ",".join(changed)
    if k == "cft":
        try:
            c = registry.class_for_type(o["name"], o["ver"], o.get("cat"))
        except Exception as e:  # noqa: BLE001
            return "exc:" + type(e).__name__
        return "none" if c is None else "cls:" + qual(c)
    if k == "parse":
        body = parse_body(o)
        return observe_parse(stix2.parse, json.dumps(body) if o.get("as_text") else body, allow_custom=o["allow_custom"],
                             version=o.get("version"))
    if k == "parse_obs":
        body = parse_body(o)
        return observe_parse(stix2.parse_observable, json.dumps(body) if o.get("as_text") else body,
                             allow_custom=o["allow_custom"], version=o.get("version"))
    if k == "marking":
        # an undeclared member: whichever marking class is dispatched to refuses it, and is then
        # seen in the traceback (an empty definition would be falsy and fail a later presence check)
        defn = {"zz_probe": "x"}
        body = {"type": "marking-definition", "id": "marking-definition--" + UUID4, "created": T0,
                "definition_type": o["name"], "definition": defn}
        if o["ver"] == "2.1":
            body["spec_version"] = "2.1"
        try:
            r = stix2.parse(body, version=o["ver"])
        except Exception as e:  # noqa: BLE001
            cl = stix_classes_in_traceback(e)
            if len(cl) >= 2:
                return "cls:" + qual(cl[1])
            return "exc:" + type(innermost(e)).__name__
        d = r["definition"]
        return "cls:" + qual(type(d)) if isinstance(d, _STIXBase) else "other:" + type(d).__name__
    if k == "ext":
        exts = {o["name"]: {}}
        try:
            if o["ver"] == "2.1":
                body = dict(BUILTIN_BODIES["identity"], type="identity", id="identity--" + UUID4, spec_version="2.1",
                            extensions=exts)
                r = stix2.parse(body, allow_custom=o["allow_custom"], version="2.1")
            else:
                body = {"type": "file", "name": "f", "extensions": exts}
                r = stix2.parse_observable(body, allow_custom=o["allow_custom"], version="2.0")
        except Exception as e:  # noqa: BLE001
            cl = stix_classes_in_traceback(e)
            if len(cl) >= 2:
                return "cls:" + qual(cl[1])
            return "exc:" + type(innermost(e)).__name__
        v = r["extensions"][o["name"]]
        if isinstance(v, _STIXBase):
            return "cls:" + qual(type(v))
        return "dict" if isinstance(v, dict) else "other:" + type(v).__name__
    raise ValueError("unknown op %r" % k)


def run_history(case):
    return [do_op(o) for o in case["ops"]]


# ---------------------------------------------------------------- guarantees

SAMPLE = {"plain": "text", "int": 7, "listplain": ["a", "b"],
          "ref": "identity--" + UUID4, "reflist": ["identity--" + UUID4]}
WRONG = {"int": "not-a-number", "listplain": 5, "ref": "not-an-id", "reflist": "not-an-id"}


def ts_key(s):
    """Timestamp text -> integer microseconds (for strict comparison)."""
    import datetime as dt
    s = s.rstrip("Z")
    if "." in s:
        head, frac = s.split(".")
    else:
        head, frac = s, ""
    d = dt.datetime.strptime(head, "%Y-%m-%dT%H:%M:%S")
    return int((d - dt.datetime(1970, 1, 1)).total_seconds()) * 1000000 + int((frac + "000000")[:6])


UUIDS = {"v1": "6ba7b810-9dad-11d1-80b4-00c04fd430c8", "v3": "6fa459ea-ee8a-3ca4-894e-db77e160355e",
         "v4": "0b2a1d6e-4c3f-4e0a-9d7b-5a1f2e3c4d5e", "v5": "886313e1-3b8a-5372-9b90-0c9aee199e5d"}
HELPER_EXT = "x-helper-ext"
UNREG_EXT = "extension-definition--7c0a4f2e-9b1d-4c3e-8f5a-2d6b1e0c9a87"


def run_guarantee(case):
    """For each registration (all meant to be valid): register, then evaluate
    on the registered type what the property promises for built-in types."""
    import stix2
    from stix2 import properties as P
    from stix2.base import _STIXBase
    out = []
    # a registered property-extension that instances of the custom types below will carry
    try:
        stix2.v21.CustomExtension(HELPER_EXT, [("hprop", P.StringProperty(required=True))])(
            type("HelperExt", (object,), {"extension_type": "property-extension"}))
        helper = "ok"
    except Exception as e:  # noqa: BLE001
        helper = "exc:" + type(e).__name__

    def field_text(obj, names):
        d = json.loads(obj.serialize())
        return {k: d.get(k) for k in names}

    def outcome(fn, body, names):
        try:
            o = fn(body)
        except Exception as e:  # noqa: BLE001
            return ["exc:" + type(innermost(e)).__name__ if not isinstance(e, stix2.exceptions.STIXError) else "exc:" + type(e).__name__]
        return ["ok", field_text(o, names)]
    for o in case["regs"]:
        res = {"name": o["name"], "kind": o["kind"], "ver": o["ver"]}
        status, cls = do_register(o)
        res["registered"] = status
        if cls is None:
            out.append(res)
            continue
        ver, kind, name = o["ver"], o["kind"], o["name"]
        vals = {p[0]: SAMPLE[p[1]] for p in o["props"]}
        req = [p[0] for p in o["props"] if len(p) > 2 and p[2]]

        def build(v):
            """A complete, parseable document that exercises the type, and how to get the instance back."""
            if kind == "object":
                b = dict(v, type=name, id=name + "--" + UUID4, created=T0, modified=T0)
                if ver == "2.1":
                    b["spec_version"] = "2.1"
                return b, lambda x: x
            if kind == "observable":
                b = dict(v, type=name)
                if ver == "2.1":
                    b.update(id=name + "--" + UUID4, spec_version="2.1")
                return b, lambda x: x
            if kind == "marking":
                b = {"type": "marking-definition", "id": "marking-definition--" + UUID4, "created": T0,
                     "definition_type": name, "definition": dict(v)}
                if ver == "2.1":
                    b["spec_version"] = "2.1"
                return b, lambda x: x["definition"]
            # extension: carried by a built-in host of the same version
            if ver == "2.1":
                b = dict(BUILTIN_BODIES["identity"], type="identity", id="identity--" + UUID4, spec_version="2.1",
                         extensions={name: dict(v)})
            else:
                b = {"type": "file", "name": "f", "extensions": {name: dict(v)}}
            return b, lambda x: x["extensions"][name]

        def parse(b):
            if kind == "observable" or (kind == "extension" and ver == "2.0"):
                return stix2.parse_observable(b, version=ver)
            return stix2.parse(b, version=ver)

        def attempt(b):
            try:
                return "ok", parse(b)
            except Exception as e:  # noqa: BLE001
                return "exc:" + type(e).__name__, None

        # round trip
        doc, pick = build(vals)
        st, obj = attempt(doc)
        res["parse"] = st
        if obj is not None:
            inst = pick(obj)
            res["dispatch"] = qual(type(inst)) if isinstance(inst, _STIXBase) else type(inst).__name__
            res["expected_class"] = qual(cls)
            if o.get("extname"):
                # extension_name=: every instance carries extensions[<name>] = <the class registered on the side>()
                from stix2 import registry
                side = registry.class_for_type(o["extname"], ver, "extensions")
                got = obj.get("extensions", {}).get(o["extname"]) if hasattr(obj, "get") else None
                res["side_instance"] = {"registered": None if side is None else qual(side),
                                        "found": None if got is None else (qual(type(got)) if isinstance(got, _STIXBase) else type(got).__name__),
                                        "extension_type": None if got is None else got.get("extension_type")}
            try:
                text = obj.serialize()
                back = parse(json.loads(text))
                res["roundtrip_equal"] = bool(back == obj)
                # byte for byte: serializing the re-parsed object reproduces the text (C01), and the same class
                res["roundtrip_text_equal"] = back.serialize() == text
                res["roundtrip_same_class"] = type(back) is type(obj)
                res["values_kept"] = all(json.loads(text_v) == v for text_v, v in
                                         ((json.dumps(json.loads(pick(back).serialize())[k]), v) for k, v in vals.items()))
            except Exception as e:  # noqa: BLE001
                res["roundtrip_equal"] = "exc:" + type(e).__name__
        # allow_custom=True with an undeclared property: constructing the class directly and parsing the equivalent
        # JSON give the same object, and every given property is in the output
        if kind in ("object", "observable"):
            docx, _ = build(vals)
            docx["x_zz_undeclared"] = "kept?"
            cx = {}
            try:
                made = cls(allow_custom=True, **{k: v for k, v in docx.items()})
                cx["construct"] = "ok"
            except Exception as e:  # noqa: BLE001
                made, cx["construct"] = None, "exc:" + type(e).__name__
            try:
                if kind == "observable":
                    parsed = stix2.parse_observable(docx, allow_custom=True, version=ver)
                else:
                    parsed = stix2.parse(docx, allow_custom=True, version=ver)
                cx["parse"] = "ok"
            except Exception as e:  # noqa: BLE001
                parsed, cx["parse"] = None, "exc:" + type(e).__name__
            if made is not None and parsed is not None:
                try:
                    tm, tp = made.serialize(), parsed.serialize()
                    dm, dp = json.loads(tm), json.loads(tp)
                    cx["given_kept_construct"] = all(dm.get(k) == v for k, v in docx.items())
                    cx["given_kept_parse"] = all(dp.get(k) == v for k, v in docx.items())
                    cx["equal"] = bool(made == parsed)
                    cx["text_equal"] = tm == tp
                except Exception as e:  # noqa: BLE001
                    cx["error"] = "exc:" + type(e).__name__
            res["custom_extra"] = cx
        # other extensions on the instance are kept (next to the one extension_name= adds)
        if ver == "2.1" and kind in ("object", "observable") and helper == "ok":
            extra = {HELPER_EXT: {"extension_type": "property-extension", "hprop": "hv"},
                     UNREG_EXT: {"extension_type": "property-extension", "foo_val": "v"}}
            doc2, _ = build(vals)
            doc2["extensions"] = dict(extra)
            st2, obj2 = attempt(doc2)
            ee = {"parse": st2}
            if obj2 is not None:
                try:
                    t2 = obj2.serialize()
                    exts = json.loads(t2).get("extensions", {})
                    ee["kept"] = all(exts.get(k) == v for k, v in extra.items())
                    ee["extname_present"] = (o["extname"] in exts) if o.get("extname") else True
                    back2 = parse(json.loads(t2))
                    ee["roundtrip_equal"] = bool(back2 == obj2)
                    ee["roundtrip_text_equal"] = back2.serialize() == t2
                except Exception as e:  # noqa: BLE001
                    ee["error"] = "exc:" + type(e).__name__
            res["extra_extensions"] = ee
        # version-dependent validation: the custom type against a built-in type of the same family and version
        if kind == "object" or (kind == "observable" and ver == "2.1"):
            if kind == "object":
                ref_type = "identity"
                ref_doc = dict(BUILTIN_BODIES["identity"], type="identity", id="identity--" + UUID4)
            else:
                ref_type = "url"
                ref_doc = {"type": "url", "value": "https://example.com/", "id": "url--" + UUID4}
            if ver == "2.1":
                ref_doc["spec_version"] = "2.1"
            cust_doc, _ = build(vals)
            probes = []
            for label, u in sorted(UUIDS.items()):
                probes.append(("id with a UUID" + label, lambda t, u=u: {"id": t + "--" + u}, ["id"]))
            if kind == "object":
                for label in ("v1", "v5"):
                    probes.append(("created_by_ref with a UUID" + label,
                                   lambda t, u=UUIDS[label]: {"created_by_ref": "identity--" + u}, ["created_by_ref"]))
                for ts in ("2020-01-02T03:04:05Z", "2020-01-02T03:04:05.1Z", "2020-01-02T03:04:05.123456Z"):
                    probes.append(("created/modified " + ts, lambda t, ts=ts: {"created": ts, "modified": ts}, ["created", "modified"]))
            for label in ("v1", "v5"):
                probes.append(("object_marking_refs with a UUID" + label,
                               lambda t, u=UUIDS[label]: {"object_marking_refs": ["marking-definition--" + u]}, ["object_marking_refs"]))
            vp = []
            for label, upd, names in probes:
                a = outcome(parse, dict(cust_doc, **upd(name)), names)
                b = outcome(parse, dict(ref_doc, **upd(ref_type)), names)
                # the id text differs by the type prefix only
                def norm(r, t):
                    if len(r) == 2 and isinstance(r[1].get("id"), str) and r[1]["id"].startswith(t + "--"):
                        r = [r[0], dict(r[1], id="T--" + r[1]["id"][len(t) + 2:])]
                    return r
                vp.append({"probe": label, "custom": norm(a, name), "builtin": norm(b, ref_type), "builtin_type": ref_type})
            res["version_probes"] = vp
        # validation: a missing required property, a wrong-kind value, an undeclared property
        res["missing"] = {}
        for rp in req:
            v2 = {k: x for k, x in vals.items() if k != rp}
            res["missing"][rp] = attempt(build(v2)[0])[0]
        res["wrong"] = {}
        for p in o["props"]:
            if p[1] in WRONG:
                res["wrong"][p[0]] = attempt(build(dict(vals, **{p[0]: WRONG[p[1]]}))[0])[0]
        res["extra"] = attempt(build(dict(vals, zz_undeclared_property="x"))[0])[0]
        # versioning (types that carry created/modified: custom objects)
        if kind == "object" and obj is not None:
            try:
                plain = [p[0] for p in o["props"] if p[1] == "plain"]
                kw = {plain[0]: "changed"} if plain else {}
                nv = obj.new_version(**kw)
                a, b = json.loads(obj.serialize())["modified"], json.loads(nv.serialize())["modified"]
                res["new_version"] = {"old": a, "new": b, "later": ts_key(b) > ts_key(a),
                                      "same_id": nv["id"] == obj["id"],
                                      "same_class": type(nv) is type(obj)}
                try:
                    obj.new_version(id=name + "--" + UUID4.replace("1", "2"))
                    res["new_version"]["id_change"] = "ok"
                except Exception as e:  # noqa: BLE001
                    res["new_version"]["id_change"] = "exc:" + type(e).__name__
            except Exception as e:  # noqa: BLE001
                res["new_version"] = "exc:" + type(e).__name__
        out.append(res)
    return out


# ---------------------------------------------------------------- names

def run_names(case):
    """Stateless: the recognisers themselves."""
    from stix2 import properties as P
    from stix2 import registration as R
    out = []
    for n in case["names"]:
        row = []
        for ver in ("2.0", "2.1"):
            try:
                P._validate_type(n, ver)
                row.append(True)
            except ValueError:
                row.append(False)
            except Exception as e:  # noqa: BLE001
                row.append("exc:" + type(e).__name__)
        tail = n.rsplit("_", 1)[-1]
        for ver in ("2.0", "2.1"):
            # a property object of the kind the reference-name rule wants, so only the naming rule decides
            kind = {"ref": "ref", "refs": "reflist"}.get(tail, "plain")
            try:
                R._validate_props({n: make_prop(kind, ver)}, ver)
                row.append(True)
            except ValueError:
                row.append(False)
            except Exception as e:  # noqa: BLE001
                row.append("exc:" + type(e).__name__)
        out.append(row)
    return out


def run_marking_pairs(case):
    """Register two custom markings per version; then MarkingDefinition(definition_type=A, definition=<OBJECT of
    the class registered as B>) for every pair, custom and built-in: accepted, refused, and whether an accepted
    one serializes to something that parses back to an equal object."""
    import stix2
    from stix2 import properties as P
    out = {}
    for ver, mod in (("2.0", stix2.v20), ("2.1", stix2.v21)):
        classes = {}
        for nm, prop in ((case["m1"], "alpha_val"), (case["m2"], "beta_val")):
            try:
                classes[nm] = (mod.CustomMarking(nm, [(prop, P.StringProperty(required=True))])(type("M_" + prop, (object,), {})), {prop: "v"})
            except Exception as e:  # noqa: BLE001
                out.setdefault("register", {})[ver + " " + nm] = "exc:" + type(e).__name__
        classes["tlp"] = (mod.TLPMarking, {"tlp": "white"})
        classes["statement"] = (mod.StatementMarking, {"statement": "s"})
        rows = {}
        for a in classes:
            for b, (cb, vb) in classes.items():
                if a == "tlp" and b == "tlp":
                    continue                       # TLP instances are a closed set with fixed ids
                kw = dict(id="marking-definition--" + UUID4, created=T0, definition_type=a, definition=cb(**vb))
                try:
                    md = mod.MarkingDefinition(**kw)
                except Exception as e:  # noqa: BLE001
                    rows[a + " <- " + b] = "exc:" + type(e).__name__
                    continue
                try:
                    back = stix2.parse(json.loads(md.serialize()), version=ver)
                    rows[a + " <- " + b] = "ok" if back == md else "ok-but-reparsed-differs"
                except Exception as e:  # noqa: BLE001
                    rows[a + " <- " + b] = "ok-but-unparseable:" + type(e).__name__
        out[ver] = rows
    return out


def run_cross_version_ext(case):
    """The same extension name registered for 2.0 and 2.1 (different classes; custom and built-in): an INSTANCE of one
    version's class handed, as an object, to an object of the other version."""
    import stix2
    from stix2 import properties as P
    from stix2 import registry
    out = {}
    n = case["name"]
    try:
        stix2.v20.CustomExtension(n, [("alpha_val", P.StringProperty(required=True))])(type("X20", (object,), {}))
        stix2.v21.CustomExtension(n, [("alpha_val", P.StringProperty(required=True))])(
            type("X21", (object,), {"extension_type": "property-extension"}))
    except Exception as e:  # noqa: BLE001
        return {"register": "exc:" + type(e).__name__}
    mods = {"2.0": stix2.v20, "2.1": stix2.v21}
    for ext_name, vals in ((n, {"alpha_val": "v"}), ("ntfs-ext", {"sid": "S-1"})):
        for src, dst in (("2.0", "2.1"), ("2.1", "2.0"), ("2.0", "2.0"), ("2.1", "2.1")):
            key = "%s: %s instance in a %s file" % (ext_name, src, dst)
            try:
                inst = registry.class_for_type(ext_name, src, "extensions")(**vals)
                want = registry.class_for_type(ext_name, dst, "extensions")
                host = mods[dst].File(name="f", extensions={ext_name: inst})
            except Exception as e:  # noqa: BLE001
                out[key] = "exc:" + type(e).__name__
                continue
            got = host["extensions"][ext_name]
            st = "ok" if type(got) is want else "ok-wrong-class:" + qual(type(got))
            try:
                back = stix2.parse_observable(json.loads(host.serialize()), version=dst)
                if not (back == host):
                    st += "+reparsed-differs"
            except Exception as e:  # noqa: BLE001
                st += "+unparseable:" + type(e).__name__
            out[key] = st
    return out


def run_one(case):
    k = case["k"]
    if k == "cross_version_ext":
        return run_cross_version_ext(case)
    if k == "marking_pairs":
        return run_marking_pairs(case)
    if k == "history":
        return run_history(case)
    if k == "guarantee":
        return run_guarantee(case)
    if k == "names":
        return run_names(case)
    raise ValueError("unknown case kind %r" % k)


def fresh(case):
    """Run one case in a fresh interpreter (same environment)."""
    limit = case.get("timeout", 120)
    env = dict(os.environ)
    env.update(case.get("env") or {})      # another zone / hash seed: the answers must not depend on them
    try:
        p = subprocess.run([sys.executable, "-B", os.path.abspath(__file__), "--one"], input=json.dumps(case),
                           stdout=subprocess.PIPE, stderr=subprocess.PIPE, text=True, timeout=limit, env=env)
    except subprocess.TimeoutExpired:
        return {"timeout": limit}
    if p.returncode != 0:
        return {"crash": p.stderr[-1500:]}
    return json.loads(p.stdout)


def main():
    if "--one" in sys.argv:
        case = json.loads(sys.stdin.read())
        json.dump(run_one(case), sys.stdout)
        return
    for line in sys.stdin:
        line = line.strip()
        if not line:
            continue
        case = json.loads(line)
        if case["k"] in ("history", "guarantee", "marking_pairs", "cross_version_ext") or case.get("fresh"):
            print(json.dumps(fresh(case)))
        else:
            print(json.dumps(run_one(case)))
        sys.stdout.flush()


if __name__ == "__main__":
    main()

"""Write /verif/MANIFEST.json from the table below (kept in one place so the
file stays valid and the not_applicable list stays current)."""
import json
import os

VERIF = os.path.dirname(os.path.dirname(os.path.abspath(__file__)))

ALL = ["C%02d" % i for i in range(1, 21)]

def load_checks():
    import glob
    import importlib
    import sys
    sys.path.insert(0, os.path.join(VERIF, "harness"))
    out = {}
    for p in sorted(glob.glob(os.path.join(VERIF, "harness", "props", "c[0-9][0-9].py"))):
        pid = os.path.basename(p)[:-3].upper()
        mod = importlib.import_module("props." + pid.lower())
        m = getattr(mod, "MANIFEST", None)
        if m:
            out[pid] = m
    return out


PENDING_REASON = "check under construction: it does not yet exit 0 on the unchanged tree for every seed tried, so nothing is claimed (see DESIGN.md 19); the technique applies"


def main():
    CHECKS = load_checks()
    # only properties whose check the coordinator has seen exit 0 on the unchanged tree are claimed
    claimed = json.load(open(os.path.join(VERIF, "harness", "claimed.json")))
    CHECKS = {k: v for k, v in CHECKS.items() if k in claimed}
    checks = []
    for pid in ALL:
        if pid not in CHECKS:
            continue
        c = CHECKS[pid]
        checks.append({
            "property_id": pid,
            "quick_cmd": "./check %s --tier quick" % pid,
            "thorough_cmd": "./check %s --tier thorough" % pid,
            "evidence_file": "/verif/evidence/%s.json" % pid,
            "replay_cmd_template": "./check %s --replay {path}" % pid,
            "engine": "coq-proof",
            "level_claimed": {"category": "proof", "text": c["text"], "design_ref": c["design_ref"]},
            "level_note": c["note"],
            "technique": c["technique"],
        })
    m = {
        "version": 1,
        "setup_cmd": "./setup.sh",
        "hooks": {
            "guard": "CTI_PYTHON_STIX2_VERIF",
            "enable": "no source hooks: checks import /repo in place with PYTHONPATH=/repo (CTI_PYTHON_STIX2_VERIF=1 is set but nothing in /repo reads it)",
            "baseline_off_cmd": "cd /repo && /venv/bin/python -m pytest -ra -q -p no:cacheprovider --timeout=900 --continue-on-collection-errors",
            "source_commits": [],  # no guarded hook commits; unguarded fix: commits are listed in known_findings.json
            "add_only": True,
        },
        "engines": [{
            "name": "coq-proof", "path": "/verif/check",
            "serves_properties": sorted(CHECKS),
            "kind_free_text": "Coq 8.16 theorems about executable Gallina models; models regenerated from source by translators "
                              "or hand-written and tied to /repo by a correspondence run (vm_compute case files); "
                              "VIOLATION/KNOWN-FINDING protocol in harness/common.py",
        }],
        "checks": checks,
        "not_applicable": [{"property_id": p, "reason": PENDING_REASON} for p in ALL if p not in CHECKS],
        "notes": "Each check: hygiene scan -> translators -> full .vo build of coq/Props/<ID>.v with Print Assumptions -> "
                 "correspondence model vs /repo -> search for a failing input when anything broke -> known findings -> evidence.",
    }
    with open(os.path.join(VERIF, "MANIFEST.json"), "w") as f:
        json.dump(m, f, indent=1)
        f.write("\n")


if __name__ == "__main__":
    main()

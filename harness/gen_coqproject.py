"""Write coq/_CoqProject from the directory contents (hand-written files) plus
the generated files the translators are known to produce."""
import glob
import os

VERIF = os.path.dirname(os.path.dirname(os.path.abspath(__file__)))
COQ = os.path.join(VERIF, "coq")
GEN = ["Gen/Scales.v"]   # extended as translators are added (harness/translate_all.py)


def text():
    files = []
    for d in ("Base", "Spec", "Model", "Proofs", "Props"):
        files += sorted(os.path.relpath(p, COQ) for p in glob.glob(os.path.join(COQ, d, "*.v")))
    try:
        import translate_all
        gen = translate_all.GEN_FILES
    except Exception:  # noqa: BLE001
        gen = GEN
    files += gen
    head = ["-Q . V",
            "-arg -w -arg -notation-overridden,-deprecated-hint-without-locality,-deprecated-instance-without-locality"]
    return "\n".join(head + files) + "\n"


def main():
    t = text()
    p = os.path.join(COQ, "_CoqProject")
    try:
        if open(p).read() == t:
            return False
    except OSError:
        pass
    open(p, "w").write(t)
    return True


if __name__ == "__main__":
    import sys
    sys.path.insert(0, os.path.dirname(os.path.abspath(__file__)))
    print("changed" if main() else "unchanged")

"""Run every translator once so that coq/Gen/*.v exists before the full build."""
import os
import sys

sys.path.insert(0, os.path.dirname(os.path.abspath(__file__)))
import common  # noqa: E402
import translate_all  # noqa: E402

with common.Lock():
    for name, ok, msg in translate_all.run_all():
        print("translator %-14s %s %s" % (name, "ok" if ok else "ABORT", msg))
    common.ensure_gen_placeholders()

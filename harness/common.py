"""Shared machinery of /verif/check: hygiene scan, translators, Coq build,
Print Assumptions parsing, model evaluation inside Coq (vm_compute case files),
implementation workers, replay / VIOLATION / KNOWN-FINDING protocol, evidence.

Everything a registered command needs lives under /verif; scratch goes to
/verif/.scratch/<pid>/ and is removed at exit.
"""
import atexit
import fcntl
import glob
import hashlib
import json
import os
import random
import re
import shutil
import subprocess
import sys
import time
from concurrent.futures import ThreadPoolExecutor

VERIF = os.path.dirname(os.path.dirname(os.path.abspath(__file__)))
REPO = os.environ.get("VERIF_REPO", "/repo")
PY = os.environ.get("VERIF_PY", "/venv/bin/python")
COQ = os.path.join(VERIF, "coq")
GUARD = "CTI_PYTHON_STIX2_VERIF"
NCPU = int(os.environ.get("VERIF_JOBS", min(16, os.cpu_count() or 4)))

sys.path.insert(0, os.path.join(VERIF, "translators"))

# --------------------------------------------------------------------------
# scratch

_SCRATCH = None


def scratch():
    global _SCRATCH
    if _SCRATCH is None:
        d = os.path.join(VERIF, ".scratch", str(os.getpid()))
        os.makedirs(d, exist_ok=True)
        atexit.register(lambda: shutil.rmtree(d, ignore_errors=True))
        _SCRATCH = d
    return _SCRATCH


class Lock:
    """One translate+build at a time (checks may be started concurrently)."""

    def __enter__(self):
        self.f = open(os.path.join(VERIF, ".lock"), "w")
        fcntl.flock(self.f, fcntl.LOCK_EX)
        return self

    def __exit__(self, *a):
        fcntl.flock(self.f, fcntl.LOCK_UN)
        self.f.close()


# --------------------------------------------------------------------------
# hygiene

FORBIDDEN = [
    r"\bAdmitted\b", r"\badmit\b", r"\bAxiom\b", r"\bAxioms\b", r"\bParameter\b", r"\bParameters\b",
    r"\bConjecture\b", r"\bAdmit\s+Obligations\b", r"Unset\s+Guard\s+Checking", r"bypass_check",
    r"Unset\s+Positivity\s+Checking", r"Unset\s+Universe\s+Checking", r"-type-in-type",
    r"-impredicative-set", r"\bnative_compute\b", r"\bgive_up\b",
]


def strip_coq_comments(text):
    out, depth, i, n = [], 0, 0, len(text)
    instr = False
    while i < n:
        if depth == 0 and text[i] == '"':
            instr = not instr
            out.append(text[i]); i += 1; continue
        if not instr and text.startswith("(*", i):
            depth += 1; i += 2; continue
        if not instr and depth > 0 and text.startswith("*)", i):
            depth -= 1; i += 2; continue
        if depth == 0:
            out.append(text[i])
        elif text[i] == "\n":
            out.append("\n")
        i += 1
    return "".join(out)


def hygiene():
    """Return the list of forbidden constructs found in the development."""
    hits = []
    files = [p for p in glob.glob(os.path.join(COQ, "**", "*.v"), recursive=True)
             if os.sep + "Cases" + os.sep not in p]
    files.append(os.path.join(COQ, "_CoqProject"))
    for p in files:
        try:
            raw = open(p, encoding="utf-8").read()
        except OSError:
            continue
        text = strip_coq_comments(raw) if p.endswith(".v") else raw
        # string literals cannot hide vernacular; blank them so labels never trip the scan
        text_nostr = re.sub(r'"(?:[^"]|"")*"', '""', text)
        for pat in FORBIDDEN + ([r"-vos\b", r"-vok\b"] if p.endswith("_CoqProject") else []):
            for m in re.finditer(pat, text_nostr):
                line = text_nostr.count("\n", 0, m.start()) + 1
                hits.append("%s:%d: %s" % (os.path.relpath(p, VERIF), line, m.group(0)))
        if p.endswith(".v"):
            # Variable/Hypothesis/Context only inside a Section
            depth = 0
            for ln, line in enumerate(text_nostr.split("\n"), 1):
                s = line.strip()
                if re.match(r"Section\s+\w+", s):
                    depth += 1
                elif re.match(r"End\s+\w+\s*\.", s) and depth > 0:
                    depth -= 1
                elif depth == 0 and re.match(r"(Variable|Variables|Hypothesis|Hypotheses|Context)\b", s):
                    hits.append("%s:%d: %s outside a Section" % (os.path.relpath(p, VERIF), ln, s.split()[0]))
    return hits


# --------------------------------------------------------------------------
# translators and build

def write_if_changed(path, text):
    try:
        if open(path, encoding="utf-8").read() == text:
            return False
    except OSError:
        pass
    os.makedirs(os.path.dirname(path), exist_ok=True)
    tmp = path + ".tmp%d" % os.getpid()
    with open(tmp, "w", encoding="utf-8") as f:
        f.write(text)
    os.replace(tmp, path)
    return True


def coqproject_files():
    out = []
    for line in open(os.path.join(COQ, "_CoqProject")):
        line = line.strip()
        if line.endswith(".v"):
            out.append(line)
    return out


def ensure_gen_placeholders():
    """coqdep needs every file of _CoqProject to exist; a translator that
    aborted leaves a placeholder that makes dependents fail to build."""
    for f in coqproject_files():
        p = os.path.join(COQ, f)
        if f.startswith("Gen/") and not os.path.exists(p):
            write_if_changed(p, "(* placeholder: translator has not produced this file *)\n")


def ensure_makefile():
    import gen_coqproject
    gen_coqproject.main()
    mk = os.path.join(COQ, "Makefile")
    cp = os.path.join(COQ, "_CoqProject")
    if not os.path.exists(mk) or os.path.getmtime(mk) < os.path.getmtime(cp):
        subprocess.run(["coq_makefile", "-f", "_CoqProject", "-o", "Makefile"], cwd=COQ, check=True,
                       stdout=subprocess.DEVNULL, stderr=subprocess.DEVNULL)


def make(targets, timeout=1500, jobs=NCPU):
    ensure_gen_placeholders()
    ensure_makefile()
    cmd = ["timeout", str(timeout), "make", "-j%d" % jobs] + list(targets)
    p = subprocess.run(cmd, cwd=COQ, stdout=subprocess.PIPE, stderr=subprocess.STDOUT, text=True)
    return p.returncode == 0, p.stdout


def theorems_in(props_file):
    text = strip_coq_comments(open(os.path.join(COQ, props_file), encoding="utf-8").read())
    return re.findall(r"^\s*Theorem\s+([A-Za-z_][\w']*)", text, flags=re.M)


ALLOWED_AXIOMS = set()   # the development is expected to be closed; extended by name only (DESIGN 4)


def parse_assumptions(log):
    """Return list of assumption blocks in order of appearance:
    [] for 'Closed under the global context', else list of axiom names."""
    blocks = []
    lines = log.split("\n")
    i = 0
    while i < len(lines):
        ln = lines[i]
        if ln.startswith("Closed under the global context"):
            blocks.append([])
        elif ln.startswith("Axioms:"):
            names = []
            i += 1
            while i < len(lines) and (lines[i].startswith(" ") or re.match(r"^[A-Za-z_][\w.']* :", lines[i])):
                m = re.match(r"^([A-Za-z_][\w.']*)\s*:", lines[i])
                if m:
                    names.append(m.group(1))
                i += 1
            blocks.append(names)
            continue
        i += 1
    return blocks


def failing_lemma(log):
    """Name the lemma a coqc error falls in: ('Proofs/X.v', line, name)."""
    m = re.search(r'File "\./([^"]+)", line (\d+)', log)
    if not m:
        return None
    f, line = m.group(1), int(m.group(2))
    name = None
    try:
        src = open(os.path.join(COQ, f), encoding="utf-8").read().split("\n")
        for k in range(min(line, len(src)) - 1, -1, -1):
            mm = re.match(r"\s*(?:Lemma|Theorem|Corollary|Example|Definition|Fact)\s+([A-Za-z_][\w']*)", src[k])
            if mm:
                name = mm.group(1)
                break
    except OSError:
        pass
    return (f, line, name)


def build_props(props_file, extra_targets=()):
    """Full .vo build of one property file; always recompiles the property
    file itself so that Print Assumptions is re-run.  Returns dict."""
    vo = props_file[:-2] + ".vo"
    for ext in (".vo", ".vok", ".vos", ".glob"):
        try:
            os.remove(os.path.join(COQ, props_file[:-2] + ext))
        except OSError:
            pass
    ok, log = make([vo] + list(extra_targets))
    thms = theorems_in(props_file)
    blocks = parse_assumptions(log)
    res = {"ok": ok, "log_tail": log[-3000:], "theorems": thms, "assumptions": {}, "bad_axioms": [],
           "obligations": len(thms), "discharged": 0, "failed_at": None}
    for name, b in zip(thms, blocks):
        res["assumptions"][name] = b
        bad = [a for a in b if a not in ALLOWED_AXIOMS]
        if bad:
            res["bad_axioms"].append((name, bad))
    if ok:
        res["discharged"] = len(thms) if len(blocks) >= len(thms) else len(blocks)
        if len(blocks) < len(thms):
            res["ok"] = False
            res["failed_at"] = (props_file, 0, "missing Print Assumptions for some theorem")
    else:
        res["failed_at"] = failing_lemma(log)
        fa = res["failed_at"]
        res["discharged"] = len(blocks) if fa and fa[0] == props_file else 0
    return res


# --------------------------------------------------------------------------
# Gallina literals

def coq_str(s):
    """ASCII-safe Coq string literal of the UTF-8 bytes of s (printable ASCII only)."""
    b = s.encode("utf-8") if isinstance(s, str) else bytes(s)
    if any(c < 32 or c > 126 for c in b):
        raise ValueError("coq_str: non-printable byte; use coq_bytes")
    return '"' + b.decode("ascii").replace('"', '""') + '"'


def coq_Z(n):
    return "(%d)%%Z" % n if n < 0 else "%d%%Z" % n


def coq_N(n):
    return "%d%%N" % n


def coq_nat(n):
    return "%d%%nat" % n


def coq_bool(b):
    return "true" if b else "false"


def coq_list(items):
    return "[" + "; ".join(items) + "]"


def coq_option(x):
    return "None" if x is None else "(Some %s)" % x


def coq_ustr(s):
    """A Python str as `ustring` (list of code points) through the ASCII-safe
    escape decoded inside Coq by Base.UString.u: printable ASCII except `\\`
    and `"` stands for itself, everything else is \\XXXXXX; (6 hex digits)."""
    out = []
    for ch in s:
        c = ord(ch)
        if 32 <= c <= 126 and ch not in '\\"':
            out.append(ch)
        else:
            out.append("\\%06X" % c)
    return '(u "%s")' % "".join(out)


def coq_jvalue(x):
    """A JSON-like Python value as a term of Base.Json.jvalue (dict order kept;
    floats by repr text; tuples as arrays)."""
    if x is None:
        return "JNull"
    if x is True or x is False:
        return "(JBool %s)" % coq_bool(x)
    if isinstance(x, int):
        return "(JInt %s)" % coq_Z(x)
    if isinstance(x, float):
        return "(JFloat %s)" % coq_ustr(repr(x))
    if isinstance(x, str):
        return "(JStr %s)" % coq_ustr(x)
    if isinstance(x, (list, tuple)):
        return "(JArr %s)" % coq_list([coq_jvalue(e) for e in x])
    if isinstance(x, dict):
        return "(JObj %s)" % coq_list(["(%s, %s)" % (coq_ustr(k), coq_jvalue(v)) for k, v in x.items()])
    raise TypeError("coq_jvalue: %r" % type(x))


def ustr_unescape(s):
    """Inverse of Base.UString.show_ustr on a result line fragment."""
    out, i = [], 0
    while i < len(s):
        if s[i] == "\\":
            out.append(chr(int(s[i + 1:i + 7], 16)))
            i += 7
        else:
            out.append(s[i])
            i += 1
    return "".join(out)


# --------------------------------------------------------------------------
# evaluating the model inside Coq

_EVAL_RE = re.compile(r'^\s*=\s*"', re.M)


def _parse_eval_output(out):
    m = _EVAL_RE.search(out)
    if not m:
        raise RuntimeError("cannot find Eval result in coqc output:\n" + out[-2000:])
    start = m.end()
    end = out.rfind('"', start, out.rfind(": string"))
    body = out[start:end].replace('""', '"')
    lines = body.split("\n")
    if lines and lines[-1] == "":
        lines.pop()
    return lines


def coq_eval_lines(tag, header, terms, shard=400, timeout=900, wrap="render_lines"):
    """Evaluate Gallina terms of type `string` with vm_compute, one result line
    each (terms must not produce newlines).  `header` is the Require/Import
    prelude.  Returns list of result strings, same order as `terms`."""
    cases_dir = os.path.join(COQ, "Cases")
    os.makedirs(cases_dir, exist_ok=True)
    jobs = []
    for k in range(0, len(terms), shard):
        name = "%s_%d_%d" % (tag, os.getpid(), k // shard)
        path = os.path.join(cases_dir, name + ".v")
        body = header + "\nEval vm_compute in (%s [\n%s\n]).\n" % (wrap, ";\n".join(terms[k:k + shard]))
        with open(path, "w", encoding="utf-8") as f:
            f.write(body)
        jobs.append((name, path, len(terms[k:k + shard])))

    def run(job):
        name, path, n = job
        p = subprocess.run(["bash", "-c", "ulimit -s unlimited 2>/dev/null || ulimit -s 1000000; exec timeout %d coqc -Q . V -w none %s"
                            % (timeout, os.path.join("Cases", name + ".v"))],
                           cwd=COQ, stdout=subprocess.PIPE, stderr=subprocess.PIPE, text=True)
        for ext in (".v", ".vo", ".vok", ".vos", ".glob"):
            try:
                os.remove(os.path.join(cases_dir, name + ext))
            except OSError:
                pass
        try:
            os.remove(os.path.join(cases_dir, "." + name + ".aux"))
        except OSError:
            pass
        if p.returncode != 0:
            raise RuntimeError("coqc failed on case file %s:\n%s" % (name, (p.stderr or p.stdout)[-3000:]))
        lines = _parse_eval_output(p.stdout)
        if len(lines) != n:
            raise RuntimeError("case file %s: expected %d result lines, got %d" % (name, n, len(lines)))
        return lines

    out = []
    with ThreadPoolExecutor(max_workers=NCPU) as ex:
        for lines in ex.map(run, jobs):
            out.extend(lines)
    return out


# --------------------------------------------------------------------------
# running the implementation

def impl_env():
    env = dict(os.environ)
    env["PYTHONPATH"] = REPO
    env["PYTHONHASHSEED"] = "0"
    env["PYTHONDONTWRITEBYTECODE"] = "1"
    env[GUARD] = "1"
    env["VERIF_REPO"] = REPO
    env["VERIF_DIR"] = VERIF
    return env


def run_impl(worker, cases, procs=None, timeout=1800, args=()):
    """Run harness/impl/<worker>.py over JSON cases (one per line on stdin),
    collecting one JSON result per line, order preserved.  The worker imports
    stix2 from REPO.  Split over several interpreter processes."""
    script = os.path.join(VERIF, "harness", "impl", worker + ".py")
    if not cases:
        return []
    procs = procs or min(NCPU, max(1, len(cases) // 50))
    chunks = [cases[i::procs] for i in range(procs)]

    def run(chunk):
        inp = "\n".join(json.dumps(c) for c in chunk) + "\n"
        p = subprocess.run([PY, script] + list(args), input=inp, stdout=subprocess.PIPE, stderr=subprocess.PIPE,
                           text=True, env=impl_env(), timeout=timeout, cwd=scratch())
        if p.returncode != 0:
            raise RuntimeError("implementation worker %s failed:\n%s" % (worker, p.stderr[-3000:]))
        res = [json.loads(l) for l in p.stdout.split("\n") if l.strip()]
        if len(res) != len(chunk):
            raise RuntimeError("worker %s: %d results for %d cases\n%s" % (worker, len(res), len(chunk), p.stderr[-2000:]))
        return res

    with ThreadPoolExecutor(max_workers=procs) as ex:
        parts = list(ex.map(run, chunks))
    out = [None] * len(cases)
    for i, part in enumerate(parts):
        for j, r in enumerate(part):
            out[i + j * procs] = r
    return out


# --------------------------------------------------------------------------
# findings, replays, evidence

def load_known():
    """known_findings.json plus per-property files known_findings.d/*.json
    (same entry format; the split only avoids edit conflicts)."""
    out = []
    paths = [os.path.join(VERIF, "known_findings.json")] + sorted(glob.glob(os.path.join(VERIF, "known_findings.d", "*.json")))
    for p in paths:
        try:
            out += json.load(open(p))
        except OSError:
            pass
    return out


class Violation:
    """A concrete failing input on the implementation (finding=None if it was
    not classified as one of the narrowly described defect classes)."""

    def __init__(self, what, replay, finding=None):
        self.what = what
        self.replay = replay      # JSON-serialisable dict, enough for --replay
        self.finding = finding    # stable id used by known_findings.json


class Broken:
    """A proof obligation, translator or correspondence that no longer checks."""

    def __init__(self, kind, name, detail):
        self.kind = kind          # 'translator' | 'obligation' | 'assumption' | 'correspondence'
        self.name = name
        self.detail = detail


def write_replay(pid, payload):
    d = os.path.join(VERIF, "replays")
    os.makedirs(d, exist_ok=True)
    text = json.dumps(payload, indent=1, sort_keys=True, default=str)
    h = hashlib.sha1(text.encode()).hexdigest()[:12]
    path = os.path.join(d, "%s-%s.json" % (pid, h))
    with open(path, "w") as f:
        f.write(text + "\n")
    return path


def case_hash(c):
    return hashlib.sha1(json.dumps(c, sort_keys=True, default=str).encode()).hexdigest()


TRUSTED_BASE_COMMON = [
    "Coq 8.16.1 kernel (coqc), vm_compute bytecode VM; no native_compute",
    "no axioms declared by the development; Print Assumptions parsed on every run",
    "the Python harness under /verif/harness (generators, canonicalisation, oracles) and translators under /verif/translators",
    "CPython 3.12 semantics of int/str/dict and the third-party libraries the code calls (modelled, not verified)",
]


class Run:
    """One invocation of a check: accumulates what broke and what was found,
    then prints the verdict lines, writes evidence and returns the exit code."""

    def __init__(self, pid, tier, seed):
        self.pid, self.tier, self.seed = pid, tier, seed
        self.rng = random.Random(seed)
        self.t0 = time.time()
        self.broken = []
        self.violations = []
        self.coverage = {"evaluations": 0, "distinct_nontrivial": 0, "rule": "", "samples": [],
                         "obligations": 0, "discharged": 0, "checker_cmd": "", "trusted_base": list(TRUSTED_BASE_COMMON)}
        self.assumptions = []
        self.notes = []
        self._seen = set()

    # -- accounting
    def count(self, case, nontrivial=True):
        self.coverage["evaluations"] += 1
        if nontrivial:
            h = case_hash(case)
            if h not in self._seen:
                self._seen.add(h)
                self.coverage["distinct_nontrivial"] += 1

    def sample(self, x, limit=6):
        if len(self.coverage["samples"]) < limit:
            self.coverage["samples"].append(x)

    def add_build(self, res, checker_cmd):
        self.coverage["obligations"] += res["obligations"]
        self.coverage["discharged"] += res["discharged"]
        self.coverage["checker_cmd"] = checker_cmd
        self.coverage.setdefault("print_assumptions", {}).update(
            {k: (v or "Closed under the global context") for k, v in res["assumptions"].items()})
        if not res["ok"]:
            fa = res["failed_at"]
            self.broken.append(Broken("obligation", "%s" % (fa[2] if fa else "?"),
                                      {"file": fa[0] if fa else None, "line": fa[1] if fa else None,
                                       "log_tail": res["log_tail"][-1500:]}))
        for name, bad in res["bad_axioms"]:
            self.broken.append(Broken("assumption", name, {"axioms": bad}))

    # -- verdict
    def finish(self, level="proof"):
        known = {k["id"]: k for k in load_known() if k.get("property") == self.pid}
        exit_code = 0
        printed = set()
        unlisted = []
        for v in self.violations:
            k = known.get(v.finding) if v.finding else None
            if k and k.get("status") == "known":
                if v.finding not in printed:
                    printed.add(v.finding)
                    print("KNOWN-FINDING: property=%s %s [%s]" % (self.pid, k.get("what", v.what), v.finding))
            else:
                unlisted.append(v)
        seen_classes = set()
        for v in unlisted:
            key = v.finding or case_hash(v.replay)
            if key in seen_classes:
                continue
            seen_classes.add(key)
            if len(seen_classes) > 5:
                break
            payload = {"property": self.pid, "what": v.what, "finding_class": v.finding, "replay": v.replay,
                       "broken": [{"kind": b.kind, "name": b.name} for b in self.broken],
                       "rerun": "./check %s --replay <this file>" % self.pid}
            path = write_replay(self.pid, payload)
            print("VIOLATION property=%s replay=%s" % (self.pid, path))
            print("  what: %s" % v.what)
            exit_code = 1
        if self.broken and not unlisted:
            payload = {"property": self.pid, "no_failing_input_found": True,
                       "no_longer_checks": [{"kind": b.kind, "name": b.name, "detail": b.detail} for b in self.broken]}
            path = write_replay(self.pid, payload)
            for b in self.broken[:5]:
                print("  broken %s: %s" % (b.kind, b.name))
            print("VIOLATION property=%s replay=%s no-failing-input-found" % (self.pid, path))
            exit_code = 1
        elif self.broken:
            for b in self.broken[:5]:
                print("  broken %s: %s" % (b.kind, b.name))
        wall = time.time() - self.t0
        ev = {"property_id": self.pid, "tier": self.tier, "seed": self.seed, "level": level,
              "coverage": self.coverage, "assumptions": self.assumptions, "wall_s": round(wall, 2),
              "violations": len(seen_classes) + (1 if (self.broken and not unlisted) else 0),
              "known_findings_reproduced": sorted(printed), "notes": self.notes,
              "broken": [{"kind": b.kind, "name": b.name} for b in self.broken]}
        os.makedirs(os.path.join(VERIF, "evidence"), exist_ok=True)
        with open(os.path.join(VERIF, "evidence", self.pid + ".json"), "w") as f:
            json.dump(ev, f, indent=1, default=str)
            f.write("\n")
        status = "PASS" if exit_code == 0 else "FAIL"
        print("%s %s tier=%s seed=%d obligations=%d/%d evaluations=%d distinct=%d wall=%.1fs" % (
            status, self.pid, self.tier, self.seed, self.coverage["discharged"], self.coverage["obligations"],
            self.coverage["evaluations"], self.coverage["distinct_nontrivial"], wall))
        return exit_code

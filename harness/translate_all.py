"""All translators, each writing its Gen file only when the text changed."""
import os

import common


def _scales():
    import tr_scales
    text, _ = tr_scales.translate(common.REPO, None)
    common.write_if_changed(os.path.join(common.COQ, "Gen", "Scales.v"), text)


TRANSLATORS = [("tr_scales", _scales)]
GEN_FILES = ["Gen/Scales.v"]


def run_all():
    out = []
    for name, fn in TRANSLATORS:
        try:
            fn()
            out.append((name, True, ""))
        except Exception as e:  # noqa: BLE001 -- a translator abort must not stop the others
            out.append((name, False, "%s: %s" % (type(e).__name__, e)))
    return out

"""All translators, each writing its Gen file only when the text changed."""
import os

import common


def _scales():
    import tr_scales
    text, _ = tr_scales.translate(common.REPO, None)
    common.write_if_changed(os.path.join(common.COQ, "Gen", "Scales.v"), text)


def _regex():
    import tr_regex
    text, _ = tr_regex.translate(common.REPO, None)
    common.write_if_changed(os.path.join(common.COQ, "Gen", "Regexes.v"), text)


def _tables():
    import tr_tables
    t = tr_tables.dump(common.REPO, common.PY)
    common.write_if_changed(os.path.join(common.COQ, "Gen", "Tables.v"), tr_tables.emit(t, "lib", "live tables of /repo"))


def _spectables():
    import tr_tables
    common.write_if_changed(os.path.join(common.COQ, "Gen", "SpecTables.v"), tr_tables.emit_spec(common.VERIF))


TRANSLATORS = [("tr_scales", _scales), ("tr_tables", _tables), ("tr_spectables", _spectables)]
GEN_FILES = ["Gen/Scales.v", "Gen/Tables.v", "Gen/SpecTables.v"]
TRANSLATORS.append(("tr_regex", _regex))
GEN_FILES.append("Gen/Regexes.v")


def _callsites():
    import tr_callsites
    text, _ = tr_callsites.translate(common.REPO, None)
    common.write_if_changed(os.path.join(common.COQ, "Gen", "CallSites.v"), text)


TRANSLATORS.append(("tr_callsites", _callsites))
GEN_FILES.append("Gen/CallSites.v")


def _heapworld():
    import tr_heapworld
    text, _ = tr_heapworld.translate(common.REPO, common.PY)
    common.write_if_changed(os.path.join(common.COQ, "Gen", "HeapWorld.v"), text)


TRANSLATORS.append(("tr_heapworld", _heapworld))
GEN_FILES.append("Gen/HeapWorld.v")


def _c17classes():
    import tr_c17classes
    text, _ = tr_c17classes.translate(common.REPO, common.PY)
    common.write_if_changed(os.path.join(common.COQ, "Gen", "C17Classes.v"), text)


TRANSLATORS.append(("tr_c17classes", _c17classes))
GEN_FILES.append("Gen/C17Classes.v")


def _versioning():
    import tr_versioning
    text, _ = tr_versioning.translate(common.REPO, common.PY, common.VERIF)
    common.write_if_changed(os.path.join(common.COQ, "Gen", "VersioningTables.v"), text)


TRANSLATORS.append(("tr_versioning", _versioning))
GEN_FILES.append("Gen/VersioningTables.v")


def _scoid():
    import tr_scoid
    text, _ = tr_scoid.translate(common.REPO, common.PY)
    common.write_if_changed(os.path.join(common.COQ, "Gen", "ScoIdTables.v"), text)


TRANSLATORS.append(("tr_scoid", _scoid))
GEN_FILES.append("Gen/ScoIdTables.v")

def _markings():
    import tr_markings
    text, _ = tr_markings.translate(common.REPO, None)
    common.write_if_changed(os.path.join(common.COQ, "Gen", "MarkingFacts.v"), text)


TRANSLATORS.append(("tr_markings", _markings))
GEN_FILES.append("Gen/MarkingFacts.v")


def _stores():
    import tr_stores
    text, _ = tr_stores.translate(common.REPO, None)
    common.write_if_changed(os.path.join(common.COQ, "Gen", "StoreFacts.v"), text)


TRANSLATORS.append(("tr_stores", _stores))
GEN_FILES.append("Gen/StoreFacts.v")


def _numtojson():
    import tr_numtojson
    text, _ = tr_numtojson.translate(common.REPO, common.PY)
    common.write_if_changed(os.path.join(common.COQ, "Gen", "NumToJson.v"), text)
    text, _ = tr_numtojson.translate_canon(common.REPO, common.PY)
    common.write_if_changed(os.path.join(common.COQ, "Gen", "CanonFacts.v"), text)


TRANSLATORS.append(("tr_numtojson", _numtojson))
GEN_FILES.append("Gen/NumToJson.v")
GEN_FILES.append("Gen/CanonFacts.v")


def _regflow():
    import tr_regflow
    text, _ = tr_regflow.translate(common.REPO, None)
    common.write_if_changed(os.path.join(common.COQ, "Gen", "RegFlow.v"), text)


TRANSLATORS.append(("tr_regflow", _regflow))
GEN_FILES.append("Gen/RegFlow.v")


def _versioning_src():
    import tr_versioning_src
    text, _ = tr_versioning_src.translate(common.REPO, common.PY, common.VERIF)
    common.write_if_changed(os.path.join(common.COQ, "Gen", "VersioningSrc.v"), text)


TRANSLATORS.append(("tr_versioning_src", _versioning_src))
GEN_FILES.append("Gen/VersioningSrc.v")


def _filters():
    import tr_filters
    text, _ = tr_filters.translate(common.REPO, None)
    common.write_if_changed(os.path.join(common.COQ, "Gen", "FilterFacts.v"), text)


TRANSLATORS.append(("tr_filters", _filters))
GEN_FILES.append("Gen/FilterFacts.v")


def _visitor():
    import tr_visitor
    text, _ = tr_visitor.translate(common.REPO, None)
    common.write_if_changed(os.path.join(common.COQ, "Gen", "VisitorFacts.v"), text)


TRANSLATORS.append(("tr_visitor", _visitor))
GEN_FILES.append("Gen/VisitorFacts.v")


def _patterneq():
    import tr_patterneq
    text, _ = tr_patterneq.translate(common.REPO, None)
    common.write_if_changed(os.path.join(common.COQ, "Gen", "PatternEqFacts.v"), text)


TRANSLATORS.append(("tr_patterneq", _patterneq))
GEN_FILES.append("Gen/PatternEqFacts.v")


def _timestamp_src():
    import tr_timestamp_src
    text, _ = tr_timestamp_src.translate(common.REPO, common.PY, common.VERIF)
    common.write_if_changed(os.path.join(common.COQ, "Gen", "TimestampSrc.v"), text)


TRANSLATORS.append(("tr_timestamp_src", _timestamp_src))
GEN_FILES.append("Gen/TimestampSrc.v")


def run_all():
    out = []
    for name, fn in TRANSLATORS:
        try:
            fn()
            out.append((name, True, ""))
        except Exception as e:  # noqa: BLE001 -- a translator abort must not stop the others
            out.append((name, False, "%s: %s" % (type(e).__name__, e)))
    return out


"""Entry point: ./check <ID> [--tier quick|thorough] [--replay file]"""
import argparse
import importlib
import json
import os
import sys
import traceback

sys.path.insert(0, os.path.dirname(os.path.abspath(__file__)))
import common  # noqa: E402


def main():
    ap = argparse.ArgumentParser()
    ap.add_argument("pid")
    ap.add_argument("--tier", default=os.environ.get("VERIF_TIER", "quick"), choices=["quick", "thorough"])
    ap.add_argument("--replay")
    a = ap.parse_args()
    pid = a.pid.upper()
    seed = int(os.environ.get("VERIF_SEED", "20260926"))
    mod = importlib.import_module("props." + pid.lower())
    if a.replay:
        payload = json.load(open(a.replay))
        sys.exit(mod.replay(payload))
    hits = common.hygiene()
    if hits:
        print("BROKEN-CHECK: forbidden constructs in the Coq development:")
        for h in hits:
            print("  " + h)
        sys.exit(2)
    run = common.Run(pid, a.tier, seed)
    try:
        mod.check(run)
    except Exception:
        traceback.print_exc()
        run.broken.append(common.Broken("harness", "exception in check", {"trace": traceback.format_exc()[-2000:]}))
    sys.exit(run.finish(level="proof"))


if __name__ == "__main__":
    main()

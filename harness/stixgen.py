"""Structured generator of STIX objects (as JSON-like dicts) driven by the
FROZEN specification tables (/verif/spec/stix_tables.json + audited
overrides), never by the live classes of /repo: what it produces does not move
when /repo changes.  Objects are *mostly* valid; exact validity is decided by
the Coq spec validator or the model, not here.
"""
import copy
import json
import os
import string
import uuid

VERIF = os.path.dirname(os.path.dirname(os.path.abspath(__file__)))


def load_spec():
    t = json.load(open(os.path.join(VERIF, "spec", "stix_tables.json")))
    ov = json.load(open(os.path.join(VERIF, "spec", "audited_overrides.json")))
    for o in ov:
        m = o["match"]
        for cid, c in t["classes"].items():
            if "ver" in m and c["ver"] != m["ver"]:
                continue
            if "class" in m and cid != m["class"]:
                continue
            if "add_constraint" in o:
                # a co-constraint stated by the normative text (tr_tables.load_spec): recorded for the generator
                if set(m["slots"]) <= {s["name"] for s in c["slots"]} and c["family"] not in m.get("family_not", []):
                    c.setdefault("extra_constraints", []).append(o["add_constraint"])
                continue
            for s in c["slots"]:
                if s["name"] == m["slot"]:
                    s.update(copy.deepcopy(o["set"]))
    return t


STRINGS = ["a", "abc", "John Smith", "", " ", "x_y-z", "café", "中文", "\U0001F600 grin", "tab\there",
           "line\nbreak", 'quote"s', "back\\slash", "nul\u0000byte", "\u007f", "0", "false", "None", "1e5",
           "https://example.com/a?b=c&d=%20", "A" * 40]
SAFE_STRINGS = ["a", "abc", "John Smith", "x_y-z", "café", "\U0001F600 grin", "example", "v1.2.3"]
PATTERNS21 = ["[file:name = 'a']", "[ipv4-addr:value = '198.51.100.1/32']",
              "[file:hashes.'SHA-256' = 'aec070645fe53ee3b3763059376134f058cc337247c978add178b6ccdfb0019f']",
              "[a:b = 1] FOLLOWEDBY [c:d > 2] WITHIN 5 SECONDS", "[x:y NOT IN ('a', 'b') OR x:z LIKE '%q']"]
BAD_PATTERNS = ["[file:name = ", "file:name = 'a'", ""]
HASH_VALUES = {
    "MD5": "f9e40b9aa5464f3dae711ca524fceb63",
    "SHA-1": "f2c7d4185880c0adcbb4a01d020a69498b16210e",
    "SHA-256": "a2d1c2081aa932fe72307ab076b9739455bc7a21b3bed367bd9a86ae27af5a40",
    "SHA-512": "8dc580ad3abc6305ce5ada7c5920c763720c7733c2a94d28dd5351ffbc162b6b6d21371d91d65591241590251d5d3b0b8e18bd0ef1ff1c2e1ea2e8bc4a4a1a9f"[:128],
    "SHA3-256": "d5fc146e37d4fddaeaa57aa88390be5c9ca6bcb18ae1bf2346cbfc36d3310ea2",
    "SHA3-512": "8dc580ad3abc6305ce5ada7c5920c763720c7733c2a94d28dd5351ffbc162b6b6d21371d91d65591241590251d5d3b0b8e18bd0ef1ff1c2e1ea2e8bc4a4a1a9f"[:128],
    "SSDEEP": "96:gS/mFkCpXTWLr/PbKQHbr/S/mFkCpXTWLr/PbKQHbrB:Tu6SXTWGQHbeu6SXTWGQHbV",
    "TLSH": "6fd0a00d0ac9d12c0ab85c2efd5d9b1bd1f0a8b16d8d1e6e2d0f2b1c6e7d8a9b0c1d2e3f4a5b6c",
    "SHA-224": "6743ed70cc26e750ad0108b6b8ad7fc2780c550f7d78adefa04dda05",
    "SHA-384": "ac97414589b2ef59a87dc5277d156b6cfc8f6b92b7c0e889d8f38a235dd9c1ba4030321beddd13f29519390ba914f70f",
    "SHA3-224": "37cb283bc9f6ecf0f94e92d5bd4c1e061ae00d7ed85804d18f981f53",
    "SHA3-384": "ac97414589b2ef59a87dc5277d156b6cfc8f6b92b7c0e889d8f38a235dd9c1ba4030321beddd13f29519390ba914f70f",
    "MD6": "f9e40b9aa5464f3dae711ca524fceb63",
    "RIPEMD-160": "8ae5d2e6b1f3a514257f2469b637454931844aeb",
    "WHIRLPOOL": "8dc580ad3abc6305ce5ada7c5920c763720c7733c2a94d28dd5351ffbc162b6b6d21371d91d65591241590251d5d3b0b8e18bd0ef1ff1c2e1ea2e8bc4a4a1a9f"[:128],
}
for _k in list(HASH_VALUES):
    n = {"SHA-512": 128, "SHA3-512": 128, "WHIRLPOOL": 128, "TLSH": 70}.get(_k)
    if n:
        HASH_VALUES[_k] = (HASH_VALUES[_k] * 3)[:n]

import re as _re0
_TS = _re0.compile(r"^(\d{4}-\d{2}-\d{2}T\d{2}:\d{2}:\d{2})(?:\.(\d+))?Z$")
FRACS = ["", ".0", ".5", ".12", ".123", ".1230", ".123456", ".000001", ".999999", ".100000", ".000"]


SOCKET_FAMILIES = ["SO", "ICMP", "ICMP6", "IP", "IPV6", "MCAST", "TCP", "IRLMP"]
# legal option keys: family prefix, then anything (one, two and more underscores)
SOCKET_KEYS = ["SO_RCVTIMEO", "SO_REUSE_ADDR", "ICMP_FILTER", "ICMP6_FILTER", "ICMP6_ECHO_REPLY_X", "IP_TTL", "IP_MULTICAST_TTL",
               "IP_ADD_MEMBERSHIP", "IPV6_V6ONLY", "IPV6_MULTICAST_HOPS", "MCAST_JOIN_GROUP", "MCAST_JOIN_SOURCE_GROUP_X",
               "TCP_NODELAY", "TCP_KEEP_ALIVE_X", "IRLMP_ENUMDEVICES", "IRLMP_9WIRE_MODE", "SO_", "TCP_a"]


def versioned(c):
    """The class carries the common properties created / modified (not the file-system times of the 2.0
    file / directory observables)."""
    names = {s["name"] for s in c["slots"]}
    return "created" in names and "modified" in names and c["family"] != "sco"


def instant(text):
    """Exact instant of a timestamp text as a Fraction of seconds (None when it is not one)."""
    import datetime
    from fractions import Fraction
    m = _TS.match(text) if isinstance(text, str) else None
    if not m:
        return None
    try:
        d = datetime.datetime.strptime(m.group(1), "%Y-%m-%dT%H:%M:%S")
    except ValueError:
        return None
    frac = Fraction(int(m.group(2)), 10 ** len(m.group(2))) if m.group(2) else Fraction(0)
    return (d - datetime.datetime(1, 1, 1)) // datetime.timedelta(seconds=1) + frac


class Gen:
    def __init__(self, rng, spec=None):
        self.rng = rng
        self.spec = spec or load_spec()
        self.classes = self.spec["classes"]
        self.reg = self.spec["registries"]
        self.tclock = 0

    # ---- leaves
    def uuid(self, version=4):
        b = bytearray(self.rng.getrandbits(8) for _ in range(16))
        b[6] = (b[6] & 0x0F) | (version << 4)
        b[8] = (b[8] & 0x3F) | 0x80
        return str(uuid.UUID(bytes=bytes(b)))

    def timestamp(self, increasing=True):
        r = self.rng
        if increasing:
            self.tclock += r.choice([1, 1, 60, 3600, 86400 * 30])
        base = 1451606400 + self.tclock      # 2016-01-01 + clock
        import datetime
        d = datetime.datetime.fromtimestamp(base, datetime.timezone.utc)
        if r.random() < 0.1:
            y = r.choice([1000, 1970, 2000, 9999, 999, 1])
            # 29 February does not exist in 1000, 1970 and 9999: use the 28th
            d = d.replace(year=y, day=28) if (d.month, d.day) == (2, 29) else d.replace(year=y)
        # (strftime does not zero-pad years below 1000)
        return "%04d" % d.year + d.strftime("-%m-%dT%H:%M:%S") + r.choice(FRACS) + "Z"

    def string(self, safe=False):
        return self.rng.choice(SAFE_STRINGS if safe else STRINGS)

    def integer(self, mn, mx):
        r = self.rng
        cands = [0, 1, 2, 7, 100, 65535, 65536, 2 ** 31, 2 ** 63, -1]
        if mn is not None:
            cands += [mn, mn + 1]
        if mx is not None:
            cands += [mx, mx - 1]
        cands = [c for c in cands if (mn is None or c >= mn) and (mx is None or c <= mx)]
        return r.choice(cands)

    def number(self, mn, mx):
        r = self.rng
        cands = [0.0, 1.5, -1.25, 12.345678, 89.999, -179.5, 1e-7, 123456.789, 5.0, 1e21, 0.1, -0.0, 7.0, 1e16, 0]
        if mn is not None:
            cands += [float(mn), mn + 0.5]
        if mx is not None:
            cands += [float(mx), mx - 0.5]
        cands = [c for c in cands if (mn is None or c >= mn) and (mx is None or c <= mx)]
        return r.choice(cands)

    def ref_type(self, k):
        """A type name satisfying a ReferenceProperty constraint (from the frozen registries)."""
        r = self.rng
        ver = k["ver"]
        objs = list(self.reg[ver]["objects"])
        scos = list(self.reg[ver]["observables"])
        sros = ["relationship", "sighting"]
        notsdo = {"relationship", "sighting", "marking-definition", "bundle", "language-content"}
        cat = {"SDO": [t for t in objs if t not in notsdo], "SCO": scos, "SRO": sros}
        if k["white"]:
            pool = list(k["specifics"])
            for g in k["generics"]:
                pool += cat[g]
            return r.choice(pool)
        bad = set(k["specifics"])
        for g in k["generics"]:
            bad |= set(cat[g])
        pool = [t for t in objs + scos if t not in bad and t != "bundle"]
        return r.choice(pool)

    def value(self, k, depth, ctx):
        r = self.rng
        t = k["k"]
        if t in ("string", "objref"):
            if t == "objref":
                keys = ctx.get("container_keys") or ["0"]
                return r.choice(keys)
            return self.string(safe=ctx.get("safe", False))
        if t == "pattern":
            return r.choice(PATTERNS21)
        if t == "fixed":
            return k["v"]
        if t == "id":
            return k["prefix"] + self.uuid()
        if t == "int":
            return self.integer(k["min"], k["max"])
        if t == "float":
            return self.number(k["min"], k["max"])
        if t == "bool":
            return r.random() < 0.5
        if t == "time":
            return self.timestamp()
        if t == "dict":
            n = r.randint(1, 3)
            return {r.choice(["key_a", "Key-B", "abc", "x_1", "long_key_name_0"]) + str(i):
                    r.choice(["v", 1, True, 2.5, ["l"], {"n": 1}]) for i in range(n)}
        if t == "hashes":
            names = [n for n in k["names"] if n in HASH_VALUES]
            chosen = r.sample(names, r.randint(1, min(3, len(names))))
            return {n: HASH_VALUES[n] for n in chosen}
        if t == "binary":
            return r.choice(["aGVsbG8=", "AAAA", "VGhpcyBpcyBhIHRlc3Q=", "/+8="])
        if t == "hex":
            return r.choice(["00", "ab", "ABCD", "0123456789abcdef", "fF"])
        if t == "ref":
            return self.ref_type(k) + "--" + self.uuid()
        if t == "selector":
            sels = ctx.get("selectors") or ["id"]
            return r.choice(sels)
        if t == "embedded":
            return self.obj(k["cls"], depth + 1, ctx)
        if t == "enum":
            return r.choice(k["allowed"])
        if t == "openvocab":
            return r.choice(k["allowed"] + ["custom-vocab-value"]) if r.random() < 0.9 else self.string(True)
        if t == "list":
            n = r.choice([1, 1, 2, 3])
            out = [self.value(k["of"], depth, ctx) for _ in range(n)]
            if k["of"]["k"] in ("enum", "openvocab", "ref", "string") and r.random() < 0.5:
                out = list(dict.fromkeys(out))
            return out
        if t == "listof":
            return [self.obj(k["cls"], depth + 1, ctx) for _ in range(r.choice([1, 1, 2]))]
        if t == "observable":
            return self.observable_container(k["ver"], depth)
        if t == "extensions":
            return self.extensions(k["ver"], depth, ctx)
        if t == "stixobject":
            return self.bundle_member(k["ver"], depth)
        if t == "marking":
            return {"statement": self.string(True)}
        if t == "any":
            return self.string(True)
        raise ValueError(t)

    def extensions(self, ver, depth, ctx):
        owner = ctx.get("owner_type")
        applicable = {
            "file": ["archive-ext", "ntfs-ext", "pdf-ext", "raster-image-ext", "windows-pebinary-ext"],
            "network-traffic": ["http-request-ext", "icmp-ext", "socket-ext", "tcp-ext"],
            "process": ["windows-process-ext", "windows-service-ext"],
            "user-account": ["unix-account-ext"],
        }.get(owner)
        if not applicable:
            return None
        name = self.rng.choice(applicable)
        cid = self.reg[ver]["extensions"][name]
        sub = dict(ctx)
        sub["safe"] = True
        return {name: self.obj(cid, depth + 1, sub)}

    def observable_container(self, ver, depth):
        r = self.rng
        n = r.choice([1, 2, 3])
        keys = [str(i) for i in range(n)]
        types = list(self.reg[ver]["observables"].items())
        simple = [(t, c) for t, c in types if t in ("ipv4-addr", "domain-name", "file", "url", "mac-addr", "mutex",
                                                    "software", "user-account", "email-addr", "directory")]
        out = {}
        for key in keys:
            t, cid = r.choice(simple)
            out[key] = self.obj(cid, depth + 1, {"container_keys": [k2 for k2 in keys if k2 != key] or keys,
                                                 "in_container": True, "safe": True})
        return out

    def bundle_member(self, ver, depth):
        r = self.rng
        cands = [c for c in self.reg[ver]["objects"].items() if c[0] in (
            "identity", "indicator", "malware", "relationship", "campaign", "tool", "note", "vulnerability")]
        t, cid = r.choice(cands)
        return self.obj(cid, depth + 1, {"safe": True})

    # ---- objects
    def obj(self, cid, depth=0, ctx=None, optional_p=None):
        r = self.rng
        c = self.classes[cid]
        ctx = dict(ctx or {})
        ctx["owner_type"] = c["type"]
        p = optional_p if optional_p is not None else (0.55 if depth == 0 else 0.3 if depth == 1 else 0.1)
        out = {}
        for s in c["slots"]:
            k = s["kind"]
            name = s["name"]
            take = s["required"] or r.random() < p
            if name in ("type", "spec_version", "id", "created", "modified") and k["k"] in ("fixed", "id", "time"):
                take = True
            if c["family"] == "sco" and name == "id" and c["ver"] == "2.1":
                take = r.random() < 0.5
            if c["family"] == "sco" and name == "spec_version":
                take = r.random() < 0.5
            if name == "granular_markings" or name == "extensions" and c["family"] != "sco":
                take = False
            if k["k"] in ("observable", "stixobject") and depth > 0:
                take = False
            if k["k"] == "listof" and depth >= 3:
                take = s["required"]
            if not take:
                continue
            if c["ver"] == "2.0" and k["k"] == "pattern":
                v = r.choice(PATTERNS21[:3])
            else:
                v = self.value(k["of"], depth, ctx) if False else self.value(k, depth, ctx)
            if v is None:
                continue
            out[name] = v
        self.fixups(cid, c, out, depth, ctx)
        return out

    def fixups(self, cid, c, out, depth, ctx):
        """Steer towards the co-constraints (heuristic; validity is decided elsewhere)."""
        r = self.rng
        n = c["name"]
        if n == "MarkingDefinition":
            if r.random() < 0.3:
                tl = r.choice(list(self.spec["tlp"][c["ver"]].values()))
                out.clear()
                out.update(copy.deepcopy(tl))
                return
            out["definition_type"] = "statement"
            out["definition"] = {"statement": self.string(True)}
            out.pop("name", None) if c["ver"] == "2.0" else None
        if n == "ObservedData" and c["ver"] == "2.1":
            if "objects" in out and "object_refs" in out:
                out.pop(r.choice(["objects", "object_refs"]))
            if "objects" not in out and "object_refs" not in out:
                out["object_refs"] = ["ipv4-addr--" + self.uuid(5)]
        if n in ("ExternalReference",) and not ({"description", "url", "external_id"} & out.keys()):
            out["url"] = "https://example.com/x"
        if n == "File" and not ({"hashes", "name"} & out.keys()):
            out["name"] = "a.txt"
        if n == "NetworkTraffic":
            if not ({"src_ref", "dst_ref"} & out.keys()):
                kk = ctx.get("container_keys")
                out["src_ref"] = (kk[0] if (c["ver"] == "2.0" and kk) else "ipv4-addr--" + self.uuid(5)) \
                    if c["ver"] == "2.1" or kk else "0"
            if "end" in out:
                out["is_active"] = False
        if n == "Artifact":
            if "payload_bin" in out and "url" in out:
                out.pop(r.choice(["payload_bin", "url"]))
            if "payload_bin" not in out and "url" not in out:
                out["payload_bin"] = "aGVsbG8="
            if "url" in out and "hashes" not in out:
                out["hashes"] = {"MD5": HASH_VALUES["MD5"]}
        if n == "EmailMessage":
            if out.get("is_multipart"):
                out.pop("body", None)
            else:
                out.pop("body_multipart", None)
        if n == "EmailMIMEComponent" and not ({"body", "body_raw_ref"} & out.keys()):
            out["body"] = "text"
        if n == "Location":
            if ("latitude" in out) != ("longitude" in out):
                out.setdefault("latitude", 1.5)
                out.setdefault("longitude", -2.5)
            if "precision" in out and "latitude" not in out:
                out.pop("precision")
            if not ({"region", "country"} & out.keys()) and "latitude" not in out:
                out["country"] = "us"
        if n == "Malware" and out.get("is_family") and "name" not in out:
            out["name"] = "fam"
        if n == "MalwareAnalysis" and not ({"result", "analysis_sco_refs"} & out.keys()):
            out["result"] = "benign"
        if n == "GranularMarking" and c["ver"] == "2.1":
            if "lang" in out and "marking_ref" in out:
                out.pop(r.choice(["lang", "marking_ref"]))
            if "lang" not in out and "marking_ref" not in out:
                out["lang"] = "en"
        if n == "LanguageContent":
            out["contents"] = {"fr": {"name": "nom"}, "de-DE": {"description": "b"}}
        if n == "SocketExt" and "options" in out:
            out["options"] = {"SO_RCVTIMEO": 100, "IP_TTL": 64}
        if n == "X509Certificate" and len(out.keys() - {"type", "id", "spec_version", "defanged", "extensions"}) == 0:
            out["serial_number"] = "01"
        if n == "Process" and c["ver"] == "2.1" and len(out.keys() - {"type", "id", "spec_version", "defanged", "extensions"}) == 0:
            out["pid"] = 1
        if n == "Process" and c["ver"] == "2.0" and len(out.keys() - {"type", "extensions"}) == 0:
            out["pid"] = 1
        if c["family"] == "ext" and len(out.keys()) == 0:
            for s in c["slots"]:
                if s["kind"]["k"] in ("string", "int", "bool"):
                    out[s["name"]] = self.value(s["kind"], depth, ctx)
                    break
        if n == "WindowsPEOptionalHeaderType" and not out:
            out["magic_hex"] = "010b"
        if n == "Bundle":
            out.pop("spec_version", None)
        if n == "Indicator" and c["ver"] == "2.1":
            out["pattern_type"] = "stix"
            out["pattern"] = r.choice(PATTERNS21)
            if "pattern_version" in out:
                out["pattern_version"] = "2.1"
        if n == "ObservedData" and c["ver"] == "2.0":
            pass
        # common properties: modified is not earlier than created (no random draws: swap)
        if versioned(c) and isinstance(out.get("created"), str) and isinstance(out.get("modified"), str):
            a, b = instant(out["created"]), instant(out["modified"])
            if a is not None and b is not None and b < a:
                out["created"], out["modified"] = out["modified"], out["created"]

    def toplevel_ids(self):
        """class ids that are parse() entry points (registered object / observable types)."""
        out = []
        for ver in ("2.0", "2.1"):
            for t, cid in self.reg[ver]["objects"].items():
                out.append(cid)
            for t, cid in self.reg[ver]["observables"].items():
                out.append(cid)
        return out

    def add_granular_markings(self, cid, o):
        """Granular markings on truthy string-valued top-level properties."""
        c = self.classes[cid]
        if not any(s["name"] == "granular_markings" for s in c["slots"]):
            return
        sels = [k for k, v in o.items() if isinstance(v, str) and v and k not in ("granular_markings",) and len(k) >= 3]
        if not sels:
            return
        r = self.rng
        gm = {"selectors": r.sample(sels, min(len(sels), r.choice([1, 2])))}
        if c["ver"] == "2.1" and r.random() < 0.3:
            gm["lang"] = "en"
        else:
            gm["marking_ref"] = "marking-definition--" + self.uuid()
        o["granular_markings"] = [gm]


_SEL = _re0.compile(r"^([a-z0-9_-]{3,250}(\.(\[\d+\]|[a-zA-Z0-9_-]{1,250}))*|id)$")


def selector_paths(o, max_depth=4):
    """Every path of the object as a granular-marking selector: top-level properties, list elements, properties of
    embedded objects inside lists, dictionary keys, nested (those that are syntactically selectors)."""
    out = []

    def go(prefix, v, depth):
        out.append(prefix)
        if depth >= max_depth:
            return
        if isinstance(v, dict):
            for k, w in v.items():
                go(prefix + "." + k, w, depth + 1)
        elif isinstance(v, list):
            for i, w in enumerate(v):
                go(prefix + ".[%d]" % i, w, depth + 1)
    for k, v in o.items():
        if k != "granular_markings":
            go(k, v, 1)
    return [p for p in out if _SEL.match(p)]


def path_marked(gen, cid, o, n=10):
    """The object with ONE granular marking whose selectors are up to n of its own paths, of every shape present
    (None when the class has no granular_markings)."""
    c = gen.classes[cid]
    if not any(s["name"] == "granular_markings" for s in c["slots"]):
        return None
    paths = selector_paths(o)
    if not paths:
        return None
    r = gen.rng
    by_shape = {}
    for p in paths:
        shape = (p.count("."), p.count("["), p.endswith("]"))
        by_shape.setdefault(shape, []).append(p)
    chosen = [r.choice(v) for v in by_shape.values()]
    rest = [p for p in paths if p not in chosen]
    r.shuffle(rest)
    sels = (chosen + rest)[:max(n, len(chosen))]
    x = dict(o)
    x["granular_markings"] = [{"selectors": sels, "marking_ref": "marking-definition--" + gen.uuid()}]
    return x


# ---------------------------------------------------------------- corruption

def junk_values():
    return [None, True, False, 0, 1, -1, 2 ** 70, 1.5, "", "str", [], ["a"], [1, None], {}, {"a": 1}, [[]], {"a": {"b": []}},
            -0.0, 7.0, 10 ** 21, 10 ** 400, "0", " ", "\u007f"]


def corruptions(gen, cid, o):
    """Single-point corruptions of a (presumably valid) object: list of (kind, slot, object)."""
    r = gen.rng
    c = gen.classes[cid]
    out = []
    present = [s for s in c["slots"] if s["name"] in o]
    required = [s for s in present if s["required"]]
    if required:
        s = r.choice(required)
        x = dict(o)
        del x[s["name"]]
        out.append(("drop-required", s["name"], x))
    for s in required:
        # a required property given explicitly with a value the constructor discards
        for v in (None, []):
            x = dict(o)
            x[s["name"]] = v
            out.append(("required-discarded", s["name"], x))
    if present:
        s = r.choice(present)
        x = dict(o)
        x[s["name"]] = r.choice(junk_values())
        out.append(("wrong-kind", s["name"], x))
    x = dict(o)
    x[r.choice(["foo", "x_custom", "Xbad", "extra_prop", "x__two__underscores", "x-hy-phen", "spec_version", "pattern_version",
                "object_refs", "x_" + "a" * 250])] = r.choice(["v", 1, None, [], "2.1"])
    out.append(("unknown-property", None, x))
    for s in present:
        k = s["kind"]
        t = k["k"]
        x = dict(o)
        if t == "int":
            # a boolean where an integer is required (1 / 0 lie inside most ranges; Python's bool is an int)
            y = dict(o)
            y[s["name"]] = r.choice([True, False])
            out.append(("bool-for-int", s["name"], y))
            # a float where an integer is required: integer-valued, fractional, beyond 2^53
            y = dict(o)
            y[s["name"]] = r.choice([7.0, 7.5, -0.0, 1e16, 2.0 ** 53 + 2])
            out.append(("float-for-int", s["name"], y))
        if t == "int" and (k["min"] is not None or k["max"] is not None):
            x[s["name"]] = (k["min"] - 1) if k["min"] is not None and r.random() < 0.5 or k["max"] is None else k["max"] + 1
            out.append(("out-of-range", s["name"], x))
        elif t == "float" and (k["min"] is not None or k["max"] is not None):
            x[s["name"]] = (k["min"] - 0.5) if k["min"] is not None and r.random() < 0.5 or k["max"] is None else k["max"] + 0.5
            out.append(("out-of-range", s["name"], x))
        elif t == "enum":
            x[s["name"]] = "not-in-vocabulary"
            out.append(("out-of-vocab", s["name"], x))
        elif t == "ref" or (t == "list" and k["of"]["k"] == "ref"):
            rk = k if t == "ref" else k["of"]
            wrap = (lambda v: v) if t == "ref" else (lambda v: [v])
            bad = dict(rk)
            bad["white"] = not rk["white"]
            try:
                x[s["name"]] = wrap(gen.ref_type(bad) + "--" + gen.uuid())
                out.append(("bad-ref-type", s["name"], x))
            except IndexError:
                pass
            # a malformed identifier in a reference (the type part stays a legal target)
            try:
                ty = gen.ref_type(rk)
                u = gen.uuid()
                y = dict(o)
                y[s["name"]] = wrap(r.choice([
                    ty + "--evil--" + u, ty + "----" + u, ty + "--" + u + "--" + gen.uuid(), ty + "-" + u, ty + "--" + u[:-1],
                    ty + "--" + u + "0", ty + "--" + u.replace("-", ""), ty + "--" + u.upper(), ty + "--{" + u + "}",
                    ty + "--urn:uuid:" + u, ty + "--not-a-uuid", ty + "--", "--" + u, u, ty + "--" + u + "\n",
                    ty + "--00000000-0000-0000-0000-000000000000", " " + ty + "--" + u, ty + "--" + u + " "]))
                out.append(("bad-ref-id", s["name"], y))
            except IndexError:
                pass
        elif t == "id":
            x[s["name"]] = r.choice([k["prefix"] + "not-a-uuid", k["prefix"][:-2] + "-" + gen.uuid(),
                                      "other--" + gen.uuid(), k["prefix"] + gen.uuid().replace("-", ""),
                                      k["prefix"] + gen.uuid().upper(), k["prefix"] + "{" + gen.uuid() + "}",
                                      k["prefix"] + "00000000-0000-0000-0000-000000000000",
                                      k["prefix"] + gen.uuid(1)])
            out.append(("bad-id", s["name"], x))
        elif t == "time":
            x[s["name"]] = r.choice(["2016-13-01T00:00:00Z", "2016-01-01 00:00:00Z", "2016-01-01T00:00:00", "yesterday",
                                      "2016-01-01T00:00:00.Z", "2016-02-30T00:00:00Z", "2016-01-01T24:00:00Z",
                                      "2016-01-01T00:00:00.1234567Z", "2016-1-1T0:0:0Z", "2016-01-01T00:00:60Z"])
            out.append(("bad-timestamp", s["name"], x))
        elif t == "hex":
            x[s["name"]] = r.choice(["abc", "zz", "ab\n", ""])
            out.append(("bad-hex", s["name"], x))
        elif t == "list" and r.random() < 0.3:
            x[s["name"]] = r.choice([[], "single", [None]])
            out.append(("bad-list", s["name"], x))
        elif t == "hashes":
            x[s["name"]] = r.choice([{"MD5": "zz"}, {"SHA-256": "abc"}, {"md5": HASH_VALUES["MD5"]},
                                      {"FOO-HASH": "abcd"}, {"MD5": HASH_VALUES["MD5"] + "\n"}, {}])
            out.append(("bad-hash", s["name"], x))
        elif t == "dict" and r.random() < 0.5:
            x[s["name"]] = r.choice([{"a": 1}, {"bad key": 1}, {"k" * 300: 1}, {"key\n": 1}, {}, "notdict", 5])
            out.append(("bad-dict", s["name"], x))
        elif t == "dict" and r.random() < 0.5:
            # key lengths on both sides of the bounds (2.0: 3..256, 2.1: 1..250)
            n = r.choice([1, 2, 3, 250, 251, 255, 256, 257])
            x[s["name"]] = {"k" * n: "v"}
            out.append(("dict-key-length", s["name"], x))
        elif t == "dict":
            # the keys are fine; a value carries a null or an empty list (at some depth)
            x[s["name"]] = r.choice([{"key_a": None}, {"key_a": []}, {"key_a": "v", "key_b": [None]}, {"key_a": {"n": None}},
                                      {"key_a": [[]]}, {"key_a": {"n": {"deep": []}}}, {"key_a": ["v", None]}])
            out.append(("bad-dict-value", s["name"], x))
        elif t == "binary":
            x[s["name"]] = r.choice(["aGVs bG8=", "aGVsbG8=\n", "aGVsbG8=!!garbage", "aGVsbG8", "a", "====", "aGVsbG8=aGVsbG8=",
                                      "!!!!", "aGVs\tbG8=", "aGVsbG8= ", " aGVsbG8=", "aGVsbG8==", "aGVsbA=", "aGVsbG9=",
                                      "aGVs-G8_", "YQ", "YQ=", "\u00e9GVsbG8="])
            out.append(("bad-binary", s["name"], x))
    r.shuffle(out)
    return out


# ------------------------------------------------------- sizes and depths (valid shapes)

SIZES = [1, 2, 9, 10, 11, 63, 64, 65, 100, 101, 255, 256]


def size_variations(gen, cid, o):
    """The object with ONE property at an unusual size: a list of N elements, a string of length 0 / 1 / 255 / 256, a
    dictionary whose key has a bound length or whose value is nested N deep.  All are legal shapes."""
    r = gen.rng
    c = gen.classes[cid]
    out = []
    for s in c["slots"]:
        k, name = s["kind"], s["name"]
        if k["k"] == "list" and k["of"]["k"] in ("string", "openvocab") and name != "selectors":
            n = r.choice(SIZES)
            x = dict(o)
            x[name] = ["item-%03d" % i for i in range(n)]
            out.append(("list-of-%d" % n, name, x))
        elif k["k"] == "string" and not s["required"] and name in o and name not in ("definition_type", "pattern_version"):
            # (definition_type / pattern_version name a registered marking type / a pattern-language version)
            n = r.choice([0, 1, 255, 256])
            x = dict(o)
            x[name] = "s" * n
            out.append(("string-of-%d" % n, name, x))
        elif k["k"] == "dict":
            x = dict(o)
            if r.random() < 0.5:
                n = 3 if k["ver"] == "2.0" and r.random() < 0.5 else (256 if k["ver"] == "2.0" else r.choice([1, 250]))
                x[name] = {"k" * n: "v"}
                out.append(("dict-key-of-%d" % n, name, x))
            else:
                n = r.choice([1, 2, 10, 64])
                v = "leaf"
                for _ in range(n):
                    v = {"lvl": v}
                x[name] = {"key_a": v}
                out.append(("dict-depth-%d" % n, name, x))
    r.shuffle(out)
    return out


# ------------------------------------------------------- co-constraint corruption

import re as _re

_LIST = r"\[([^\]]*)\]"


def _names(s):
    return _re.findall(r"'([^']+)'", s)


def coconstraint_corruptions(gen, cid, o):
    """Single-point violations of the inter-property constraints the frozen spec records for the class
    (at-least-one, mutually exclusive, dependency, ordered timestamps, and the special cases): list of
    ("co-constraint", label, object)."""
    r = gen.rng
    c = gen.classes[cid]
    src = c.get("constraints_src") or ""
    slots = {s["name"]: s for s in c["slots"]}
    out = []

    def val(name, ctx=None):
        return gen.value(slots[name]["kind"], 1, ctx or {"safe": True, "owner_type": c["type"]})

    for m in _re.finditer(r"_check_at_least_one_property\(" + _LIST + r"\)", src):
        ps = _names(m.group(1))
        if not any(slots.get(p, {}).get("required") for p in ps):
            x = {k: v for k, v in o.items() if k not in ps}
            out.append(("co-constraint", "none-of:" + ",".join(ps), x))
    if "_check_at_least_one_property()" in src or c["family"] == "ext":
        keep = {"type", "extensions", "id", "spec_version", "defanged"}
        x = {k: v for k, v in o.items() if k in keep or slots.get(k, {}).get("required")}
        if x != o:
            out.append(("co-constraint", "no-property", x))
    for m in _re.finditer(r"_check_mutually_exclusive_properties\(" + _LIST + r"\)", src):
        ps = [p for p in _names(m.group(1)) if p in slots]
        x = dict(o)
        try:
            for p in ps:
                if p not in x:
                    v = val(p)
                    if v is not None:
                        x[p] = v
            if sum(1 for p in ps if p in x) > 1:
                out.append(("co-constraint", "both:" + ",".join(ps), x))
        except (ValueError, IndexError, KeyError):
            pass
    for m in _re.finditer(r"_check_properties_dependency\(" + _LIST + r", " + _LIST + r"\)", src):
        ps, ds = _names(m.group(1)), _names(m.group(2))
        x = dict(o)
        try:
            for p in ps:
                x.pop(p, None)
            d = r.choice([d for d in ds if d in slots])
            if d not in x:
                x[d] = val(d)
            if not any(slots.get(p, {}).get("required") for p in ps):
                out.append(("co-constraint", "dependent-without:" + ",".join(ps), x))
                # the same with a falsy-but-present dependent value (0, 0.0, "", false): a guard written as a
                # truthiness test would not see it
                for dd in ds:
                    if dd not in slots:
                        continue
                    falsy = {"int": [0], "float": [0.0, 0], "string": [""], "bool": [False]}.get(slots[dd]["kind"]["k"], [])
                    for fv in falsy:
                        kd = slots[dd]["kind"]
                        if kd["k"] in ("int", "float") and ((kd.get("min") is not None and kd["min"] > 0) or (kd.get("max") is not None and kd["max"] < 0)):
                            continue
                        y = dict(x)
                        y[dd] = fv
                        out.append(("co-constraint", "dependent-falsy-without:" + ",".join(ps) + ":" + dd, y))
        except (ValueError, IndexError, KeyError):
            pass
    # ordered timestamps: `a = self.get('p')` ... `(b < a)` / `(b <= a)`
    env = dict(_re.findall(r"(\w+) = self\.get\('(\w+)'\)", src))
    for m in _re.finditer(r"\((\w+) (<=|<) (\w+)\)", src):
        later, op, earlier = env.get(m.group(1)), m.group(2), env.get(m.group(3))
        if later in slots and earlier in slots:
            # the boundary (equal instants, written differently) and the reversed order
            for label, lv in (("equals", "2016-06-01T00:00:00Z"), ("before", "2015-06-01T00:00:00.000Z"),
                              ("just-before", "2016-05-31T23:59:59.999999Z")):
                x = dict(o)
                x[earlier] = "2016-06-01T00:00:00.000Z"
                x[later] = lv
                if c["name"] == "NetworkTraffic":
                    x["is_active"] = False
                out.append(("co-constraint", "%s-%s-%s" % (later, label, earlier), x))
    if versioned(c):
        # common properties: modified before created (reversed, by one millisecond, by sub-millisecond digits)
        # and the boundary modified == created
        alts = [("modified-before-created", "2016-06-01T00:00:00.000Z", "2015-06-01T00:00:00.000Z"),
                ("modified-just-before-created", "2016-06-01T00:00:00.000Z", "2016-05-31T23:59:59.999Z"),
                ("modified-equals-created", "2016-06-01T00:00:00.000Z", "2016-06-01T00:00:00.000Z")]
        if c["ver"] == "2.1":
            alts.append(("modified-submillisecond-before-created", "2016-06-01T00:00:00.000500Z", "2016-06-01T00:00:00.000499Z"))
        for label, cr, mo in alts:
            x = dict(o)
            x["created"], x["modified"] = cr, mo
            out.append(("co-constraint", label, x))
    n = c["name"]
    if n == "NetworkTraffic" and c["ver"] == "2.1":
        x = dict(o)
        x["end"] = "2017-01-01T00:00:00Z"
        x.pop("start", None)
        x["is_active"] = True
        out.append(("co-constraint", "end-and-active", x))
        x = dict(x)
        x.pop("is_active")
        out.append(("co-constraint", "end-without-is_active", x))
    if n == "Malware" and c["ver"] == "2.1":
        x = dict(o)
        x["is_family"] = True
        x.pop("name", None)
        out.append(("co-constraint", "family-without-name", x))
    if n == "Location":
        x = {k: v for k, v in o.items() if k not in ("region", "country", "latitude", "longitude", "precision")}
        out.append(("co-constraint", "no-place", x))
        x = dict(x)
        x["latitude"] = 10.5
        x["country"] = "us"
        out.append(("co-constraint", "latitude-without-longitude", x))
        x = dict(o)
        x.pop("latitude", None)
        x.pop("longitude", None)
        x["precision"] = 10.0
        x["country"] = "us"
        out.append(("co-constraint", "precision-without-coordinates", x))
        for pv in (0.0, 0):
            y = dict(x)
            y["precision"] = pv
            out.append(("co-constraint", "zero-precision-without-coordinates", y))
    if n == "EmailMessage":
        x = dict(o)
        x["is_multipart"] = True
        x["body"] = "text"
        x.pop("body_multipart", None)
        out.append(("co-constraint", "multipart-with-body", x))
        x = dict(o)
        x["is_multipart"] = False
        x["body_multipart"] = [{"body": "part"}]
        x.pop("body", None)
        out.append(("co-constraint", "not-multipart-with-parts", x))
    if n == "MarkingDefinition":
        tl = copy.deepcopy(r.choice(list(gen.spec["tlp"][c["ver"]].values())))
        x = dict(tl)
        x["id"] = "marking-definition--" + gen.uuid()
        out.append(("co-constraint", "tlp-wrong-id", x))
        x = dict(tl)
        x["created"] = "2017-01-20T00:00:01.000Z"
        out.append(("co-constraint", "tlp-wrong-created", x))
        colours = ["white", "green", "amber", "red"]
        x = copy.deepcopy(tl)
        x["definition"] = {"tlp": r.choice([k for k in colours if k != tl["definition"]["tlp"]])}
        out.append(("co-constraint", "tlp-other-colour-under-standard-id", x))
        x = copy.deepcopy(tl)
        x["definition"] = {"tlp": r.choice(["gray", "clear", "WHITE", ""])}
        out.append(("co-constraint", "tlp-unknown-colour", x))
        x = copy.deepcopy(tl)
        x["definition"] = {"tlp": "purple"}
        x["id"] = "marking-definition--" + gen.uuid()
        out.append(("co-constraint", "tlp-unknown-colour-fresh-id", x))
        if c["ver"] == "2.1":
            x = {k: v for k, v in o.items() if k not in ("definition", "extensions")}
            out.append(("co-constraint", "definition_type-without-definition", x))
    if n == "SocketExt":
        x = dict(o)
        x["options"] = r.choice([{"BAD_KEY": 1}, {"SO_RCVTIMEO": "x"}, {"NOUNDERSCORE": 1}, {"SO_X": 1.5}])
        out.append(("co-constraint", "socket-options", x))
        # option keys: every family x {no underscore, family name alone, family + one more letter, lower case}
        for fam in SOCKET_FAMILIES:
            for key in (fam, fam + "X", fam[:-1] + "_" + fam[-1:] if len(fam) > 2 else fam + "_", fam.lower() + "_x", "X" + fam + "_OPT"):
                y = dict(o)
                y["options"] = {key: 1}
                out.append(("co-constraint", "socket-option-key:" + key, y))
    if n == "ObservedData" and c["ver"] == "2.1":
        x = {k: v for k, v in o.items() if k not in ("objects", "object_refs")}
        out.append(("co-constraint", "neither-objects-nor-refs", x))
    if n == "Indicator":
        x = dict(o)
        x["pattern"] = r.choice(BAD_PATTERNS)
        out.append(("co-constraint", "bad-pattern", x))
    return out


def ordered_timestamp_pairs(gen, cid):
    """(later, earlier) property names of the class's ordered-timestamp rules (own constraint text of the frozen spec,
    plus created <= modified on the versioned classes)."""
    c = gen.classes[cid]
    src = c.get("constraints_src") or ""
    slots = {s["name"] for s in c["slots"]}
    env = dict(_re.findall(r"(\w+) = self\.get\('(\w+)'\)", src))
    out = []
    for m in _re.finditer(r"\((\w+) (<=|<) (\w+)\)", src):
        later, earlier = env.get(m.group(1)), env.get(m.group(3))
        if later in slots and earlier in slots:
            out.append((later, earlier))
    if versioned(c):
        out.append(("modified", "created"))
    return out


def offset_datetime_cases(gen, cid, o):
    """Python-only: the two properties of an ordered-timestamp rule given as AWARE datetime objects with different UTC
    offsets, such that the wall-clock readings are in order while the instants are not (and the reverse, which is
    legal): list of (label, object)."""
    out = []
    for later, earlier in ordered_timestamp_pairs(gen, cid):
        def dt(h, off):
            return {"__py__": "datetime-offset", "items": [2016, 6, 1, h, 0, 0, 0], "offset": off}
        for label, e, l in (("offset-instant-reversed", dt(12, 0), dt(13, 300)),        # 12:00Z, 13:00+05:00 = 08:00Z
                            ("offset-instant-reversed", dt(12, -300), dt(13, 0)),       # 17:00Z, 13:00Z
                            ("offset-wallclock-reversed", dt(12, 300), dt(11, 0))):     # 07:00Z, 11:00Z (legal)
            x = dict(o)
            x[earlier], x[later] = e, l
            if gen.classes[cid]["name"] == "NetworkTraffic":
                x["is_active"] = False
            out.append((label + ":" + later, x))
    return out


# ------------------------------------------------------- Python-only argument values

def py_value_cases(gen, cid, o):
    """Objects in which one property value is not JSON-like (a lazy iterable, a tuple, a set, a datetime):
    list of (label, slot, object) where the value is written {"__py__": <tag>, "items": [...]}; the
    implementation worker builds the Python value.  Checked by the oracle only (the model is over JSON)."""
    r = gen.rng
    c = gen.classes[cid]
    out = []
    for s in c["slots"]:
        k = s["kind"]
        name = s["name"]
        if k["k"] in ("list", "listof"):
            try:
                items = gen.value(k, 1, {"safe": True, "owner_type": c["type"]})
            except (ValueError, IndexError, KeyError):
                continue
            for tag, its in (("iter", []), ("genexp", []), ("map", []), ("filter", []), ("tuple", []), ("set", []),
                             ("iter", items), ("tuple", items), ("genexp", items)):
                if tag == "set" and its:
                    continue
                x = dict(o)
                x[name] = {"__py__": tag, "items": its}
                out.append(("py-" + tag + ("-empty" if not its else ""), name, x))
        elif k["k"] == "time" and name in o:
            x = dict(o)
            x[name] = {"__py__": r.choice(["datetime", "datetime-naive", "date"]), "items": [2016, 5, 17, 1, 2, 3, 123456]}
            out.append(("py-datetime", name, x))
        elif k["k"] == "embedded":
            # an already constructed object where a dictionary is usual: of the right class, of the right class
            # but built with allow_custom (carrying a custom property), of another class
            try:
                sub = gen.obj(k["cls"], 1, {"safe": True})
            except (ValueError, IndexError, KeyError):
                continue
            x = dict(o)
            x[name] = {"__py__": "stix", "cid": k["cls"], "kwargs": sub, "allow": False}
            out.append(("py-object", name, x))
            x = dict(o)
            x[name] = {"__py__": "stix", "cid": k["cls"], "kwargs": dict(sub, x_custom_inside=1), "allow": True}
            out.append(("py-object-custom", name, x))
            x = dict(o)
            x[name] = {"__py__": "stix", "cid": c["ver"] + "/KillChainPhase" if not k["cls"].endswith("KillChainPhase") else c["ver"] + "/ExternalReference",
                       "kwargs": ({"kill_chain_name": "k", "phase_name": "p"} if not k["cls"].endswith("KillChainPhase") else {"source_name": "s", "url": "http://x"}),
                       "allow": False}
            out.append(("py-object-other-class", name, x))
        elif k["k"] == "extensions" and c["family"] == "sco":
            ext = gen.extensions(k["ver"], 0, {"owner_type": c["type"], "safe": True})
            if ext:
                (ename, sub), = ext.items()
                ecid = gen.reg[k["ver"]]["extensions"][ename]
                for label, kw, allow in (("py-extension-object", sub, False), ("py-extension-object-custom", dict(sub, x_custom_inside=1), True)):
                    x = dict(o)
                    x[name] = {ename: {"__py__": "stix", "cid": ecid, "kwargs": kw, "allow": allow}}
                    out.append((label, name, x))
        elif k["k"] == "marking":
            # `definition` given as a marking object: of the kind definition_type names, and of the other kind
            ver = k["ver"]
            for label, dt, mc, kw in (("py-marking-object", "statement", "StatementMarking", {"statement": "s"}),
                                      ("py-marking-other-kind", "statement", "TLPMarking", {"tlp": "white"}),
                                      ("py-marking-other-kind", "tlp", "StatementMarking", {"statement": "s"})):
                x = {kk: v for kk, v in o.items() if kk not in ("definition", "definition_type", "id", "created")}
                x["definition_type"] = dt
                x["definition"] = {"__py__": "stix", "cid": ver + "/" + mc, "kwargs": kw, "allow": False}
                out.append((label, name, x))
    r.shuffle(out)
    return out


# ------------------------------------------------------- sequences (state kept between calls)

def uuid_reuse_sequences(gen, n):
    """Pairs of calls that use the SAME RFC 4122 non-v4 UUID text under the two specification versions, in
    both orders (identifier and reference positions): a 2.0 object may not carry it, a 2.1 object may.  Each
    sequence is a list of (class id, object); the calls of one sequence run in one process, in order."""
    r = gen.rng
    out = []
    t0 = "2016-01-01T00:00:00.000Z"
    for i in range(n):
        u = gen.uuid(r.choice([5, 1, 3]))
        id20 = {"type": "identity", "id": "identity--" + u, "created": t0, "modified": t0, "name": "n", "identity_class": "individual"}
        id21 = {"type": "identity", "spec_version": "2.1", "id": "identity--" + u, "created": t0, "modified": t0, "name": "n"}
        ref20 = {"type": "identity", "id": "identity--" + gen.uuid(), "created": t0, "modified": t0, "name": "n",
                 "identity_class": "individual", "created_by_ref": "identity--" + u}
        ref21 = {"type": "identity", "spec_version": "2.1", "id": "identity--" + gen.uuid(), "created": t0, "modified": t0,
                 "name": "n", "created_by_ref": "identity--" + u}
        sco21 = {"type": "ipv4-addr", "spec_version": "2.1", "id": "ipv4-addr--" + u, "value": "198.51.100.%d" % (i % 250)}
        a, b = r.choice([(id20, id21), (ref20, ref21), (id20, ref21), (ref20, id21), (id20, sco21), (ref20, sco21)])
        pair = [("2.0/Identity", a), ("2.1/IPv4Address" if b is sco21 else "2.1/Identity", b)]
        out.append(pair if i % 2 == 0 else pair[::-1])
    return out

"""C12 -- queries return exactly the objects satisfying every filter; the
filesystem shortcuts never change the result; attached filters apply.

Model coq/Model/Filters.v (hand-written, mirrors filters.py / filesystem.py /
memory.py / CompositeDataSource.query), theorems in coq/Props/C12.v,
correspondence on generated populations x filter sets x routes, oracle = a
naive reference evaluation written here from the documented operator
semantics (timestamps as instants), monotonicity and conjunction laws."""
import datetime as dt
import json
import os
import re
from concurrent.futures import ThreadPoolExecutor

import common
from common import Broken, Violation

MANIFEST = {
    "text": "Coq theorems about a hand-written executable model of Filter._check_property/_check_filter/"
            "apply_common_filters/FilterSet, of the filesystem optimiser (AuthSet, _update_allow with CPython's lazy "
            "intersection_update, _find_search_optimizations, _get_matching_dir_entries, versioned/unversioned search) and "
            "of MemorySource/FileSystemSource/CompositeDataSource query and all_versions: for every filter list and every "
            "directory tree satisfying the layout invariant the optimised query returns, up to permutation, exactly the "
            "objects of an unfiltered scan on which every filter holds, and raises only if that scan raises "
            "(opt_sound_complete, opt_raises_only_if_scan_does; the invariant holds after every history of sink adds); "
            "adding a filter only shrinks; a conjunction is the intersection; attached and composite-passed filters reach "
            "the same evaluation and hold for every answer; closed forms of the operators; timestamps as instants. Tied "
            "to the code by a correspondence run (query and all_versions through MemorySource, FileSystemSource, "
            "CompositeDataSource) and a reference-evaluation oracle on every generated case.",
    "design_ref": "DESIGN.md 6/C12, Appendix A.2",
    "note": "Trusted: Coq kernel + vm_compute, the hand-written model (compared with the implementation on every run), "
            "the harness generator / reference evaluation. The filesystem is a finite map from names to entries; "
            "`parse` is not modelled (a file is the value parse returns for it; the harness checks what the stores hold "
            "against what it generated). Hypotheses visible in the statements: layout invariant Inv (names distinct, "
            "object under its own type / id, id prefix = type); tyid_wf (type / id filter values are strings / lists of "
            "strings) only for the variant OptAnyValue of the code before fix 4d5628c -- none for the code as it is now; "
            "wfv (values are Python values: a dict has each key once) for the FilterSet theorems -- == on values is "
            "proved an equivalence and every operator a congruence for it. Filter timestamp strings: parse_ts is proved "
            "to agree with C15's strict reader (Spec/TimestampSpec.v) and with C15's model of strptime (Model/Timestamp.v). "
            "The model tree is arranged in the os.listdir order the worker observed, so most filesystem-route answers are "
            "compared in order and with their exact exception class; the remaining ones (about 6 %: a white list with two "
            "or more values is walked in Python set order) are compared as multisets, two exception classes out of "
            "TypeError / AttributeError / ValueError counting as one observation. "
            "`answer_iff_every_filter_holds` is definitional in the model (one unfolding of holds_b / all_hold). "
            "Variants detected at run time: ts_mode (TextOnDicts = known finding C12-dict-timestamp-text), opt_mode. "
            "Source-text tie: translators/tr_filters.py reads, on every run, the ast of filters.py (FILTER_OPS, "
            "_check_filter_components, Filter.__new__ / _check_property, apply_common_filters, _check_filter, FilterSet) and of "
            "the shortcut code of filesystem.py (_update_allow, _find_search_optimizations, AuthSet.__init__, "
            "_get_matching_dir_entries) into Gen/FilterFacts.v; Props/C12Src.v (17 obligations) states place by place that the "
            "text is the choice the model mirrors and instantiates the main theorems at the shortcut variant the text denotes; "
            "the variant read from the text must agree with the one the run-time witnesses show. The tie is textual: ANY edit "
            "of a tied function (docstrings / comments apart), also a behaviour-preserving one, breaks the obligation about "
            "that place by name.",
    "technique": "Coq proof over a hand-written model + correspondence run + reference-evaluation oracle",
}

EPOCH = dt.datetime(1970, 1, 1, tzinfo=dt.timezone.utc)
HEX = "0123456789abcdef"
OPS = ["=", "!=", "in", ">", "<", ">=", "<=", "contains"]
OPC = {"=": "OEq", "!=": "ONe", "in": "OIn", ">": "OGt", "<": "OLt", ">=": "OGe", "<=": "OLe", "contains": "OContains"}
UUID_RE = r"--[0-9a-f]{8}-[0-9a-f]{4}-[0-9a-f]{4}-[0-9a-f]{4}-[0-9a-f]{12}$"

HEADER = """From Coq Require Import ZArith List String.
From V Require Import Base.UString Model.Filters.
Import ListNotations. Open Scope string_scope.
"""

# --------------------------------------------------------------------------
# typed value trees: ("s",str) ("i",int) ("b",bool) ("f",k) ("t",us,text) ("n",) ("l",[..]) ("d",[(k,node)..])


def S(x): return ("s", x)
def I(x): return ("i", x)
def B(x): return ("b", x)
def Fl(k): return ("f", k)
def L(xs): return ("l", list(xs))
def D(kvs): return ("d", list(kvs))


def ts_text(us, style):
    sec, frac = divmod(us, 10 ** 6)
    base = (EPOCH + dt.timedelta(seconds=sec)).strftime("%Y-%m-%dT%H:%M:%S")
    if style == "s" and frac == 0:
        return base + "Z"
    if style == "ms" and frac % 1000 == 0:
        return base + ".%03dZ" % (frac // 1000)
    if style == "min":
        return base + ("Z" if frac == 0 else "." + ("%06d" % frac).rstrip("0") + "Z")
    return base + ".%06dZ" % frac


def T(us, style="min"): return ("t", us, ts_text(us, style))


def to_json(n):
    k = n[0]
    if k in "sib":
        return n[1]
    if k == "f":
        return {"$f": n[1]}
    if k == "t":
        return n[2]
    if k == "n":
        return None
    if k == "l":
        return [to_json(x) for x in n[1]]
    return {kk: to_json(v) for kk, v in n[1]}


def to_canon(n, reg):
    k = n[0]
    if k == "t":
        return {"$t": n[1]} if reg else n[2]
    if k in "sib":
        return n[1]
    if k == "f":
        return {"$f": n[1]}
    if k == "n":
        return None
    if k == "l":
        return [to_canon(x, reg) for x in n[1]]
    return {kk: to_canon(v, reg) for kk, v in n[1]}


def to_ref(n, ts_as_text=False):
    """Python value for the reference evaluation: timestamps are instants."""
    k = n[0]
    if k == "t":
        return n[2] if ts_as_text else EPOCH + dt.timedelta(microseconds=n[1])
    if k in "sib":
        return n[1]
    if k == "f":
        return n[1] / 1024.0
    if k == "n":
        return None
    if k == "l":
        return [to_ref(x, ts_as_text) for x in n[1]]
    return {kk: to_ref(v, ts_as_text) for kk, v in n[1]}


def cs(s):
    out = []
    for ch in s:
        c = ord(ch)
        out.append(ch if 32 <= c <= 126 and ch not in '\\"' else "\\%06X" % c)
    return '"' + "".join(out) + '"'


def to_coq(n, reg):
    k = n[0]
    if k == "s":
        return "(vs %s)" % cs(n[1])
    if k == "i":
        return "(VInt %s)" % common.coq_Z(n[1])
    if k == "b":
        return "(VBool %s)" % common.coq_bool(n[1])
    if k == "f":
        return "(VFloat %s)" % common.coq_Z(n[1])
    if k == "t":
        return "(VTime %s)" % common.coq_Z(n[1]) if reg else "(vs %s)" % cs(n[2])
    if k == "n":
        return "VNone"
    if k == "l":
        return "(VList [%s])" % "; ".join(to_coq(x, reg) for x in n[1])
    return "(vd [%s])" % "; ".join("(%s, %s)" % (cs(kk), to_coq(v, reg)) for kk, v in n[1])


def fval_coq(v, top=True):
    """A filter value in the JSON encoding of the worker -> pv term."""
    if v is None:
        return "VNone"
    if v is True or v is False:
        return "(VBool %s)" % common.coq_bool(v)
    if isinstance(v, int):
        return "(VInt %s)" % common.coq_Z(v)
    if isinstance(v, str):
        return "(vs %s)" % cs(v)
    if isinstance(v, list):
        return "(%s [%s])" % ("VTuple" if top else "VList", "; ".join(fval_coq(x, False) for x in v))
    if isinstance(v, dict):
        if len(v) == 1 and "$f" in v:
            return "(VFloat %s)" % common.coq_Z(v["$f"])
        if len(v) == 1 and "$t" in v:
            return "(VTime %s)" % common.coq_Z(v["$t"])
        if len(v) == 1 and "$tz" in v:          # an aware datetime in another zone: the same instant
            return "(VTime %s)" % common.coq_Z(v["$tz"][0])
        return "(vd [%s])" % "; ".join("(%s, %s)" % (cs(k), fval_coq(x, False)) for k, x in v.items())
    raise TypeError(type(v))


def fval_ref(v, top=True):
    if isinstance(v, list):
        return tuple(fval_ref(x, False) for x in v) if top else [fval_ref(x, False) for x in v]
    if isinstance(v, dict):
        if len(v) == 1 and "$f" in v:
            return v["$f"] / 1024.0
        if len(v) == 1 and "$t" in v:
            return EPOCH + dt.timedelta(microseconds=v["$t"])
        if len(v) == 1 and "$tz" in v:          # the reference is computed from the instant the caller wrote
            return EPOCH + dt.timedelta(microseconds=v["$tz"][0])
        return {k: fval_ref(x, False) for k, x in v.items()}
    return v


def filt_coq(f):
    return "F %s %s %s" % (cs(f["p"]), OPC[f["op"]], fval_coq(f["v"]))


def flist_coq(fl):
    return "[" + "; ".join(filt_coq(f) for f in fl) + "]"


# --------------------------------------------------------------------------
# population generator

def uuid4(rng, ver="4", variant="89ab"):
    """RFC 4122 text with the given version nibble and a variant nibble out of `variant`."""
    h = [rng.choice(HEX) for _ in range(32)]
    h[12] = ver
    h[16] = rng.choice(variant)
    s = "".join(h)
    return "%s-%s-%s-%s-%s" % (s[:8], s[8:12], s[12:16], s[16:20], s[20:])


LABELS = ["a", "ab", "abc", "threat", "threat-report", "x", "Report"]
NAMES = ["alpha", "alph", "beta", "alpha beta", "", "ALPHA", "gamma-1", "\u00e9t\u00e9", "z"]
# text shapes and lengths on both sides of plausible bounds (chosen now and then)
ODD_NAMES = ["a", "q" * 255, "q" * 256, "say \"hi\"", "back\\slash", "del\x7fete", "astral \U0001f600 \U00010000", "multi__under--hyphen",
             "\uffff", "tab\there"]
OFFSETS = [0, 1, 999, 1000, 1001, 250000, 500000, 999999, 1000000, 1500000, 60 * 10 ** 6, 3600 * 10 ** 6, 86400 * 10 ** 6]
STYLES = ["min", "s", "ms", "us"]
CUSTOM_TYPES = ["x-foo", "x-tool", "x-foo-bar"]


class Ctx:
    def __init__(self, rng):
        self.rng = rng
        self.base = 1577836800 * 10 ** 6 + rng.randrange(0, 400) * 86400 * 10 ** 6
        self.vers = {}
        self.identity_ids = ["identity--" + self.uid("identity") for _ in range(2)]
        self.marking_ids = ["marking-definition--" + self.uid("marking-definition") for _ in range(2)]
        self.sdo_ids = []

    def uid(self, typ, loose=False):
        """The UUID part of an id of this type.  All ids of one type in a population share the UUID version
        (mostly 4, sometimes 1, 3, 5, 6, 7, 8: a 2.1 id needs the RFC 4122 variant only); ids of dictionary-kept
        types sometimes carry another variant nibble."""
        ver = self.vers.setdefault(typ, self.rng.choice("4444444135678"))
        variant = HEX if (loose and self.rng.random() < 0.15) else "89ab"
        return uuid4(self.rng, ver, variant)

    def instant(self):
        return self.base + self.rng.choice(OFFSETS)

    def ts(self, us=None):
        return T(self.instant() if us is None else us, self.rng.choice(STYLES))


def hexstr(rng, n):
    return "".join(rng.choice(HEX) for _ in range(n))


def ext_ref(rng):
    kv = [("source_name", S(rng.choice(["mitre-attack", "capec", "mitre", "src"])))]
    if rng.random() < 0.7:
        kv.append(("external_id", S(rng.choice(["T1001", "T1002", "CAPEC-1", "T10"]))))
    else:
        kv.append(("url", S(rng.choice(["https://example.com/a", "https://example.com/b"]))))
    if rng.random() < 0.3:
        kv.append(("description", S(rng.choice(NAMES[:4] + ["desc"]))))
    if rng.random() < 0.25:
        kv.append(("hashes", D([("MD5", S(hexstr(rng, 32)))])))
    return D(kv)


def custom_props(rng, ctx, allow_null):
    kv = []
    if rng.random() < 0.5:
        kv.append(("x_num", rng.choice([I(0), I(1), I(-3), I(7), Fl(1024), Fl(512), Fl(7 * 1024 + 256), Fl(-1),
                                        Fl(0), Fl(7 * 1024), I(2 ** 53 + 1), Fl(2 ** 53 * 1024), I(10 ** 21), I(-(10 ** 21) - 1)])))
    if rng.random() < 0.06:
        # nesting depth on both sides of plausible bounds: x_deep.a.a....a = "leaf"
        node = S("leaf")
        for _ in range(rng.choice([1, 2, 9, 10, 11, 63, 64, 65])):
            node = D([("a", node)])
        kv.append(("x_deep", node))
    if rng.random() < 0.2:
        # a list as the LAST step of a path below a dictionary (strings and numbers)
        kv.append(("x_meta", D([("tags", L(S(x) for x in rng.sample(LABELS, rng.randrange(0, 4)))),
                                ("nums", L(I(x) for x in rng.sample([0, 1, 2, 50], rng.randrange(1, 3)))),
                                ("sub", D([("tags", L([S("a"), S("threat")]))]))])))
    if rng.random() < 0.35:
        kv.append(("x_obj", D([("a", D([("b", L([I(1), I(2)])), ("c", S("deep"))])), ("c", S(rng.choice(["str", "deep"])))])))
    if rng.random() < 0.35:
        kv.append(("x_list", L(rng.sample([I(1), S("a"), D([("k", S("v"))]), B(True), Fl(2048), S("abc")], rng.randrange(1, 4)))))
    if rng.random() < 0.3:
        kv.append(("x_ts", S(ts_text(ctx.instant(), rng.choice(STYLES)))))
    if rng.random() < 0.3:
        kv.append(("x_flag", B(rng.random() < 0.5)))
    if allow_null and rng.random() < 0.3:
        kv.append(("x_null", ("n",)))
    if allow_null and rng.random() < 0.2:
        kv.append(("x_empty", L([])))
    return kv


def sdo_common(rng, ctx, has_name=True):
    kv = []
    if rng.random() < 0.6:
        kv.append(("labels", L(S(x) for x in rng.sample(LABELS, rng.randrange(1, 4)))))
    if rng.random() < 0.5:
        kv.append(("confidence", I(rng.choice([0, 1, 50, 99, 100]))))
    if rng.random() < 0.5:
        kv.append(("revoked", B(rng.random() < 0.5)))
    if rng.random() < 0.3:
        kv.append(("lang", S("en")))
    if rng.random() < 0.4:
        kv.append(("created_by_ref", S(rng.choice(ctx.identity_ids))))
    if rng.random() < 0.5:
        kv.append(("external_references", L(ext_ref(rng) for _ in range(rng.randrange(1, 3)))))
    if rng.random() < 0.4:
        kv.append(("object_marking_refs", L(S(x) for x in rng.sample(ctx.marking_ids, rng.randrange(1, 3)))))
    if has_name and rng.random() < 0.25:
        kv.append(("granular_markings", L([D([("marking_ref", S(rng.choice(ctx.marking_ids))), ("selectors", L([S(rng.choice(["id", "type", "created"]))]))])])))
    return kv + custom_props(rng, ctx, False)


def versions(rng, ctx, typ, fixed, make_var, n_versions, ident=None):
    """n versions of one versioned SDO: same id/created, distinct modified instants."""
    ident = ident or typ + "--" + ctx.uid(typ)
    created = ctx.base
    mods = rng.sample(OFFSETS, n_versions)
    out = []
    for off in mods:
        kv = [("type", S(typ)), ("spec_version", S("2.1")), ("id", S(ident)),
              ("created", T(created, rng.choice(STYLES))), ("modified", T(ctx.base + off, rng.choice(STYLES)))]
        kv += fixed + make_var()
        if not any(k == "revoked" for k, _ in kv):
            kv.append(("revoked", B(False)))          # the 2.1 classes add this default on parse
        out.append({"tree": D(kv), "reg": True, "flags": []})
    return out


def gen_identity(rng, ctx, nv, ident=None):
    def var():
        kv = [("name", S(rng.choice(ODD_NAMES) if rng.random() < 0.12 else rng.choice(NAMES)))]
        if rng.random() < 0.6:
            kv.append(("identity_class", S(rng.choice(["individual", "organization", "group"]))))
        if rng.random() < 0.3:
            kv.append(("sectors", L(S(x) for x in rng.sample(["technology", "energy", "defence"], rng.randrange(1, 3)))))
        return kv + sdo_common(rng, ctx)
    return versions(rng, ctx, "identity", [], var, nv, ident)


def gen_indicator(rng, ctx, nv):
    def var():
        kv = [("name", S(rng.choice(NAMES))), ("pattern", S("alert any any")), ("pattern_type", S("snort")),
              ("valid_from", ctx.ts())]
        if rng.random() < 0.5:
            kv.append(("indicator_types", L(S(x) for x in rng.sample(["malicious-activity", "anomalous-activity", "benign"], rng.randrange(1, 3)))))
        if rng.random() < 0.4:
            kv.append(("kill_chain_phases", L(D([("kill_chain_name", S(rng.choice(["lockheed", "mitre-attack"]))),
                                                 ("phase_name", S(rng.choice(["recon", "delivery", "exploit"])))])
                                              for _ in range(rng.randrange(1, 3)))))
        return kv + sdo_common(rng, ctx)
    return versions(rng, ctx, "indicator", [], var, nv)


def gen_malware(rng, ctx, nv):
    def var():
        kv = [("name", S(rng.choice(NAMES))), ("is_family", B(rng.random() < 0.5))]
        if rng.random() < 0.5:
            kv.append(("first_seen", ctx.ts()))
        if rng.random() < 0.4:
            kv.append(("aliases", L(S(x) for x in rng.sample(NAMES[:4] + ["zeus"], rng.randrange(1, 3)))))
        return kv + sdo_common(rng, ctx)
    return versions(rng, ctx, "malware", [], var, nv)


def gen_tool(rng, ctx, nv):
    def var():
        return [("name", S(rng.choice(NAMES)))] + sdo_common(rng, ctx)
    return versions(rng, ctx, "tool", [], var, nv)


def gen_location(rng, ctx, nv):
    def var():
        kv = [("name", S(rng.choice(NAMES))), ("latitude", Fl(rng.choice([0, 1024, -512, 46 * 1024 + 256, 90 * 1024]))),
              ("longitude", Fl(rng.choice([0, 2048, -1024 * 100 - 1, 180 * 1024])))]
        return kv + sdo_common(rng, ctx)
    return versions(rng, ctx, "location", [], var, nv)


def gen_relationship(rng, ctx, nv):
    src = rng.choice(ctx.identity_ids)
    tgt = "malware--" + ctx.uid("malware")
    def var():
        kv = [("relationship_type", S(rng.choice(["uses", "targets", "related-to"]))), ("source_ref", S(src)), ("target_ref", S(tgt))]
        if rng.random() < 0.4:
            kv.append(("start_time", ctx.ts()))
        return kv + sdo_common(rng, ctx, has_name=False)
    return versions(rng, ctx, "relationship", [], var, nv)


def gen_file(rng, ctx):
    kv = [("type", S("file")), ("spec_version", S("2.1")), ("id", S("file--" + ctx.uid("file"))),
          ("name", S(rng.choice(["a.exe", "b.dll", "a.ex", "readme"]))), ("defanged", B(False))]
    if rng.random() < 0.7:
        kv.append(("size", I(rng.choice([0, 1, 1024, 4096, 4097]))))
    if rng.random() < 0.6:
        hs = [("MD5", S(hexstr(rng, 32)))]
        if rng.random() < 0.5:
            hs.append(("SHA-256", S(hexstr(rng, 64))))
        kv.append(("hashes", D(hs)))
    if rng.random() < 0.5:
        kv.append(("ctime", ctx.ts()))
    kv += custom_props(rng, ctx, False)
    return [{"tree": D(kv), "reg": True, "flags": []}]


def gen_ipv4(rng, ctx):
    kv = [("type", S("ipv4-addr")), ("spec_version", S("2.1")), ("id", S("ipv4-addr--" + ctx.uid("ipv4-addr"))),
          ("value", S(rng.choice(["10.0.0.1", "10.0.0.10", "192.168.1.1"]))), ("defanged", B(rng.random() < 0.2))]
    return [{"tree": D(kv), "reg": True, "flags": []}]


def gen_marking(rng, ctx, ident=None):
    kv = [("type", S("marking-definition")), ("spec_version", S("2.1")), ("id", S(ident or "marking-definition--" + ctx.uid("marking-definition"))),
          ("created", ctx.ts()), ("definition_type", S("statement")),
          ("definition", D([("statement", S(rng.choice(["Copyright 2020", "internal", "alpha"])))]))]
    if rng.random() < 0.4:
        kv.append(("name", S(rng.choice(NAMES[:4]))))
    return [{"tree": D(kv), "reg": True, "flags": []}]


def gen_custom(rng, ctx, nv, outside=False):
    """An unregistered custom type: the stores keep the dictionary as it is."""
    typ = rng.choice(CUSTOM_TYPES)
    flags = []
    ident = typ + "--" + ctx.uid(typ, loose=True)
    if outside:
        how = rng.choice(["prefix", "nonuuid", "upper"])
        if how == "prefix":
            ident = rng.choice(["identity", "x-other", typ + "x"]) + "--" + uuid4(rng)
            flags = ["badprefix"]
        elif how == "nonuuid":
            # not of the form <uuid>; made unique (two families sharing one id is C11's subject)
            ident = typ + "--" + rng.choice(["not-a-uuid-" + hexstr(rng, 6), hexstr(rng, 32), str(rng.randrange(1, 10 ** 9))])
            flags = ["nonuuid"]
        else:
            ident = typ + "--" + ctx.uid(typ, loose=True).upper()        # still matches the (case-insensitive) pattern
    versioned = rng.random() < 0.75
    mods = rng.sample(OFFSETS, nv if versioned else 1)
    out = []
    for off in mods:
        kv = [("type", S(typ)), ("id", S(ident))]
        if rng.random() < 0.5:
            kv.append(("spec_version", S("2.1")))
        if rng.random() < 0.8:
            kv.append(("created", ctx.ts(ctx.base)))
        if versioned:
            kv.append(("modified", T(ctx.base + off, rng.choice(STYLES))))
        if rng.random() < 0.8:
            kv.append(("name", S(rng.choice(NAMES))))
        if rng.random() < 0.4:
            kv.append(("labels", L(S(x) for x in rng.sample(LABELS, rng.randrange(1, 4)))))
        if rng.random() < 0.3:
            kv.append(("confidence", rng.choice([I(50), I(100), S("high"), Fl(50 * 1024)])))
        if rng.random() < 0.3:
            kv.append(("external_references", L(ext_ref(rng) for _ in range(rng.randrange(1, 3)))))
        if rng.random() < 0.3:
            kv.append(("first_seen", ctx.ts()))
        kv += custom_props(rng, ctx, True)
        out.append({"tree": D(kv), "reg": False, "flags": list(flags)})
    return out


def gen_population(rng, size, outside=False):
    ctx = Ctx(rng)
    objs = []
    # identities / markings that other objects refer to come first sometimes
    makers = [
        (3, lambda: gen_identity(rng, ctx, rng.choice([1, 1, 2, 3]))),
        (2, lambda: gen_indicator(rng, ctx, rng.choice([1, 2, 3, 4]))),
        (2, lambda: gen_malware(rng, ctx, rng.choice([1, 2, 3]))),
        (2, lambda: gen_tool(rng, ctx, rng.choice([1, 2]))),
        (1, lambda: gen_location(rng, ctx, rng.choice([1, 2]))),
        (1, lambda: gen_relationship(rng, ctx, rng.choice([1, 2]))),
        (2, lambda: gen_file(rng, ctx)),
        (1, lambda: gen_ipv4(rng, ctx)),
        (1, lambda: gen_marking(rng, ctx)),
        (4, lambda: gen_custom(rng, ctx, rng.choice([1, 2, 3]), outside=outside and rng.random() < 0.6)),
    ]
    weights = [w for w, _ in makers]
    if size and rng.random() < 0.5:
        objs += gen_identity(rng, ctx, 1, ctx.identity_ids[0])
    if size and rng.random() < 0.4:
        objs += gen_marking(rng, ctx, ctx.marking_ids[0])
    while len(objs) < size:
        objs += rng.choices(makers, weights)[0][1]()
    objs = objs[:size]
    rng.shuffle(objs)
    return objs


# --------------------------------------------------------------------------
# filter generator

def walk(node, path, out, in_list=False):
    """Collect (dotted path, leaf-or-container node, reached through a list) for every addressable path."""
    k = node[0]
    if k == "d":
        for kk, v in node[1]:
            p = path + [kk]
            out.append((".".join(p), v))
            if v[0] == "d":
                walk(v, p, out)
            elif v[0] == "l":
                for e in v[1]:
                    if e[0] == "d":
                        walk(e, p, out)


def kind_of(node):
    k = node[0]
    if k == "l":
        inner = sorted({e[0] for e in node[1]}) or ["empty"]
        return "list<" + "|".join(inner) + ">"
    return {"s": "str", "i": "int", "b": "bool", "f": "float", "t": "time", "n": "null", "d": "dict"}[k]


def node_fval(rng, node, ctx_base):
    """A filter value derived from a stored node (a hit)."""
    k = node[0]
    if k in "sib":
        return node[1]
    if k == "f":
        return {"$f": node[1]}
    if k == "t":
        r = rng.random()
        if r < 0.6:
            return ts_text(node[1], rng.choice(STYLES))
        if r < 0.8:
            return {"$t": node[1]} if rng.random() < 0.5 else {"$tz": [node[1], rng.choice([-480, -300, 60, 120, 330, 540])]}
        return node[2]
    if k == "n":
        return "null"
    if k == "l":
        return [node_fval(rng, e, ctx_base) for e in node[1]]
    return {kk: node_fval(rng, v, ctx_base) if v[0] != "t" else v[2] for kk, v in node[1]}


def perturb(rng, v):
    if isinstance(v, bool):
        return not v
    if isinstance(v, int):
        return v + rng.choice([-1, 1, 1024])
    if isinstance(v, str):
        m = re.match(r"^(\d{4}-\d\d-\d\dT\d\d:\d\d:\d\d)(\.\d+)?Z$", v)
        if m:
            # same second, other fraction / spelling
            return m.group(1) + rng.choice(["Z", ".0Z", ".000Z", ".5Z", ".000001Z", ".25Z", ".999999Z", ".001Z", ".250Z", ".1234567Z", ".0000001Z"])
        return rng.choice([v + "x", v[:-1], v.upper(), "a" + v, v[1:]]) if v else "x"
    if isinstance(v, dict):
        if "$f" in v and len(v) == 1:
            if abs(v["$f"]) >= 2 ** 50:          # m/1024 must stay an exact double: only exact moves up there
                return {"$f": v["$f"] * 2 if rng.random() < 0.5 else v["$f"] // 2}
            return {"$f": v["$f"] + rng.choice([-1, 1, 1024])}
        if "$t" in v and len(v) == 1:
            return {"$t": v["$t"] + rng.choice([-1, 1, 1000, -1000, 500000])}
        if "$tz" in v and len(v) == 1:
            return {"$tz": [v["$tz"][0] + rng.choice([-1, 1, 1000, -1000, 500000]), v["$tz"][1]]}
        return dict(list(v.items())[:-1]) if v else {"k": "v"}
    if isinstance(v, list):
        return v[:-1] if v and rng.random() < 0.5 else v + ["zz"]
    return v


WRONG = [0, 1, True, "alpha", "2020-01-01T00:00:00Z", {"$f": 512}, {"$t": 1577836800000000}, ["a", 1], {"k": "v"}, "", "not-a-timestamp",
         "2020-02-30T00:00:00Z", 5, "0999-12-31T23:59:59Z", "0001-01-01T00:00:00.000001Z", "9999-12-31T23:59:59.999999Z", 0, True, {"$f": 0}]


def type_ok_value(v):
    """Filter.__new__ evaluates '_' in value for property 'type'."""
    if isinstance(v, str):
        return "_" not in v
    if isinstance(v, list):
        return "_" not in v
    if isinstance(v, dict):
        return not (len(v) == 1 and ("$f" in v or "$t" in v or "$tz" in v)) and "_" not in v
    return False


def gen_tyid_filter(rng, pop, strict):
    types = sorted({o["type"] for o in pop}) or ["identity"]
    ids = sorted({o["id"] for o in pop}) or ["identity--" + uuid4(rng)]
    prop = rng.choice(["type", "type", "id", "id", "id"])
    pool_t = types + ["campaign", "tool", "x-foo", "identity", "x-tool", "too"]
    other_id = rng.choice(pool_t) + "--" + uuid4(rng)
    pool_i = ids + ids + [other_id, rng.choice(types) + "--" + rng.choice(ids).split("--", 1)[-1], "no-dashes", rng.choice(ids).upper()]
    pool = pool_t if prop == "type" else pool_i
    r = rng.random()
    if r < 0.40:
        op, v = "=", rng.choice(pool)
    elif r < 0.62:
        op, v = "!=", rng.choice(pool)
    elif r < 0.90:
        op, v = "in", [rng.choice(pool) for _ in range(rng.choice([0, 1, 1, 2, 2, 3, 5]))]
        if rng.random() < 0.04:
            # sizes on both sides of plausible bounds; mostly values nothing has, a few that exist
            n = rng.choice([9, 10, 11, 63, 64, 65, 100, 101, 255, 256])
            v = [(rng.choice(pool) if rng.random() < 0.05 else ("campaign--" if prop == "id" else "x-none-") + hexstr(rng, 6))
                 for _ in range(n)]
    else:
        op, v = rng.choice(["<", ">", "<=", ">=", "contains"]), rng.choice(pool)
        if op == "contains" and rng.random() < 0.5:
            v = v[: max(1, len(v) // 2)]
    if not strict:
        r = rng.random()
        if r < 0.35 and op == "in":
            v = rng.choice(pool)                              # `in` with a plain string: substring semantics
            if rng.random() < 0.5:
                v = v + rng.choice(["box", ",identity", "x"])
        elif r < 0.55 and op == "in":
            v = v + [rng.choice([5, True, {"$f": 512}])]       # a non-string member
        elif r < 0.70 and op in ("=", "!="):
            v = [rng.choice(pool)]                            # a list with = / !=
        elif r < 0.80 and op == "in":
            v = {rng.choice(pool): 1}                         # a dict: key membership
        elif r < 0.90 and prop == "id":
            op, v = rng.choice(["=", "in", "!="]), rng.choice([5, [5], {"$t": 0}])
    if prop == "type" and not type_ok_value(v):
        v = "campaign"
    return {"p": prop, "op": op, "v": v}


def gen_prop_filter(rng, paths, hist):
    """A filter on an arbitrary property path of the population."""
    if not paths or rng.random() < 0.06:
        p = rng.choice(["nonexistent", "name.foo", "labels.x", "x_obj.a.zz", "external_references.nope", "a..b", ""])
        return {"p": p, "op": rng.choice(OPS), "v": rng.choice(WRONG)}
    path, node = rng.choice(paths)
    op = rng.choice(OPS)
    elem = node
    if node[0] == "l" and node[1] and rng.random() < 0.8:
        elem = rng.choice(node[1])
    hit = node_fval(rng, elem, 0)
    r = rng.random()
    if op == "in":
        if r < 0.6:
            v = [hit if rng.random() < 0.6 else perturb(rng, hit) for _ in range(rng.choice([0, 1, 2, 3]))]
            how = "list"
        elif r < 0.8 and isinstance(hit, str):
            v, how = hit + rng.choice(["", "-suffix", "x"]), "superstring"
        elif r < 0.9:
            v, how = {str(hit): 1} if isinstance(hit, str) else {"k": 1}, "dict"
        else:
            v, how = rng.choice(WRONG), "wrongkind"
    elif op == "contains":
        if r < 0.5 and isinstance(hit, str):
            v, how = hit[rng.randrange(0, max(1, len(hit))):][: rng.randrange(1, 6)] or "a", "substring"
        elif r < 0.75:
            v, how = hit, "hit"
        else:
            v, how = rng.choice(WRONG), "wrongkind"
    else:
        if r < 0.45:
            v, how = hit, "hit"
        elif r < 0.8:
            v, how = perturb(rng, hit), "near"
        else:
            v, how = rng.choice(WRONG), "wrongkind"
    if v is None or v == []:
        if op not in ("in",):
            v, how = "x", "wrongkind"
    if path == "type" and not type_ok_value(v):
        v = "campaign"
    hist[(op, kind_of(node), how)] = hist.get((op, kind_of(node), how), 0) + 1
    return {"p": path, "op": op, "v": v}


def gen_filter_list(rng, pop, paths, hist, strict):
    n_tyid = rng.choice([0, 0, 1, 1, 2, 3, 4])
    n_other = rng.choice([0, 1, 1, 2, 3])
    fl = [gen_tyid_filter(rng, pop, strict) for _ in range(n_tyid)]
    ts_paths = [(p, n) for p, n in paths if n[0] == "t"]
    for _ in range(n_other):
        if ts_paths and rng.random() < 0.3:
            fl.append(gen_prop_filter(rng, ts_paths, hist))
        else:
            fl.append(gen_prop_filter(rng, paths, hist))
    if fl and rng.random() < 0.15:
        fl.append(dict(rng.choice(fl)))           # an exact repeat (FilterSet drops it)
    scalars = [(pth, n) for pth, n in paths if n[0] in "ib" and pth != "type"]
    if scalars and rng.random() < 0.12:
        # two filters that differ only in the TYPE of the value (confidence = 50 and confidence = "50"): no object
        # satisfies both `=`; FilterSet must keep both
        pth, n = rng.choice(scalars)
        op = rng.choice(["=", "=", "=", "!=", "in"])
        a, b = n[1], str(n[1])
        if op == "in":
            a, b = [a], [b]
        pair = [{"p": pth, "op": op, "v": a}, {"p": pth, "op": op, "v": b}]
        rng.shuffle(pair)
        fl += pair
    if fl and rng.random() < 0.2:
        # a twin that differs only in the TYPE of the value (50 / "50", True / "True"): a different filter
        f = rng.choice(fl)
        v = f["v"]
        tw = None
        if isinstance(v, bool) or (isinstance(v, int) and not isinstance(v, bool)):
            tw = str(v)
        elif isinstance(v, str) and re.match(r"^-?\d{1,6}$", v):
            tw = int(v)
        elif isinstance(v, str) and v in ("True", "False"):
            tw = (v == "True")
        if tw is not None and not (f["p"] == "type"):
            fl.append({"p": f["p"], "op": f["op"], "v": tw})
    rng.shuffle(fl)
    return fl


SPEC_KEYS = ("q", "att", "att2", "comp", "wrap", "bare", "none", "fset", "kw")


def split_routes(rng, fl):
    q, att, comp = [], [], []
    mode = rng.choice(["q", "att", "comp", "mix", "mix"])
    for f in fl:
        where = mode if mode != "mix" else rng.choice(["q", "att", "comp"])
        {"q": q, "att": att, "comp": comp}[where].append(f)
    spec = {"q": q, "att": att, "comp": comp, "wrap": bool(comp) or rng.random() < 0.25}
    if len(q) == 1 and rng.random() < 0.3:
        spec["bare"] = True
    if not q and rng.random() < 0.3:
        spec["none"] = True
    return spec


def summarize(pop):
    for o in pop:
        d = dict(o["tree"][1])
        o["type"], o["id"] = d["type"][1], d["id"][1]
        m = d.get("modified")
        o["key"] = "s" + esc(o["id"]) + "|" + ("-" if m is None else ("t%d" % m[1] if o["reg"] else "s" + esc(m[2])))
    return pop


def esc(s):
    return cs(s)[1:-1]


def gen_case(rng, size, n_queries, outside):
    pop = summarize(gen_population(rng, size, outside))
    paths = []
    for o in pop:
        walk(o["tree"], [], paths)
    hist = {}
    strict = not outside
    queries = [{"q": [], "att": [], "comp": [], "wrap": False, "fam": None}]
    fam = 0
    while len(queries) < n_queries:
        a = gen_filter_list(rng, pop, paths, hist, strict if rng.random() < 0.9 else False)
        if rng.random() < 0.5:
            b = gen_filter_list(rng, pop, paths, hist, strict)
            for part, fl in (("a", a), ("b", b), ("ab", a + b)):
                s = split_routes(rng, fl)
                s["fam"] = [fam, part]
                queries.append(s)
            fam += 1
        else:
            s = split_routes(rng, a)
            s["fam"] = None
            if rng.random() < 0.3:
                # the second member of the two-member composite carries other attached filters than the first
                s["att2"] = [gen_prop_filter(rng, paths, hist) for _ in range(rng.choice([0, 1, 1, 2]))]
            queries.append(s)
    for s in queries:
        if rng.random() < 0.3:
            s["kw"] = True                  # source.query(query=...) instead of source.query(...)
        # the query argument as a FilterSet object (the same object is handed to every route in turn)
        if not s.get("bare") and not s.get("none") and rng.random() < 0.35:
            s["fset"] = True
    ids = sorted({o["id"] for o in pop})
    gets = []
    by_id = {}
    for o in pop:
        by_id.setdefault(o["id"], []).append(o)
    for _ in range(min(6, 2 * len(ids))):
        gid = rng.choice(ids)
        own = []
        for o in by_id[gid]:
            walk(o["tree"], [], own)
        def one():
            # mostly a filter on a property of this very object family (hit / near miss), sometimes any filter
            return gen_prop_filter(rng, own if own and rng.random() < 0.7 else paths, {})
        gets.append({"id": gid, "att": [one() for _ in range(rng.choice([0, 1, 1, 2]))],
                     "comp": [one() for _ in range(rng.choice([0, 1, 1, 2]))]})
    case = {"pop": pop, "split": rng.randrange(0, len(pop) + 1), "queries": queries, "gets": gets, "hist": hist,
            "outside": outside, "grow": gen_grow(rng, pop, paths)}
    if pop and rng.random() < 0.35:
        # part of the directory the filesystem source reads is made of symbolic links (type directories, id
        # directories, <id>.json files)
        versioned = sorted({(o["type"], o["id"]) for o in pop if "modified" in dict(o["tree"][1])})
        flat = sorted({(o["type"], o["id"]) for o in pop if "modified" not in dict(o["tree"][1])})
        types = sorted({o["type"] for o in pop})
        case["symlinks"] = {"types": rng.sample(types, min(len(types), rng.choice([0, 1, 2]))),
                            "ids": [list(x) for x in rng.sample(versioned, min(len(versioned), rng.choice([0, 1, 2])))],
                            "files": [list(x) for x in rng.sample(flat, min(len(flat), rng.choice([0, 1, 2])))]}
    return case


def gen_grow(rng, pop, paths):
    """A history for one FileSystemStore / MemoryStore: the population is added in two to four steps and the same
    queries are asked after every step.  Half of the histories add the objects without `modified` first, so that a
    type directory is met in the flat layout before it gets its first id directory."""
    if not pop:
        return None
    order = list(range(len(pop)))
    rng.shuffle(order)
    if rng.random() < 0.5:
        order.sort(key=lambda i: "modified" in dict(pop[i]["tree"][1]))
    n = len(order)
    cuts = sorted({rng.randrange(0, n + 1) for _ in range(rng.choice([1, 2, 3]))} | {n})
    if rng.random() < 0.5:
        cuts = [0] + cuts                       # the empty store is asked first
    types = sorted({o["type"] for o in pop})
    queries = [{"q": []}]
    for _ in range(3):
        r = rng.random()
        if r < 0.45:
            q = [{"p": "type", "op": rng.choice(["=", "=", "in", "!="]), "v": rng.choice(types)}]
            if q[0]["op"] == "in":
                q[0]["v"] = [q[0]["v"], rng.choice(types)]
        elif r < 0.7:
            q = [{"p": "id", "op": "=", "v": rng.choice(pop)["id"]}]
        else:
            q = [gen_prop_filter(rng, paths, {})]
        spec = {"q": q}
        if rng.random() < 0.4:
            spec["fset"] = True
        queries.append(spec)
    return {"order": order, "steps": cuts, "queries": queries}


def case_json(case):
    return {"pop": [to_json(o["tree"]) for o in case["pop"]], "split": case["split"],
            "queries": [{k: s[k] for k in SPEC_KEYS if k in s} for s in case["queries"]],
            "gets": case["gets"], "grow": case.get("grow"), "symlinks": case.get("symlinks")}


# --------------------------------------------------------------------------
# model side

def listing_coq(listing, pop):
    """The os.listdir order the worker observed, in the model's names (a version file is "v<microseconds>.json")."""
    dirs = []
    for tdir, ents in listing:
        es = []
        for name, files in ents:
            fs_ = []
            for fname, idx in (files or []):
                if idx is None:
                    fs_.append(cs("?" + fname))
                else:
                    m = dict(pop[idx]["tree"][1])["modified"]
                    fs_.append(cs("v%d.json" % m[1]))
            es.append("(%s, [%s])" % (cs(name), "; ".join(fs_)))
        dirs.append("(%s, [%s])" % (cs(tdir), "; ".join(es)))
    return "(lspec [%s])" % ";\n  ".join(dirs)


def case_terms(case, idx, mode, om, listing=None, grow_impl=None):
    k = case["split"]
    objs = [to_coq(o["tree"], o["reg"]) for o in case["pop"]]
    t_all = "fs_build [] p%d" % idx
    t_part = "fs_build [] (skipn %d p%d)" % (k, idx)
    if listing is not None:
        t_all = "reorder_fs (%s) %s" % (t_all, listing_coq(listing["all"], case["pop"]))
        t_part = "reorder_fs (%s) %s" % (t_part, listing_coq(listing["part"], case["pop"]))
    defs = ("Definition p%d : list pv := [%s].\n" % (idx, ";\n ".join(objs)) +
            "Definition m%d := Eval vm_compute in mem_of p%d.\n" % (idx, idx) +
            "Definition t%d := Eval vm_compute in %s.\n" % (idx, t_all) +
            "Definition ma%d := Eval vm_compute in mem_of (firstn %d p%d).\n" % (idx, k, idx) +
            "Definition tb%d := Eval vm_compute in %s.\n" % (idx, t_part))
    terms = []
    for s in case["queries"]:
        terms.append("show3 %s %s p%d m%d t%d ma%d tb%d %s %s %s %s %s" % (
            mode, om, idx, idx, idx, idx, idx, common.coq_bool(bool(s["wrap"] or s["comp"])),
            flist_coq(s["q"]), flist_coq(s["att"]), flist_coq(s.get("att2", s["att"])), flist_coq(s["comp"])))
    for g in case.get("gets", []):          # all_versions(id) with attached filters, after the queries
        terms.append("show_av %s %s p%d m%d t%d ma%d tb%d (vs %s) %s %s" % (
            mode, om, idx, idx, idx, idx, idx, cs(g["id"]), flist_coq(g["att"]), flist_coq(g.get("comp", []))))
    g = case.get("grow")
    if g and grow_impl:                     # the growing stores, after the gets: per step, per query
        defs += "Definition pg%d : list pv := map (fun i => nth i p%d VNone) [%s].\n" % (
            idx, idx, "; ".join("%d%%nat" % i for i in g["order"]))
        for si, (n, step) in enumerate(zip(g["steps"], grow_impl)):
            defs += ("Definition mg%d_%d := Eval vm_compute in mem_of (firstn %d pg%d).\n" % (idx, si, n, idx) +
                     "Definition tg%d_%d := Eval vm_compute in reorder_fs (fs_build [] (firstn %d pg%d)) %s.\n" % (
                         idx, si, n, idx, listing_coq(step["listing"], case["pop"])))
            for spec in g["queries"]:
                terms.append("show_grow %s %s p%d mg%d_%d tg%d_%d %s" % (mode, om, idx, idx, si, idx, si, flist_coq(spec["q"])))
    return defs, terms


def ix_to_keys(line, keys):
    """`OK 3,17,` (indices into the population) -> `OK key;key;` as the worker prints it."""
    if not line.startswith("OK"):
        return line
    return "OK " + "".join((keys[int(x)] if x != "?" else "?") + ";" for x in line[3:].split(",") if x)


def run_model(cases, mode, om, tag="c12", listings=None, grows=None):
    """Evaluate every query of every case in the model; returns per case a list of (mem, fs, c2) lines."""
    groups, cur, size = [], [], 0
    for i, c in enumerate(cases):
        defs, terms = case_terms(c, i, mode, om, listings[i] if listings else None, grows[i] if grows else None)
        # bound the size of the printed result (coqc overflows its stack beyond ~20 000 characters)
        sz = len(terms) * (3 * 3 * len(c["pop"]) + 40)
        if cur and size + sz > 16000:
            groups.append(cur)
            cur, size = [], 0
        cur.append((i, defs, terms))
        size += sz
    if cur:
        groups.append(cur)

    def run(gi_group):
        gi, group = gi_group
        # every query is evaluated in its own Definition (one huge Eval term overflows coqc's stack)
        header = HEADER + "".join(d for _, d, _ in group)
        terms = []
        for i, _, ts in group:
            for j, t in enumerate(ts):
                header += "Definition r%d_%d := Eval vm_compute in (%s).\n" % (i, j, t)
                terms.append("r%d_%d" % (i, j))
        lines = common.coq_eval_lines("%s_%d" % (tag, gi), header, terms, shard=10 ** 9)
        out, pos = {}, 0
        for i, _, ts in group:
            keys = [o["key"] for o in cases[i]["pop"]]
            out[i] = [tuple(ix_to_keys(x, keys) for x in l.split(" ## ")) for l in lines[pos:pos + len(ts)]]
            pos += len(ts)
        return out

    res = {}
    with ThreadPoolExecutor(max_workers=max(1, common.NCPU // 2)) as ex:
        for part in ex.map(run, list(enumerate(groups))):
            res.update(part)
    return [res[i] for i in range(len(cases))]


# --------------------------------------------------------------------------
# reference evaluation (the documented semantics; timestamps are instants)

class Undefined(Exception):
    """The documented semantics does not give this (value, operator, value) a meaning."""


TS_RE = re.compile(r"^(\d{4})-(\d\d)-(\d\d)T(\d\d):(\d\d):(\d\d)(?:\.(\d{1,6}))?Z$")


def ref_parse_ts(s):
    m = TS_RE.match(s)
    if not m:
        return None
    y, mo, d, h, mi, se = (int(x) for x in m.groups()[:6])
    frac = int((m.group(7) or "0").ljust(6, "0"))
    try:
        return dt.datetime(y, mo, d, h, mi, se, frac, tzinfo=dt.timezone.utc)
    except ValueError:
        return None


def ref_op(op, x, v):
    if isinstance(x, dt.datetime):
        if op in ("in", "contains"):
            raise Undefined()
        if isinstance(v, str):
            v = ref_parse_ts(v)
            if v is None:
                raise Undefined()
    try:
        if op == "=":
            return x == v
        if op == "!=":
            return x != v
        if op == "in":
            return x in v
        if op == "contains":
            return (v in x.values()) if isinstance(v, dict) else (v in x)
        if op == ">":
            return x > v
        if op == "<":
            return x < v
        if op == ">=":
            return x >= v
        if op == "<=":
            return x <= v
    except (TypeError, AttributeError):
        raise Undefined()
    raise Undefined()


def ref_path(segs, o, op, v):
    if not isinstance(o, dict):
        raise Undefined()
    if segs[0] not in o:
        return False
    x = o[segs[0]]
    elems = x if isinstance(x, list) else [x]
    if len(segs) > 1:
        rs = [ref_path(segs[1:], e, op, v) for e in elems]
    else:
        rs = [ref_op(op, e, v) for e in elems]
    return any(rs)


def ref_holds(f, o):
    return ref_path(f["p"].split("."), o, f["op"], fval_ref(f["v"]))


def ref_query(pop_vals, fl):
    """Set semantics, strict: Undefined if any (object, filter) pair is undefined."""
    out = []
    for key, o in pop_vals:
        ok = True
        for f in fl:
            if not ref_holds(f, o):
                ok = False
        if ok:
            out.append(key)
    return sorted(out)


def parse_line(line):
    """`OK k;k;` -> ('OK', sorted keys, raw keys) ; `EXC X` -> ('EXC', X)."""
    if line.startswith("OK"):
        keys = [k for k in line[3:].split(";") if k]
        return ("OK", sorted(keys), keys)
    return (line.split(" ")[0], line[4:] if line.startswith("EXC ") else line, None)


def tyid_ok(fl):
    """Do the type/id filters satisfy the hypothesis of opt_sound_complete
    (strings for = and !=, lists of strings for in)?  Returns the reasons why not."""
    why = set()
    for f in fl:
        if f["p"] in ("type", "id") and f["op"] in ("=", "!=", "in"):
            v = f["v"]
            if f["op"] == "in":
                if isinstance(v, str):
                    why.add("in-string")
                elif not (isinstance(v, list) and all(isinstance(x, str) for x in v)):
                    why.add("nonstring")
            elif not isinstance(v, str):
                why.add("nonstring")
    return why


def dir_visible(pop):
    """Keys of the objects a filesystem scan can see: versioned objects are
    visible only if their type directory holds an id directory named
    <type>--<uuid> (any case)."""
    by_type = {}
    for o in pop:
        by_type.setdefault(o["type"], []).append(o)
    vis = set()
    for t, objs in by_type.items():
        pat = re.compile("^" + re.escape(t) + UUID_RE, re.I)
        versioned = any("modified" in dict(o["tree"][1]) and pat.match(o["id"]) for o in objs)
        for o in objs:
            if "modified" not in dict(o["tree"][1]) or versioned:
                vis.add(o["key"])
    return vis


FINDINGS = {
    "ts": "C12-dict-timestamp-text",
    "in-string": "C12-fs-in-string-on-type-or-id",
    "nonstring": "C12-fs-nonstring-type-or-id-value",
}


def has_ts_value(fl):
    """Does some filter carry a timestamp (a string in timestamp spelling, or a datetime)?"""
    for f in fl:
        v = f["v"]
        if isinstance(v, str) and TS_RE.match(v):
            return True
        if isinstance(v, dict) and len(v) == 1 and ("$t" in v or "$tz" in v):
            return True
    return False


def ts_text_shaped(kind, keys, expect, fl, pop, only_id=None):
    """The shape of finding C12-dict-timestamp-text: a timestamp filter is present and the answer differs from the
    reference only in objects kept as dictionaries (unregistered types), or comparing a datetime with their text raised.
    (Used together with: the model in variant TextOnDicts gives the very same answer.)"""
    if not has_ts_value(fl):
        return False
    dict_keys = {o["key"] for o in pop if not o["reg"] and (only_id is None or o["id"] == only_id)}
    if not dict_keys:
        return False
    if kind == "OK":
        return bool(set(keys) ^ set(expect)) and (set(keys) ^ set(expect)) <= dict_keys
    return kind == "EXC"


def replay_expect(expect, mline, flagged):
    """What a replay should demand.  Objects whose id is not <own type>--<uuid> lie outside the layout hypothesis:
    the unchanged code does not return them either (the model says which), so a replay must not demand them --
    otherwise it would `reproduce` on the unchanged tree."""
    if mline is None or not flagged:
        return expect
    pm = parse_line(mline)
    if pm[0] == "OK" and set(pm[1]) <= set(expect) and set(expect) - set(pm[1]) <= set(flagged):
        return sorted(set(pm[1]))
    return expect


def bad_keys(g, vals):
    """Keys of the stored objects for which some attached filter of the get spec does not hold (reference evaluation)."""
    out = []
    for key, o in vals:
        try:
            if not all(ref_holds(f, o) for f in g["att"]):
                out.append(key)
        except Undefined:
            pass
    return out


def judge_c2_att2(case, spec, spec_out, got, parsed, vals, vals_text, flagged_fs2, viol, stats, mq, mode):
    """The two-member composite whose members carry different attached filters: the answer is the union of what each
    member may answer with ITS OWN attached filters (plus the query and the composite's filters)."""
    pop, k = case["pop"], case["split"]
    fl1 = spec["q"] + spec["att"] + spec["comp"]
    fl2 = spec["q"] + spec["att2"] + spec["comp"]
    try:
        expect = sorted(set(ref_query(vals[:k], fl1)) | set(ref_query(vals[k:], fl2)))
    except Undefined:
        return
    kind, keys, _ = parsed
    stats["judged_c2_att2"] = stats.get("judged_c2_att2", 0) + 1
    if kind == "OK" and sorted(set(keys)) == expect and len(set(keys)) == len(keys):
        return
    finding, outside = None, False
    agrees = mq is not None and same_line("c2", got["c2"], mq[2], mq[0])
    if agrees and mode == "TextOnDicts" and ts_text_shaped(kind, keys or [], expect, fl1 + spec["att2"], pop) and \
            (kind == "OK" or got["c2"] == "EXC TypeError"):
        finding = FINDINGS["ts"]
    elif agrees and kind == "OK" and flagged_fs2 and set(keys) <= set(expect) and set(expect) - set(keys) <= flagged_fs2:
        outside = True
    if outside:
        stats["outside_layout_hypothesis"] += 1
        return
    viol.append(Violation(
        "c2 route: query %s (memory member attached %s, filesystem member attached %s, composite %s) returns %s; "
        "the union of what each member may answer under its own filters is %s" % (
            json.dumps(spec["q"]), json.dumps(spec["att"]), json.dumps(spec["att2"]), json.dumps(spec["comp"]),
            got["c2"][:300], expect),
        {"kind": "query", "symlinks": case.get("symlinks"), "pop": [to_json(o["tree"]) for o in pop], "split": k, "spec": spec_out, "route": "c2",
         "expect": expect}, finding=finding))


def oracle_case(case, impl, viol, stats, om, model_q=None, mode="TextOnDicts"):
    pop = case["pop"]
    vals = [(o["key"], to_ref(o["tree"])) for o in pop]
    vals_text = [(o["key"], to_ref(o["tree"], ts_as_text=not o["reg"])) for o in pop]
    flagged = {o["key"] for o in pop if o["flags"]}
    k = case["split"]
    flagged_fs2 = {o["key"] for o in pop[k:] if o["flags"]}
    results = {}
    for qi, (spec, got) in enumerate(zip(case["queries"], impl["queries"])):
        fl = spec["q"] + spec["att"] + spec["comp"]
        try:
            expect = ref_query(vals, fl)
        except Undefined:
            expect = None
        try:
            expect_text = ref_query(vals_text, fl)
        except Undefined:
            expect_text = None
        except Exception:      # noqa: BLE001 -- text semantics may raise anything the code would
            expect_text = None
        parsed = {r: parse_line(got[r]) for r in ("mo", "md", "fs", "c2")}
        results[qi] = parsed
        spec_out = {kk: spec[kk] for kk in SPEC_KEYS if kk in spec}
        if got.get("qarg_changed"):
            viol.append(Violation(
                "query %s given as %s: after the four sources answered, the caller's query object holds other filters than "
                "before (a source added its own filters to it, so they leak into the next source's answers)" % (
                    json.dumps(spec["q"]), "a FilterSet" if spec.get("fset") else "a list"),
                {"kind": "qarg", "symlinks": case.get("symlinks"), "pop": [to_json(o["tree"]) for o in pop], "split": k, "spec": spec_out}))
        if "att2" in spec:
            judge_c2_att2(case, spec, spec_out, got, parsed["c2"], vals, vals_text, flagged_fs2, viol, stats,
                          model_q[qi] if model_q is not None else None, mode)
        if expect is None:
            stats["undefined"] += 1
            continue
        stats["judged"] += 1
        why_ty = tyid_ok(fl)
        for route in ("mo", "md", "fs", "c2"):
            if route == "c2" and "att2" in spec:
                continue
            kind, keys, _ = parsed[route]
            if kind == "OK" and keys == expect:
                continue
            finding, outside_layout = None, False
            what = "%s route: query %s returns %s, the reference evaluation over the stored objects gives %s" % (
                route, json.dumps(fl), got[route][:300], expect)
            if expect_text is not None and expect_text != expect and kind == "OK" and keys == expect_text:
                finding = FINDINGS["ts"]
            elif expect_text is None and kind == "EXC" and any(not o["reg"] for o in pop) and \
                    any(isinstance(f["v"], dict) and ("$t" in f["v"] or "$tz" in f["v"]) for f in fl):
                finding = FINDINGS["ts"]      # datetime filter value against timestamp text: TypeError
            elif route in ("fs", "c2"):
                fl_keys = flagged if route == "fs" else flagged_fs2
                base = expect
                # the memory route evaluates the same filters without shortcuts (it may itself carry the text deviation)
                mem_fine = parsed["mo"][0] == "OK" and parsed["mo"][1] in (expect, expect_text)
                mem_keys = set(parsed["mo"][1]) if mem_fine else set()
                if om == "OptAnyValue" and "nonstring" in why_ty and mem_fine and got[route] in ("EXC AttributeError", "EXC TypeError"):
                    finding = FINDINGS["nonstring"]
                elif om == "OptAnyValue" and "in-string" in why_ty and kind == "OK" and mem_fine and set(keys) <= mem_keys:
                    finding = FINDINGS["in-string"]
                elif kind == "OK" and fl_keys and set(keys) <= set(base) and set(base) - set(keys) <= fl_keys:
                    outside_layout = True      # only objects whose id is not <own type>--<uuid> are missing
                elif kind == "OK" and fl_keys and expect_text is not None and set(keys) <= set(expect_text) and \
                        set(expect_text) - set(keys) <= fl_keys:
                    outside_layout = True
                    if expect_text != expect:
                        finding = FINDINGS["ts"]
            if finding is None and not outside_layout and model_q is not None and mode == "TextOnDicts" and \
                    ts_text_shaped(kind, keys, expect, fl, pop) and (kind == "OK" or got[route] == "EXC TypeError"):
                finding = FINDINGS["ts"]      # e.g. a later filter is never reached because the text comparison already failed
            # a deviation is put down to a known defect (or to the layout hypothesis) only if the model of the
            # code as it was matched -- which contains exactly those defects -- gives the very same answer
            if (finding or outside_layout) and model_q is not None:
                mline = {"mo": model_q[qi][0], "md": model_q[qi][0], "fs": model_q[qi][1], "c2": model_q[qi][2]}[route]
                if not same_line(route, got[route], mline, model_q[qi][0]):
                    finding, outside_layout = None, False
                    what += " (the model of the matched code variant gives %s)" % mline[:200]
            if outside_layout:
                stats["outside_layout_hypothesis"] += 1
                if finding is None:
                    continue
            viol.append(Violation(what, {"kind": "query", "symlinks": case.get("symlinks"), "pop": [to_json(o["tree"]) for o in pop], "split": k,
                                         "spec": {kk: spec[kk] for kk in SPEC_KEYS if kk in spec},
                                         "route": route,
                                         "expect": replay_expect(expect, None if model_q is None else
                                                                 {"mo": model_q[qi][0], "md": model_q[qi][0], "fs": model_q[qi][1],
                                                                  "c2": model_q[qi][2]}[route],
                                                                 flagged if route == "fs" else flagged_fs2 if route == "c2" else None)},
                                  finding=finding))
    # monotonicity and conjunction = intersection, on the implementation's own answers
    fams = {}
    for qi, spec in enumerate(case["queries"]):
        if spec.get("fam"):
            fams.setdefault(spec["fam"][0], {})[spec["fam"][1]] = qi
    for fam, parts in fams.items():
        if len(parts) != 3:
            continue
        for route in ("mo", "fs", "c2"):
            a, b, ab = (results[parts[x]][route] for x in ("a", "b", "ab"))
            if a[0] != "OK" or b[0] != "OK" or ab[0] != "OK":
                continue
            stats["laws"] += 1
            if case["outside"]:
                continue
            sa, sb, sab = set(a[1]), set(b[1]), set(ab[1])
            if not (sab <= sa and sab <= sb) or sab != (sa & sb) or len(ab[1]) != len(sab):
                spa, spb = case["queries"][parts["a"]], case["queries"][parts["b"]]
                viol.append(Violation(
                    "%s route: result of the conjunction is not the intersection of the results of its parts" % route,
                    {"kind": "law", "pop": [to_json(o["tree"]) for o in pop], "split": k, "route": route,
                     "a": spa["q"] + spa["att"] + spa["comp"], "b": spb["q"] + spb["att"] + spb["comp"]}))
    for qi, (spec, first, again) in enumerate(zip(case["queries"], impl["queries"], impl.get("queries_again", []))):
        for route in ("mo", "fs"):
            stats["asked_twice"] = stats.get("asked_twice", 0) + 1
            if first[route] != again[route]:
                viol.append(Violation(
                    "%s route: the same query %s asked a second time (after the other queries, the lookups and the growing "
                    "stores) is answered %s, the first time %s" % (route, json.dumps(spec["q"] + spec["att"] + spec["comp"]),
                                                                 again[route][:200], first[route][:200]),
                    {"kind": "twice", "symlinks": case.get("symlinks"), "pop": [to_json(o["tree"]) for o in pop], "split": k,
                     "queries": [{kk: s2[kk] for kk in SPEC_KEYS if kk in s2} for s2 in case["queries"]], "gets": case["gets"],
                     "grow": case.get("grow"), "query": qi, "route": route}))
    oracle_gets(case, impl, viol, stats, model_q[len(case["queries"]):] if model_q is not None else None,
                vals, vals_text, flagged, flagged_fs2, om, mode)


def ref_versions(vals, gid, fl):
    """Keys of the stored objects with this id on which every filter holds (None: not defined)."""
    out = []
    for key, o in vals:
        if o.get("id") != gid:
            continue
        ok = True
        for f in fl:
            if not ref_holds(f, o):
                ok = False
        if ok:
            out.append(key)
    return sorted(out)


def oracle_gets(case, impl, viol, stats, model_g, vals, vals_text, flagged, flagged_fs2, om, mode):
    """get / all_versions directly and through composites: all_versions(id) is exactly the stored versions of id on
    which every attached and every composite filter holds; the answer of get, if any, is one of them."""
    pop = case["pop"]
    for gi, (g, got) in enumerate(zip(case["gets"], impl.get("gets", []))):
        for ri, route in enumerate(GET_ROUTES):
            fl = g["att"] + (g.get("comp", []) if route in ("cmo", "cfs", "c2") else [])
            try:
                expect = ref_versions(vals, g["id"], fl)
            except Undefined:
                stats["gets_undefined"] += 1
                continue
            try:
                expect_text = ref_versions(vals_text, g["id"], fl)
            except Exception:      # noqa: BLE001
                expect_text = None
            get_line, av_line = got[route]
            stats["get_answers"] += 1
            problems = []
            kind, keys, _ = parse_line(av_line)
            if not (kind == "OK" and keys == expect):
                problems.append(("all_versions", av_line, kind, keys))
            if get_line.startswith("ONE ") and get_line[4:] not in expect:
                problems.append(("get", get_line, "ONE", [get_line[4:]]))
            elif get_line.startswith("EXC"):
                problems.append(("get", get_line, "EXC", None))
            for op, line, kind, keys in problems:
                finding, outside_layout = None, False
                fl_keys = flagged if route in ("fs", "cfs") else flagged_fs2 if route == "c2" else set()
                why_ty = tyid_ok(fl) if route != "mo" and route != "cmo" else set()
                if om == "OptAnyValue" and "nonstring" in why_ty and line in ("EXC AttributeError", "EXC TypeError"):
                    finding = FINDINGS["nonstring"]      # the model line is compared below (all_versions)
                    if op == "get" and not (model_g is None or model_g[gi][ri] == line):
                        finding = None
                elif op == "all_versions" and om == "OptAnyValue" and "in-string" in why_ty and kind == "OK" and set(keys) <= set(expect):
                    finding = FINDINGS["in-string"]
                elif expect_text is None and line == "EXC TypeError" and any(isinstance(f["v"], dict) and ("$t" in f["v"] or "$tz" in f["v"]) for f in fl) \
                        and any(not o2["reg"] and o2["id"] == g["id"] for o2 in pop):
                    finding = FINDINGS["ts"]      # datetime filter value against timestamp text: TypeError
                    if op == "get" and not (model_g is None or model_g[gi][ri] == line):
                        finding = None
                if finding is not None:
                    pass
                elif op == "all_versions":
                    if kind == "OK" and expect_text is not None and expect_text != expect and keys == expect_text:
                        finding = FINDINGS["ts"]
                    elif kind == "OK" and fl_keys and set(keys) <= set(expect) and set(expect) - set(keys) <= fl_keys:
                        outside_layout = True
                    elif kind == "OK" and fl_keys and expect_text is not None and set(keys) <= set(expect_text) and \
                            set(expect_text) - set(keys) <= fl_keys:
                        outside_layout = True
                        if expect_text != expect:
                            finding = FINDINGS["ts"]
                elif kind == "ONE" and expect_text is not None and keys[0] in expect_text:
                    finding = FINDINGS["ts"]
                elif kind == "ONE" and mode == "TextOnDicts" and has_ts_value(fl) and \
                        any(o2["key"] == keys[0] and not o2["reg"] for o2 in pop):
                    finding = FINDINGS["ts"]      # a dictionary-kept object answered under a timestamp filter
                if finding is None and not outside_layout and op == "all_versions" and model_g is not None and \
                        mode == "TextOnDicts" and ts_text_shaped(kind, keys, expect, fl, pop, only_id=g["id"]) and \
                        (kind == "OK" or line == "EXC TypeError"):
                    finding = FINDINGS["ts"]
                if op == "all_versions" and (finding or outside_layout) and model_g is not None and \
                        not same_line("mo" if route in ("mo", "cmo") else "fs", line, model_g[gi][ri],
                                      model_g[gi][0] if route == "fs" else model_g[gi][2]):
                    finding, outside_layout = None, False
                if outside_layout:
                    stats["outside_layout_hypothesis"] += 1
                    if finding is None:
                        continue
                viol.append(Violation(
                    "%s route: %s(%s) with attached %s%s returns %s; the stored versions on which every one of these filters "
                    "holds are %s" % (route, op, g["id"], json.dumps(g["att"]),
                                      (" and composite filters " + json.dumps(g.get("comp", []))) if route in ("cmo", "cfs", "c2") else "",
                                      line[:300], expect),
                    {"kind": "get", "symlinks": case.get("symlinks"), "pop": [to_json(o2["tree"]) for o2 in pop], "split": case["split"], "get": g, "route": route,
                     "op": op, "expect": replay_expect(expect, None if model_g is None else model_g[gi][ri], fl_keys)},
                    finding=finding))


# --------------------------------------------------------------------------
# variant selection: does the code compare timestamp text on dictionaries?

WITNESS = {
    "pop": [{"type": "x-foo", "id": "x-foo--11111111-1111-4111-8111-111111111111",
             "created": "2020-01-01T00:00:00Z", "modified": "2020-01-01T00:00:00Z", "name": "w"},
            {"type": "identity", "spec_version": "2.1", "id": "identity--22222222-2222-4222-8222-222222222222",
             "created": "2020-01-01T00:00:00Z", "modified": "2020-01-01T00:00:00Z", "name": "i"}],
    "split": 0,
    "queries": [{"q": [{"p": "modified", "op": ">", "v": "2020-01-01T00:00:00.5Z"}], "att": [], "comp": [], "wrap": False},
                {"q": [{"p": "id", "op": "=", "v": 5}], "att": [], "comp": [], "wrap": False},
                {"q": [{"p": "type", "op": "in", "v": "identity,x-foo"}], "att": [], "comp": [], "wrap": False},
                {"q": [{"p": "type", "op": "in", "v": ["identity", 5]}], "att": [], "comp": [], "wrap": False}],
    "gets": [],
}
W_XFOO = "sx-foo--11111111-1111-4111-8111-111111111111|s2020-01-01T00:00:00Z"
W_IDENT = "sidentity--22222222-2222-4222-8222-222222222222|t1577836800000000"


def select_variant():
    """Which variants of the model does the code match?  (ts_mode, opt_mode, raw worker answer)"""
    r = common.run_impl("c12_impl", [WITNESS], procs=1)[0]
    if "queries" not in r:
        return None, None, r
    q = r["queries"]
    line = q[0]["md"]
    if parse_line(line)[:2] == ("OK", [W_XFOO]):
        mode = "TextOnDicts"
    elif line == "OK ":
        mode = "InstantOnDicts"
    else:
        mode = None
    a, b, c = q[1]["fs"], parse_line(q[2]["fs"]), parse_line(q[3]["fs"])
    if a == "EXC AttributeError" and b[:2] == ("OK", []) and c[0] == "EXC":
        om = "OptAnyValue"
    elif a == "OK " and b[:2] == ("OK", sorted([W_XFOO, W_IDENT])) and c[:2] == ("OK", [W_IDENT]):
        om = "OptStringsOnly"
    else:
        om = None
    return mode, om, r


# --------------------------------------------------------------------------

def expected_echo(case):
    import hashlib
    items = sorted(json.dumps(to_canon(o["tree"], o["reg"]), sort_keys=True) for o in case["pop"])
    return hashlib.sha1("\n".join(items).encode()).hexdigest(), set(items)


def same_line(route, g, m, scan=None, exact=False):
    """Memory routes, and filesystem routes whose order is known (the model tree is arranged in the os.listdir order
    the worker observed and no white list has two or more values): same objects in the same order / same exception
    class.  Other filesystem routes: same multiset / same exception class.
    `scan` is the model's answer on the memory route for the same filters (every stored object is evaluated there):
    when that raises, WHICH object raises first on a filesystem route depends on os.listdir order, which nothing
    specifies -- two different exception classes are then the same observation."""
    if route in ("mo", "md") or exact:
        return g == m
    pg, pm = parse_line(g), parse_line(m)
    if pg[0] == "EXC" and pm[0] == "EXC" and scan is not None and scan.startswith("EXC"):
        return True
    # the same holds among the version files of one id directory, and the filesystem source evaluates the
    # filters in another order ([id filter] + attached + composite) than the memory source (composite + attached)
    if pg[0] == "EXC" and pm[0] == "EXC" and {pg[1], pm[1]} <= {"TypeError", "AttributeError", "ValueError"}:
        return True
    return (pg[0] == pm[0]) and (pg[1] == pm[1])


GET_ROUTES = ("mo", "fs", "cmo", "cfs", "c2")


def compare_gets(case, impl, model, dis):
    """all_versions(id) with attached / composite filters: memory exactly, routes through the filesystem as multisets."""
    n = 0
    nq = len(case["queries"])
    for g, got, mod in zip(case["gets"], impl.get("gets", []), model[nq:]):
        for route, mline in zip(GET_ROUTES, mod):
            n += 1
            line = got[route][1]
            # an id lookup leaves at most one value in either white list: the order is the listing order
            if not same_line("mo" if route in ("mo", "cmo") else "fs", line, mline, mod[0] if route == "fs" else mod[2],
                             exact=impl.get("listing") is not None):
                dis.append({"route": route + ".all_versions", "get": g, "impl": line[:400], "model": mline[:400],
                            "pop": [to_json(o["tree"]) for o in case["pop"]], "split": case["split"]})
    return n


def judge_grow(case, impl, model, viol, dis, stats, mode):
    """The stores that live through a history (objects added in steps, the same store objects queried after every
    step): model comparison and reference evaluation over the objects added so far."""
    g, steps = case.get("grow"), impl.get("grow")
    if not g or not steps:
        return 0
    pop, order = case["pop"], g["order"]
    base = len(case["queries"]) + len(case["gets"])
    n = li = 0
    for si, (cut, step) in enumerate(zip(g["steps"], steps)):
        sub = [pop[i] for i in order[:cut]]
        vals = [(o["key"], to_ref(o["tree"])) for o in sub]
        vals_text = [(o["key"], to_ref(o["tree"], ts_as_text=not o["reg"])) for o in sub]
        flagged = {o["key"] for o in sub if o["flags"]}
        if step["refused"]:
            dis.append({"route": "grow", "why": "a store refused an add", "refused": step["refused"][:3], "step": si})
        for qi, (spec, got) in enumerate(zip(g["queries"], step["queries"])):
            mline = model[base + li] if model is not None and base + li < len(model) else None
            li += 1
            payload = {"kind": "grow", "pop": [to_json(o["tree"]) for o in pop], "grow": g, "step": si, "query": qi}
            agree = {"mem": None, "fs": None}
            if mline is not None:
                mm, mf, known = mline
                n += 2
                agree["mem"] = got["mem"] == mm
                agree["fs"] = same_line("fs", got["fs"], mf, mm, exact=(known == "true"))
                if agree["fs"] is False and got["fs"].startswith("EXC") and mf.startswith("OK") and mm == got["fs"] == got["mem"]:
                    agree["fs"] = True          # raises exactly as the scan of everything does (Appendix A.2)
                for route, ml in (("mem", mm), ("fs", mf)):
                    if not agree[route]:
                        dis.append({"route": "grow." + route, "step": si, "added_so_far": cut, "spec": spec,
                                    "impl": got[route][:400], "model": ml[:400], "grow": g,
                                    "pop": [to_json(o["tree"]) for o in pop]})
            if got.get("qarg_changed"):
                viol.append(Violation("growing store, step %d: the caller's query object %s was changed by query()" % (
                    si, json.dumps(spec["q"])), dict(payload, route="qarg", expect=None)))
            try:
                expect = ref_query(vals, spec["q"])
            except Undefined:
                continue
            try:
                expect_text = ref_query(vals_text, spec["q"])
            except Exception:      # noqa: BLE001
                expect_text = None
            stats["grow_judged"] = stats.get("grow_judged", 0) + 1
            for route in ("mem", "fs"):
                kind, keys, _ = parse_line(got[route])
                if kind == "OK" and keys == expect:
                    continue
                finding, outside = None, False
                if agree[route] and mode == "TextOnDicts" and (
                        (kind == "OK" and expect_text is not None and keys == expect_text and expect_text != expect) or
                        (ts_text_shaped(kind, keys or [], expect, spec["q"], sub) and (kind == "OK" or got[route] == "EXC TypeError"))):
                    finding = FINDINGS["ts"]
                elif agree[route] and route == "fs" and kind == "OK" and flagged and set(keys) <= set(expect) and \
                        set(expect) - set(keys) <= flagged:
                    outside = True
                if outside:
                    stats["outside_layout_hypothesis"] += 1
                    continue
                viol.append(Violation(
                    "growing store (%s), after %d of %d objects were added through the sink: query %s on the same store object "
                    "returns %s; the reference evaluation over the objects added so far gives %s" % (
                        "FileSystemStore" if route == "fs" else "MemoryStore", cut, len(order), json.dumps(spec["q"]),
                        got[route][:300], expect),
                    dict(payload, route=route, expect=replay_expect(expect, mline[1] if (mline is not None and route == "fs") else None,
                                                                    flagged)), finding=finding))
    return n


ORDER_STATS = {"exact": 0, "multiset": 0}


def compare(case, impl, model, dis, improved, scan_raises):
    """Correspondence: memory routes exactly (order included), filesystem routes as multisets."""
    n = 0
    vals = None
    for qi, (spec, got, mod) in enumerate(zip(case["queries"], impl["queries"], model)):
        mm, mf, mc, known = mod
        known = (known == "true") and impl.get("listing") is not None
        for route, mline, ordered in (("mo", mm, True), ("md", mm, True), ("fs", mf, known), ("c2", mc, known)):
            n += 1
            if route in ("fs", "c2"):
                ORDER_STATS["exact" if ordered else "multiset"] += 1
            g, m = got[route], mline
            if not same_line(route, g, m, mm, exact=ordered):
                # The model carries the known defects of the matched variant.  If the implementation gives exactly
                # the reference answer where the model deviates from it, the code has become better than the model on
                # an input of a known-defect class: recorded, not a disagreement.
                if vals is None:
                    vals = [(o["key"], to_ref(o["tree"])) for o in case["pop"]]
                try:
                    expect = ref_query(vals, spec["q"] + spec["att"] + spec["comp"])
                except Undefined:
                    expect = None
                pg, pm = parse_line(g), parse_line(m)
                if expect is not None and pg[0] == "OK" and pg[1] == expect and not (pm[0] == "OK" and pm[1] == expect):
                    improved.append({"route": route, "spec": spec["q"] + spec["att"] + spec["comp"], "impl": g[:200], "model": m[:200]})
                    continue
                # Appendix A.2: a filter list that raises on some stored object has no defined answer; the shortcuts
                # decide whether that object is looked at.  A filesystem answer that raises exactly as the scan of
                # everything raises (memory route of the model) where the model's pruned search happens not to is
                # within the theorem (opt_raises_only_if_scan_does), not a disagreement.
                if route in ("fs", "c2") and pg[0] == "EXC" and pm[0] == "OK" and mm == g and got["md"] == g:
                    scan_raises.append({"route": route, "spec": spec["q"] + spec["att"] + spec["comp"], "impl": g, "model": m[:200]})
                    continue
                dis.append({"route": route, "spec": {kk: spec[kk] for kk in SPEC_KEYS if kk in spec},
                            "impl": g[:400], "model": m[:400],
                            "pop": [to_json(o["tree"]) for o in case["pop"]], "split": case["split"]})
    return n


ENV_VARIANTS = [{"TZ": "JST-9"}, {"TZ": "EST5EDT"}, {"PYTHONHASHSEED": "1"}, {"TZ": "UTC+3:30", "PYTHONHASHSEED": "4711"}]


def run_impl_env(cases, env_extra):
    """The worker in a fresh interpreter under another process environment (time zone, hash seed)."""
    import subprocess
    env = common.impl_env()
    env.update(env_extra)
    script = os.path.join(common.VERIF, "harness", "impl", "c12_impl.py")
    inp = "\n".join(json.dumps(c) for c in cases) + "\n"
    p = subprocess.run([common.PY, script], input=inp, stdout=subprocess.PIPE, stderr=subprocess.PIPE, text=True, env=env,
                       timeout=1800, cwd=common.scratch())
    if p.returncode != 0:
        raise RuntimeError("worker failed under %s:\n%s" % (env_extra, p.stderr[-2000:]))
    return [json.loads(l) for l in p.stdout.split("\n") if l.strip()]


def env_differences(base, other):
    """Where do the answers of two runs of one case differ?  Memory routes exactly; routes through the filesystem
    as multisets (directory order and set order may legitimately differ between two processes)."""
    out = []
    for qi, (a, b) in enumerate(zip(base.get("queries", []), other.get("queries", []))):
        for route in ("mo", "md", "fs", "c2"):
            if not same_line(route, a[route], b[route]):
                out.append(("query", qi, route, a[route][:200], b[route][:200]))
        if a.get("qarg_changed") != b.get("qarg_changed"):
            out.append(("query", qi, "qarg_changed", a.get("qarg_changed"), b.get("qarg_changed")))
    for gi, (a, b) in enumerate(zip(base.get("gets", []), other.get("gets", []))):
        for route in GET_ROUTES:
            for j, op in ((0, "get"), (1, "all_versions")):
                if not same_line("mo" if route in ("mo", "cmo") else "fs", a[route][j], b[route][j]):
                    out.append((op, gi, route, a[route][j][:200], b[route][j][:200]))
    for si, (a, b) in enumerate(zip(base.get("grow") or [], other.get("grow") or [])):
        for qi, (x, y) in enumerate(zip(a["queries"], b["queries"])):
            if x["mem"] != y["mem"] or not same_line("fs", x["fs"], y["fs"]):
                out.append(("grow", si, qi, (x["mem"] + " / " + x["fs"])[:200], (y["mem"] + " / " + y["fs"])[:200]))
    if base.get("build", {}).get("parsed_kinds") != other.get("build", {}).get("parsed_kinds") or \
            base.get("echo", {}).get("mo") != other.get("echo", {}).get("mo") or base.get("echo", {}).get("fs") != other.get("echo", {}).get("fs"):
        out.append(("echo", 0, "stores", str(base.get("echo", {}).get("mo")), str(other.get("echo", {}).get("mo"))))
    return out


def environment_step(run, cases, impl):
    """A share of the cases once more in fresh interpreters under other time zones / another hash seed: the answers
    must be those of the default run."""
    picked = [i for i in range(len(cases)) if i % 7 == 3 and "queries" in impl[i]][:16]
    n = 0
    for vi, env_extra in enumerate(ENV_VARIANTS):
        mine = picked[vi::len(ENV_VARIANTS)]
        if not mine:
            continue
        try:
            res = run_impl_env([case_json(cases[i]) for i in mine], env_extra)
        except Exception as e:      # noqa: BLE001
            run.broken.append(Broken("correspondence", "worker under %s" % env_extra, {"error": str(e)[-1500:]}))
            continue
        for i, r in zip(mine, res):
            n += 1
            for d in env_differences(impl[i], r)[:2]:
                run.violations.append(Violation(
                    "under the process environment %s the answer differs from the default run: %s %s %s: default %s, here %s" % (
                        (env_extra,) + d),
                    {"kind": "env", "env": env_extra, "case": case_json(cases[i]), "where": list(d[:3])}))
    run.coverage["environment_variants"] = {"variants": ENV_VARIANTS, "cases_rerun": n}


def source_step(run):
    """translators/tr_filters.py -> Gen/FilterFacts.v -> Props/C12Src.v (call inside common.Lock()).  Returns the
    choices read from the source text, or None when the translator aborted (the obligations then count as
    undischarged)."""
    import tr_filters
    src_props = "Props/C12Src.v"
    facts = None
    try:
        text, facts = tr_filters.translate(common.REPO, None)
        common.write_if_changed(os.path.join(common.COQ, "Gen", "FilterFacts.v"), text)
    except tr_filters.TranslateError as e:
        run.broken.append(Broken("translator", "tr_filters: " + str(e)[:200], {"error": str(e)}))
    except (OSError, SyntaxError, ValueError, AttributeError, IndexError, KeyError) as e:
        run.broken.append(Broken("translator", "tr_filters", {"error": "%s: %s" % (type(e).__name__, e)}))
    if facts is not None:
        res = common.build_props(src_props)
        run.add_build(res, run.coverage.get("checker_cmd", "") + " ; Props/C12Src.vo (source-text instance)")
        run.coverage["source_text_choices"] = {k: v for k, v in facts.items()}
    else:
        run.coverage["obligations"] += len(common.theorems_in(src_props))
    return facts


def check(run):
    thorough = run.tier == "thorough"
    run.coverage["rule"] = (
        "populations of 0-40 objects (2.1 identity/indicator/malware/tool/location/relationship with 1-4 versions, "
        "file/ipv4-addr SCOs and marking definitions in the unversioned layout, unregistered custom dictionaries with and "
        "without `modified`; one population in eight deliberately breaks the layout hypotheses: id prefix != type, "
        "non-UUID ids) x filter lists of 0-9 filters (type/id filters =,!=,in with existing / other-type / unknown / "
        "repeated / contradictory values, and -- one list in ten -- strings given to `in`, numbers, lists with a "
        "non-string member, dict values; every operator on every property kind found in the population with hit / "
        "near-miss / wrong-kind values; dotted paths; timestamp strings in several spellings and datetime values) "
        "delivered as query argument, attached, or composite-passed; each query runs on MemorySource(objects), "
        "MemorySource(dicts), FileSystemSource (each also wrapped in a CompositeDataSource) and a two-member composite "
        "[memory, filesystem]; per population up to 6 get/all_versions lookups with attached and composite filters run "
        "on memory, filesystem, each wrapped in a composite, and the two-member composite. One query object is built per "
        "query and handed to all routes in turn -- a third of them as a FilterSet object -- and must be unchanged afterwards; "
        "in a third of the unrelated queries the two members of the composite carry different attached filters. Per "
        "population one history: a FileSystemStore and a MemoryStore receive the objects in two to five steps (half of the "
        "histories: objects without `modified` first) and the same store objects answer four queries after every step. "
        "One population in three is read through symbolic links (type directories, id directories, <id>.json files "
        "replaced by links to the same content). Filter values include aware datetimes of other zones than UTC (the "
        "reference uses the instant the caller wrote) and pairs of filters that differ only in the TYPE of the value "
        "(50 / '50', True / 'True'). "
        "Generic dimensions: every query is asked twice (the second time after the rest of the session); 16 cases "
        "per run are repeated in fresh interpreters under other time zones / another hash seed and must give the default "
        "answers; `in` lists of up to 256 values, dotted paths of up to 65 steps, strings of 0 / 1 / 255 / 256 characters, "
        "2^53 + 1, 10^21, UUID versions 1-8 per type, quotes / backslashes / U+007F / non-BMP in values, timestamps "
        "with 0-7 fraction digits and years 0001 / 0999 / 9999; positional and keyword form of the query argument. "
        "Every answer is compared "
        "with the model (memory: exact order; filesystem: multiset / exception class) and with the reference "
        "evaluation (timestamps as instants); conjunction = intersection and monotonicity are checked on the "
        "implementation's own answers for triples (A, B, A+B). Non-trivial = non-empty population and at least one filter.")
    with common.Lock():
        res = common.build_props("Props/C12.v")
        run.add_build(res, "make -C coq Props/C12.vo (coqc 8.16.1, full .vo) + Print Assumptions per theorem")
        facts = source_step(run)
    # variants
    mode, om, wres = select_variant()
    run.coverage["variant"] = {"ts_mode": mode, "opt_mode": om}
    if mode is None or om is None:
        run.broken.append(Broken("correspondence", "variant witnesses match no variant of the model (ts_mode=%s opt_mode=%s)" % (mode, om),
                                 {"witness": WITNESS, "impl": wres}))
        mode, om = mode or "TextOnDicts", om or "OptAnyValue"
    # the source text and the behaviour of the witnesses must denote the same choices
    if facts is not None:
        text_om = {"CfgAnyValue": "OptAnyValue", "CfgStringsOnly": "OptStringsOnly"}.get(facts.get("opt"))
        probes = {"opt": run.coverage["variant"]["opt_mode"], "ops": (wres.get("filter_ops") if isinstance(wres, dict) else None)}
        run.coverage["behaviour_probes"] = probes
        diff = {}
        if text_om is not None and probes["opt"] is not None and text_om != probes["opt"]:
            diff["opt"] = {"text": text_om, "behaviour": probes["opt"]}
        if probes["ops"] is not None and probes["ops"] != facts.get("ops"):
            diff["ops"] = {"text": facts.get("ops"), "behaviour": probes["ops"]}
        if diff:
            run.broken.append(Broken("correspondence", "the source text and the behaviour of the witnesses denote different choices",
                                     {"differences": diff}))
    # cases
    rng = run.rng
    n_pops = 480 if thorough else 96
    n_queries = 60 if thorough else 24
    sizes = [0, 1, 2, 3, 5, 8, 13, 20, 30, 40]
    cases = []
    for i in range(n_pops):
        outside = (i % 8 == 7)
        cases.append(gen_case(rng, sizes[i % len(sizes)] if i < 40 else rng.choice(sizes), n_queries, outside))
    impl = common.run_impl("c12_impl", [case_json(c) for c in cases], procs=common.NCPU)
    # build problems / echo
    hist = {}
    echo_bad = []
    for c, r in zip(cases, impl):
        for k2, v in c["hist"].items():
            hist[k2] = hist.get(k2, 0) + v
        if "error" in r["build"]:
            echo_bad.append({"why": "store construction failed", "error": r["build"]["error"],
                             "pop": [to_json(o["tree"]) for o in c["pop"]]})
            continue
        kinds = ["obj" if o["reg"] else "dict" for o in c["pop"]]
        dig, items = expected_echo(c)
        if r["build"]["parsed_kinds"] != kinds or r["echo"]["mo"] != dig or r["echo"]["md"] != dig or r["build"]["fs_refused"]:
            echo_bad.append({"why": "stored content differs from the generated typed tree", "build": r["build"],
                             "echo": {k2: v for k2, v in r["echo"].items() if not k2.endswith("_full")},
                             "pop": [to_json(o["tree"]) for o in c["pop"]]})
        else:
            extra = [x for x in (json.dumps(o, sort_keys=True) for o in r["echo"].get("fs_full", [])) if x not in items]
            if extra:
                echo_bad.append({"why": "filesystem source returns content that was not stored", "extra": extra[:3]})
    if echo_bad:
        run.broken.append(Broken("correspondence", "population echo (what the stores hold vs the generated typed trees)",
                                 {"first": echo_bad[:3], "count": len(echo_bad)}))
    environment_step(run, cases, impl)
    good = [(c, r) for c, r in zip(cases, impl) if "queries" in r]
    # model
    dis = []
    model = None
    try:
        model = run_model([c for c, _ in good], mode, om, listings=[r.get("listing") for _, r in good],
                          grows=[r.get("grow") for _, r in good])
        total = 0
        improved, scan_raises = [], []
        for (c, r), m in zip(good, model):
            total += compare(c, r, m, dis, improved, scan_raises)
            total += compare_gets(c, r, m, dis)
        run.coverage["raises_as_the_scan_where_model_search_does_not"] = {"count": len(scan_raises), "first": scan_raises[:3]}
        run.coverage["correspondence_comparisons"] = total
        run.coverage["filesystem_route_comparisons"] = {
            "order_and_exception_class_exact": ORDER_STATS["exact"], "multiset_only": ORDER_STATS["multiset"],
            "why": "the model tree is arranged in the os.listdir order the worker observed; only a white list with two or "
                   "more values (walked in Python set order) leaves the order of the answers unknown"}
        run.coverage["correspondence_disagreements"] = len(dis)
        run.coverage["implementation_better_than_model"] = {"count": len(improved), "first": improved[:3]}
        if improved:
            run.notes.append("%d answers equal the reference where the model of the matched variant (with its known defects) "
                             "does not: the code is better than the model there" % len(improved))
        if dis:
            run.broken.append(Broken("correspondence", "Model/Filters.v vs stix2.datastore (%d disagreements)" % len(dis),
                                     {"first": dis[:4]}))
    except RuntimeError as e:
        run.broken.append(Broken("correspondence", "model evaluation failed", {"error": str(e)[-1500:]}))
    # oracle
    stats = {"judged": 0, "undefined": 0, "laws": 0, "get_answers": 0, "gets_undefined": 0, "outside_layout_hypothesis": 0}
    grow_cmp = 0
    for gi, (c, r) in enumerate(good):
        grow_dis = []
        try:
            oracle_case(c, r, run.violations, stats, om, model[gi] if model is not None else None, mode)
            grow_cmp += judge_grow(c, r, model[gi] if model is not None else None, run.violations, grow_dis, stats, mode)
        except Exception as e:      # noqa: BLE001 -- the oracle must never crash the check: the case is reported instead
            import traceback
            run.violations.append(Violation(
                "the reference evaluation failed on a generated case (%s: %s) -- the case is kept for replay" % (type(e).__name__, e),
                {"kind": "twice", "symlinks": c.get("symlinks"), "pop": [to_json(o["tree"]) for o in c["pop"]], "split": c["split"],
                 "queries": [{kk: s2[kk] for kk in SPEC_KEYS if kk in s2} for s2 in c["queries"]], "gets": c["gets"],
                 "grow": c.get("grow"), "query": 0, "route": "mo", "oracle_error": traceback.format_exc()[-1500:]}))
        dis.extend(grow_dis)
        for s in c["queries"]:
            fl = s["q"] + s["att"] + s.get("att2", []) + s["comp"]
            run.count({"pop": [o["key"] for o in c["pop"]], "spec": [s["q"], s["att"], s.get("att2"), s["comp"], s["wrap"], s.get("fset")]},
                      nontrivial=bool(c["pop"]) and bool(fl))
        g = c.get("grow")
        if g and r.get("grow"):
            for si, cut in enumerate(g["steps"]):
                for spec in g["queries"]:
                    run.count({"pop": [o["key"] for o in c["pop"]], "grow": [g["order"], g["steps"], si, spec["q"]]},
                              nontrivial=cut > 0)
    run.coverage["growing_store_comparisons"] = grow_cmp
    if grow_cmp and any(d.get("route", "").startswith("grow") for d in dis) and not any(
            b.kind == "correspondence" and b.name.startswith("Model/Filters.v") for b in run.broken):
        gd = [d for d in dis if d.get("route", "").startswith("grow")]
        run.broken.append(Broken("correspondence", "Model/Filters.v vs stix2.datastore on growing stores (%d disagreements)" % len(gd),
                                 {"first": gd[:3]}))
    # the witnesses of the defective variants are failing inputs themselves
    def wit(qi, route, expect, what, fid):
        run.violations.append(Violation(what, {"kind": "query", "pop": WITNESS["pop"], "split": 0, "spec": WITNESS["queries"][qi],
                                               "route": route, "expect": expect}, finding=fid))
    if mode == "TextOnDicts":
        wit(0, "md", [], "MemorySource over an unregistered custom dictionary with modified 2020-01-01T00:00:00Z answers "
            "Filter('modified','>','2020-01-01T00:00:00.5Z') with that object (text comparison, not instants)", FINDINGS["ts"])
    if om == "OptAnyValue":
        wit(2, "fs", sorted([W_XFOO, W_IDENT]), "FileSystemSource answers Filter('type','in','identity,x-foo') with nothing (the shortcut looks "
            "for a directory of that name); MemorySource returns the identity and the x-foo object (substring semantics)", FINDINGS["in-string"])
        wit(1, "fs", [], "FileSystemSource raises AttributeError on Filter('id','=',5) (the shortcut calls get_type_from_id on it); "
            "MemorySource returns []", FINDINGS["nonstring"])
    run.coverage["oracle"] = stats
    run.coverage["populations"] = len(cases)
    run.coverage["histogram_op_kind_value"] = {"%s|%s|%s" % k2: v for k2, v in sorted(hist.items())}
    if good:
        c, r = good[min(5, len(good) - 1)]
        for qi in (1, 2):
            if qi < len(c["queries"]):
                run.sample({"population_size": len(c["pop"]), "query": {kk: c["queries"][qi][kk] for kk in ("q", "att", "comp")},
                            "impl": {k2: v[:160] for k2, v in r["queries"][qi].items() if isinstance(v, str)}})
    run.coverage["trusted_base"] += [
        "coq/Model/Filters.v: hand-written model (compared with the implementation on every run)",
        "translators/tr_filters.py and the function texts recorded in it (what `the choice the model mirrors` is, place by place)",
        "the harness's typed-tree generator and its rendering to JSON / Gallina; `parse` is not modelled: the harness "
        "assumes which properties become STIXdatetime and checks that assumption against what the stores return",
        "harness reference evaluation (Python ==, <, in on canonical values; timestamps as instants)",
    ]
    run.assumptions += [
        "file and directory names contain no '/', NUL, and are not '', '.' or '..' (os.path.join / stat are a finite-map lookup); "
        "the same for string values of type / id filters",
        "floats are dyadic rationals k/1024 (exact doubles); no NaN/inf",
        "timestamp strings are in the canonical spelling or clearly invalid (strptime's one-digit leniency is not modelled)",
        "one (id, modified instant) is stored once per population (overwrite/refusal behaviour is C11's subject)",
        "the reference evaluation leaves `in` / `contains` on timestamp-valued properties, and every (value, operator, value) "
        "combination Python refuses to compare, undefined (no verdict; the model is still compared)",
        "layout hypothesis of opt_sound_complete: an object's id starts with its own type and id directories are named "
        "<type>--<uuid>; populations that break it (unregistered custom dictionaries only) are generated, compared with the "
        "model, counted in coverage.oracle.outside_layout_hypothesis, and not judged by the oracle",
        "get(): only the clause 'the answer satisfies every attached / composite filter' is judged; which version get() picks is C11's subject",
        "naive datetimes as filter values are not generated (the model has aware datetimes only)",
    ]
    ops = [r.get("filter_ops") for r in impl if r.get("filter_ops")]
    if ops and ops[0] != OPS:
        run.broken.append(Broken("correspondence", "stix2.datastore.filters.FILTER_OPS is %s, the model has %s" % (ops[0], OPS), {}))


def replay(payload):
    r = payload["replay"]
    if r.get("kind") == "query":
        case = {"pop": r["pop"], "split": r.get("split", 0), "queries": [r["spec"]], "gets": [], "symlinks": r.get("symlinks")}
        res = common.run_impl("c12_impl", [case], procs=1)[0]
        if "queries" not in res:
            print("replay: could not build the stores: %s" % res["build"])
            return 1
        got = res["queries"][0][r["route"]]
        kind, keys, _ = parse_line(got)
        print("replay route=%s query=%s" % (r["route"], json.dumps(r["spec"])))
        print("  implementation: %s" % got)
        print("  reference evaluation over the stored objects: %s" % r["expect"])
        if not (kind == "OK" and keys == sorted(r["expect"])):
            print("VIOLATION property=C12 replay=(given)")
            return 1
        print("no violation on this input")
        return 0
    if r.get("kind") == "law":
        specs = [{"q": fl, "att": [], "comp": [], "wrap": False} for fl in (r["a"], r["b"], r["a"] + r["b"])]
        res = common.run_impl("c12_impl", [{"pop": r["pop"], "split": r.get("split", 0), "queries": specs, "gets": []}], procs=1)[0]
        a, b, ab = (parse_line(q[r["route"]]) for q in res["queries"])
        print("replay law route=%s\n  A: %s\n  B: %s\n  A+B: %s" % (r["route"], a[:2], b[:2], ab[:2]))
        if a[0] == b[0] == ab[0] == "OK" and set(ab[1]) != set(a[1]) & set(b[1]):
            print("VIOLATION property=C12 replay=(given)")
            return 1
        print("no violation on this input")
        return 0
    if r.get("kind") == "get":
        res = common.run_impl("c12_impl", [{"pop": r["pop"], "split": r.get("split", 0), "queries": [], "gets": [r["get"]], "symlinks": r.get("symlinks")}], procs=1)[0]
        if "gets" not in res:
            print("replay: could not build the stores: %s" % res["build"])
            return 1
        get_line, av_line = res["gets"][0][r["route"]]
        print("replay %s(%s) attached=%s composite=%s on route %s" % (r.get("op"), r["get"]["id"], json.dumps(r["get"]["att"]),
                                                                       json.dumps(r["get"].get("comp", [])), r["route"]))
        print("  get          -> %s" % get_line)
        print("  all_versions -> %s" % av_line)
        print("  stored versions on which every filter holds (reference evaluation): %s" % r.get("expect"))
        expect = r.get("expect")
        bad = False
        if expect is not None:
            kind, keys, _ = parse_line(av_line)
            if r.get("op") == "all_versions" and not (kind == "OK" and keys == sorted(expect)):
                bad = True
            if r.get("op") == "get" and not (get_line == "NONE" or (get_line.startswith("ONE ") and get_line[4:] in expect)):
                bad = True
        if bad:
            print("VIOLATION property=C12 replay=(given)")
            return 1
        print("no violation on this input")
        return 0
    if r.get("kind") == "env":
        base = common.run_impl("c12_impl", [r["case"]], procs=1)[0]
        other = run_impl_env([r["case"]], r["env"])[0]
        diffs = env_differences(base, other)
        print("replay under %s against the default environment: %d differences" % (r["env"], len(diffs)))
        for d in diffs[:3]:
            print("  %s %s %s: default %s, there %s" % d)
        if diffs:
            print("VIOLATION property=C12 replay=(given)")
            return 1
        print("no violation on this input")
        return 0
    if r.get("kind") == "twice":
        case = {kk: r.get(kk) for kk in ("pop", "split", "queries", "gets", "grow", "symlinks")}
        res = common.run_impl("c12_impl", [case], procs=1)[0]
        if "queries" not in res:
            print("replay: could not build the stores: %s" % res["build"])
            return 1
        a, b = res["queries"][r["query"]][r["route"]], res["queries_again"][r["query"]][r["route"]]
        print("replay: query %d on route %s, first: %s ; asked again after the rest of the session: %s" % (r["query"], r["route"], a[:200], b[:200]))
        if a != b:
            print("VIOLATION property=C12 replay=(given)")
            return 1
        print("no violation on this input")
        return 0
    if r.get("kind") == "qarg":
        case = {"pop": r["pop"], "split": r.get("split", 0), "queries": [r["spec"]], "gets": [], "symlinks": r.get("symlinks")}
        res = common.run_impl("c12_impl", [case], procs=1)[0]
        if "queries" not in res:
            print("replay: could not build the stores: %s" % res["build"])
            return 1
        print("replay query object %s through the four sources: %s" % (json.dumps(r["spec"]), {k2: v[:80] for k2, v in res["queries"][0].items() if k2 != "qarg_changed"}))
        if res["queries"][0].get("qarg_changed"):
            print("  the caller's query object was changed")
            print("VIOLATION property=C12 replay=(given)")
            return 1
        print("no violation on this input")
        return 0
    if r.get("kind") == "grow":
        case = {"pop": r["pop"], "split": 0, "queries": [], "gets": [], "grow": r["grow"]}
        res = common.run_impl("c12_impl", [case], procs=1)[0]
        if not res.get("grow"):
            print("replay: could not run the history: %s" % res.get("build"))
            return 1
        step = res["grow"][r["step"]]
        got = step["queries"][r["query"]]
        print("replay growing store: steps %s, after step %d (%d objects added) query %s" % (
            r["grow"]["steps"], r["step"], step["n"], json.dumps(r["grow"]["queries"][r["query"]])))
        print("  MemoryStore     -> %s" % got["mem"][:300])
        print("  FileSystemStore -> %s" % got["fs"][:300])
        print("  reference evaluation over the objects added so far: %s" % r.get("expect"))
        if r.get("route") == "qarg":
            bad = bool(got.get("qarg_changed"))
        else:
            kind, keys, _ = parse_line(got[r["route"]])
            bad = not (kind == "OK" and keys == sorted(r["expect"]))
        if bad:
            print("VIOLATION property=C12 replay=(given)")
            return 1
        print("no violation on this input")
        return 0
    print("replay: unknown payload kind")
    return 2

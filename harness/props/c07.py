"""C07 -- data-marking operations form a consistent algebra over (selector, marking) pairs.

Model: coq/Model/Markings.v (granular / object-level / dispatching
get/add/remove/clear/set/is_marked, expand/compress, new_version as the marking
functions observe it), theorems in coq/Props/C07.v.  Tie: correspondence of
the model with stix2.markings.* and the same-named methods over generated
operation sequences on SDO / SRO / marking-definition objects and plain dicts.
Oracle: an independent reference -- a Python set of (selector, marking) pairs
and a set of object markings -- against which every observed result of the
implementation is judged (the laws of the property, evaluated on real runs)."""
import collections
import json

import common
from common import Broken, Violation
from props import marking_gen as G
from props import c08 as C08

MANIFEST = {
    "text": "Coq theorems over ALL objects, marking lists and selector lists about an executable model of "
            "stix2.markings: expand/compress keep the set of (selector, marking) pairs; add = union with sels x ms, "
            "idempotent, commutes; remove = set difference (remove_after_add restores the set when the pairs were new); "
            "clear = removal of the cleared selectors' pairs (by kind with the flags); set = clear;add; object-level "
            "analogues; every result keeps the non-marking content (new version); is_marked(M) <-> M in get_markings under "
            "the same options (full for the repaired API combination, witness for the pinned one); inherited/descendant "
            "lookups = proper ancestors/descendants on the '.'-path tree (full for the repaired variant, witness "
            "created/created_by_ref for the pinned startswith); the same theorems instantiated at src_cfg, the variant "
            "translators/tr_markings.py reads from the ast of stix2/markings on every run (fail closed on unrecognised "
            "control flow / variant sites), which must also equal the variant found by running the witnesses. Tied to /repo on every run by a correspondence run over "
            "operation sequences through functions and methods, variant selected by running the witnesses.",
    "design_ref": "DESIGN.md 6/C07-C08",
    "note": "Every mutator theorem is conditional on the operation returning Ok (Example mutators_succeed shows the "
            "hypotheses satisfiable on a constructed object in the repaired and the pinned variant; which error is raised "
            "otherwise is correspondence only). remove_pairs / clear_pairs_flags / set_pairs assume well-kinded input "
            "(true of every constructed object and of every mutator result: compress_well_kinded). In this model the new "
            "`modified` is the abstract constant new_time: 'strictly later' is NOT a theorem of this model. "
            "Trusted: Coq kernel + vm_compute; the hand-written model (checked by correspondence, not translated); the "
            "harness's reference set model used as oracle. 'modified strictly later' is checked on the implementation "
            "by the oracle; the theorem result_is_new_version (Props/C07Versioning.v, an OPTIONAL group built separately) carries "
            "C05's nv_strict/nv_exact over to the new_version calls whose keyword names tr_markings reads from the source; it "
            "imports r-c15-c05's Model/Versioning.v and Proofs/VersioningProofs.v and is not counted when those do not build "
            "or their statements moved (evidence key bridge_to_C05). The two models are linked by the call-site fact, not by a "
            "refinement proof. Marking ids are well-formed marking-definition ids or language tags; is_marked with several "
            "markings is proved as behaviour and covered by correspondence, not judged by the oracle.",
    "technique": "Coq proof over a hand-written executable model + correspondence run + oracle search",
}

HEADER = C08.HEADER
PREFIX_FINDING = "C07-prefix-inheritance"
API_FINDING = "C07-is-marked-inherited-any-object-marking"

ID0 = "00000000-0000-4000-8000-000000000000"


def _ident(extra):
    d = {"type": "identity", "spec_version": "2.1", "id": "identity--" + ID0, "created": G.T0, "modified": G.T0,
         "name": "ACME", "identity_class": "organization", "created_by_ref": "identity--" + ID0[:-1] + "1"}
    d.update(extra)
    return d


# the witnesses of inherit_refuted / query_agreement_refuted, as operation sequences
W_INHERIT = {"build": {"how": "dict", "version": "2.1", "cls": "Identity",
                       "data": _ident({"granular_markings": [{"marking_ref": G.RED, "selectors": ["created"]}]})},
             "ops": [{"op": "get", "selectors": "created_by_ref", "inherited": True, "descendants": False,
                      "marking_ref": True, "lang": True, "via": "fn"}]}
W_API = {"build": {"how": "dict", "version": "2.1", "cls": "Identity",
                   "data": _ident({"object_marking_refs": [G.GREEN]})},
         "ops": [{"op": "is_marked", "marking": G.RED, "selectors": "name", "inherited": True, "descendants": False,
                  "via": "fn"},
                 {"op": "get", "selectors": "name", "inherited": True, "descendants": False, "marking_ref": True,
                  "lang": True, "via": "fn"}]}


def probe_variants(run):
    cfg8, _ = C08.probe_variants(run)
    cfg = dict(cfg8)
    res = common.run_impl("c07_impl", [dict(W_INHERIT, kind="c07"), dict(W_API, kind="c07")], procs=1)
    obs = {}
    try:
        got = res[0]["results"][0]["set"]
        cfg["inherit"] = "ByPrefix" if G.RED in got else "ByPathTree"
        obs["inherit"] = got
    except (KeyError, IndexError, TypeError):
        run.broken.append(Broken("correspondence", "witness of variant inherit did not run", {"result": res[0]}))
        cfg["inherit"] = "ByPrefix"
    try:
        b = res[1]["results"][0]["bool"]
        cfg["api"] = "AnyObjectMarking" if b is True else "SameMarking"
        obs["api"] = b
    except (KeyError, IndexError, TypeError):
        run.broken.append(Broken("correspondence", "witness of variant api did not run", {"result": res[1]}))
        cfg["api"] = "AnyObjectMarking"
    return cfg, obs


# ---------------------------------------------------------------- reference semantics (the oracle)

def is_marking_id(m):
    return (m.split("--", 1)[0] if "--" in m else m) == "marking-definition"


def pairs_of(gms):
    out = set()
    for g in gms or []:
        for s in g["sels"]:
            if g["ref"]:
                out.add((s, g["ref"]))
            if g["lang"]:
                out.add((s, g["lang"]))
    return out


def well_kinded(gms):
    return all((not g["ref"] or is_marking_id(g["ref"])) and (not g["lang"] or not is_marking_id(g["lang"]))
               for g in gms or [])


def aslist(x):
    if x is None:
        return None
    return list(x) if isinstance(x, list) else [x]


def segs(s):
    return s.split(".")


def proper_ancestor(a, s):
    sa, ss = segs(a), segs(s)
    return len(sa) < len(ss) and ss[:len(sa)] == sa


def ref_match(us, a, inherited, descendants, prefix=False):
    if us == a:
        return True
    if prefix:
        return (inherited and us.startswith(a)) or (descendants and a.startswith(us))
    return (inherited and proper_ancestor(a, us)) or (descendants and proper_ancestor(us, a))


def ref_get(P, O, sels, inherited, descendants, marking_ref=True, lang=True, prefix=False):
    """Markings reported for the selectors on the path tree (prefix=True: the pinned startswith reading)."""
    out = set()
    for (a, m) in P:
        kind_ok = marking_ref if is_marking_id(m) else lang
        if kind_ok and any(ref_match(us, a, inherited, descendants, prefix) for us in sels):
            out.add(m)
    if inherited:
        out |= set(O)
    return out


def ref_is_marked_pinned_api(P, O, m, sels, inherited, descendants, prefix):
    """What markings.is_marked computes with the pinned `inherited` combination (for classification only)."""
    base = m in ref_get(P, set(), sels, inherited, descendants, prefix=prefix)
    if not inherited:
        return base
    exact = ref_get(P, set(), sels, False, False, prefix=prefix)
    r = True if exact else base
    return r or bool(O)


class Ref:
    """Reference state: pair set + object-marking set, advanced by the laws of the property."""

    def __init__(self, st):
        self.P = pairs_of(st["gms"])
        self.O = set(st["omr"] or [])

    def expect(self, op):
        """(P', O') the property demands after a successful mutator."""
        name = op["op"]
        sels = aslist(op.get("selectors"))
        ms = [m for m in (aslist(op.get("marking")) or []) if m]
        P, O = set(self.P), set(self.O)
        if sels is None:
            if name == "add":
                O |= set(ms)
            elif name == "remove":
                O -= set(ms)
            elif name == "clear":
                O = set()
            elif name == "set":
                O = set(ms)
            return P, O
        prod = set((s, m) for s in sels for m in ms)

        def cleared(p):
            return p[0] in sels and (op.get("marking_ref", True) if is_marking_id(p[1]) else op.get("lang", True))
        if name == "add":
            P |= prod
        elif name == "remove":
            P -= prod
        elif name == "clear":
            P = set(p for p in P if not cleared(p))
        elif name == "set":
            P = set(p for p in P if not cleared(p)) | prod
        return P, O


MUTATORS = ("add", "remove", "clear", "set")


def show_pairs(P):
    return sorted("%s<-%s" % (s, m[-12:] if "--" in m else m) for s, m in P)


def oracle_sequence(case, res, cfg):
    """The laws of C07 judged on one executed sequence.  Returns [(what, op_index, finding)]."""
    out = []
    st = res["state0"]
    if not well_kinded(st["gms"]):
        return out
    ref = Ref(st)
    prev_state = st
    ops = case["ops"]
    results = res["results"]
    # paths of the initial object; a None valued key is left out: new_version drops it, so it exists only until the
    # first mutator
    real = set(".".join(p) for p, v in G.all_paths(res["tree"]) if v["t"] != "null") if "tree" in res else set()
    for k, (op, r) in enumerate(zip(ops, results)):
        name = op["op"]
        sels = aslist(op.get("selectors"))
        # the laws quantify over all selectors of the object: an operation on selectors that address existing
        # properties / elements (outside the marking lists, which the operations themselves rewrite) must not be
        # refused with InvalidSelectorError -- "after adding, the marking is reported for those selectors"
        if r.get("err") == "InvalidSelectorError" and sels and not op.get("selectors_tuple") \
                and all(x in real and x.split(".")[0] not in ("granular_markings", "object_marking_refs") for x in sels):
            tags = set()
            for p, _ in G.all_paths(res["tree"]):
                if ".".join(p) in sels:
                    tags |= G.classify_path(res["tree"], p)
            known_class = any(t in tags and cfg.get(DEFECT_TAGS[t][0]) == DEFECT_TAGS[t][1] for t in DEFECT_TAGS)
            if not known_class:
                out.append(("%s(%s, %s) raises InvalidSelectorError although every selector addresses an existing value of the object" % (
                    name, op.get("marking"), op.get("selectors")), k, None))
        if name in MUTATORS:
            if "state" not in r:
                continue                                     # raised: nothing to judge (the object is unchanged)
            s1 = r["state"]
            P1, O1 = pairs_of(s1["gms"]), set(s1["omr"] or [])
            Pe, Oe = ref.expect(op)
            if P1 != Pe:
                out.append(("%s(%s, %s): granular pair set is %s, the law gives %s" % (
                    name, op.get("marking"), op.get("selectors"), show_pairs(P1), show_pairs(Pe)), k, None))
            if O1 != Oe:
                out.append(("%s(%s, %s): object markings are %s, the law gives %s" % (
                    name, op.get("marking"), op.get("selectors"), sorted(O1), sorted(Oe)), k, None))
            if s1["digest"] != prev_state["digest"]:
                out.append(("%s changed non-marking content (keys %s -> %s)" % (name, prev_state["keys"], s1["keys"]), k, None))
            if not s1.get("class_kept", True):
                out.append(("%s returned an object of another class" % name, k, None))
            changed = (P1 != ref.P) or (O1 != ref.O)
            if not s1.get("same_object"):
                a, b = prev_state.get("modified_us"), s1.get("modified_us")
                if a is not None and (b is None or b <= a):
                    out.append(("%s returned a new object whose modified (%s) is not later than before (%s)" % (name, b, a), k, None))
            elif changed:
                out.append(("%s changed the markings in place (same object returned)" % name, k, None))
            ref.P, ref.O = P1, O1
            prev_state = s1
        elif name == "get":
            if "set" not in r or sels is None and False:
                continue
            got = set(r["set"])
            if sels is None:
                exp = set(ref.O)
                if got != exp:
                    out.append(("get_markings() reports %s, the object markings are %s" % (sorted(got), sorted(exp)), k, None))
                continue
            inh, desc = op.get("inherited", False), op.get("descendants", False)
            mr, lg = op.get("marking_ref", True), op.get("lang", True)
            # inherited=True with marking_ref=False: the object-level markings are still reported.  The docstrings
            # say `inherited` includes object level markings and `marking_ref=False` excludes granular markings
            # "that use the marking_ref property"; object_marking_refs is not that property (ref_get does the same).
            exp = ref_get(ref.P, ref.O, sels, inh, desc, mr, lg)
            if got != exp:
                finding = None
                if cfg.get("inherit") == "ByPrefix" and got == ref_get(ref.P, ref.O, sels, inh, desc, mr, lg, prefix=True):
                    finding = PREFIX_FINDING
                out.append(("get_markings(%s, inherited=%s, descendants=%s) reports %s; on the path tree the markings are %s" % (
                    op.get("selectors"), inh, desc, sorted(got), sorted(exp)), k, finding))
        elif name == "is_marked":
            if "bool" not in r or not isinstance(r["bool"], bool):
                continue
            ms = aslist(op.get("marking")) or []
            if len(ms) > 1:
                continue                                     # the property speaks of one marking M
            got = r["bool"]
            inh, desc = op.get("inherited", False), op.get("descendants", False)
            if sels is None:
                exp = (ms[0] in ref.O) if ms else bool(ref.O)
                if got != exp:
                    out.append(("is_marked(%s) is %s, the object markings are %s" % (ms, got, sorted(ref.O)), k, None))
                continue
            reported = ref_get(ref.P, ref.O, sels, inh, desc)
            exp = (ms[0] in reported) if ms else bool(reported)
            if got != exp:
                finding = None
                if ms:
                    pref = cfg.get("inherit") == "ByPrefix"
                    if pref and got == (ms[0] in ref_get(ref.P, ref.O, sels, inh, desc, prefix=True)):
                        finding = PREFIX_FINDING
                    elif cfg.get("api") == "AnyObjectMarking" and inh and got == ref_is_marked_pinned_api(
                            ref.P, ref.O, ms[0], sels, inh, desc, pref):
                        finding = API_FINDING
                else:
                    pref = cfg.get("inherit") == "ByPrefix"
                    if pref and got == bool(ref_get(ref.P, ref.O, sels, inh, desc, prefix=True)):
                        finding = PREFIX_FINDING
                out.append(("is_marked(%s, %s, inherited=%s, descendants=%s) is %s but get_markings semantics report %s" % (
                    op.get("marking"), op.get("selectors"), inh, desc, got, sorted(reported)), k, finding))
            # direct agreement with the get that follows under the same options
            if ms and k + 1 < len(ops) and ops[k + 1]["op"] == "get" and "set" in results[k + 1] \
                    and ops[k + 1].get("twin_of_previous"):
                got_set = set(results[k + 1]["set"])
                if got != (ms[0] in got_set):
                    finding = None
                    if cfg.get("api") == "AnyObjectMarking" and inh:
                        finding = API_FINDING
                    out.append(("is_marked(%s, %s, inherited=%s, descendants=%s) is %s while get_markings with the same options reports %s" % (
                        ms[0], op.get("selectors"), inh, desc, got, sorted(got_set)), k, finding))
    return out


def oracle_pair(case_a, res_a, case_b, res_b):
    """add a; add b  versus  add b; add a  on the same object: same final pair set."""
    out = []
    try:
        sa, sb = res_a["results"][-1]["state"], res_b["results"][-1]["state"]
        if all("state" in r for r in res_a["results"]) and all("state" in r for r in res_b["results"]):
            if pairs_of(sa["gms"]) != pairs_of(sb["gms"]) or set(sa["omr"] or []) != set(sb["omr"] or []):
                out.append("adding in the two orders gives %s / %s" % (show_pairs(pairs_of(sa["gms"])), show_pairs(pairs_of(sb["gms"]))))
    except (KeyError, IndexError):
        pass
    return out


# ---------------------------------------------------------------- rendering (same as Model/MarkingsRun.v)

def render_state(st):
    omr = "-" if st["omr"] is None else "{" + G.toks(sorted(st["omr"])) + "}"
    if st["gms"] is None:
        gms = "-"
    else:
        gms = "{" + ";".join(("r=" + G.tok(g["ref"]) if g["ref"] else "") + ("l=" + G.tok(g["lang"]) if g["lang"] else "")
                             + ":" + G.toks(g["sels"]) for g in st["gms"]) + "}"
    return "omr=%s gms=%s keys=%s" % (omr, gms, G.toks(sorted(st["keys"])))


def render_impl(results):
    out = []
    for r in results:
        if "err" in r:
            out.append(r["err"])
        elif "state" in r:
            out.append(render_state(r["state"]))
        elif "set" in r:
            out.append("{" + G.toks(sorted(r["set"])) + "}")
        else:
            b = r.get("bool")
            out.append("true" if b is True else ("false" if b is False else str(b)))
    return " | ".join(out)


def coq_opt_sels(s):
    l = aslist(s)
    return "None" if l is None else "(Some %s)" % G.coq_ulist(l)


def coq_marking(m):
    return G.coq_ulist([x for x in (aslist(m) or [])])


def coq_op(op):
    n = op["op"]
    b = common.coq_bool
    if n == "add":
        return "OpAdd %s %s" % (coq_marking(op.get("marking")), coq_opt_sels(op.get("selectors")))
    if n == "remove":
        return "OpRemove %s %s" % (coq_marking(op.get("marking")), coq_opt_sels(op.get("selectors")))
    if n == "clear":
        return "OpClear %s %s %s" % (coq_opt_sels(op.get("selectors")), b(op.get("marking_ref", True)), b(op.get("lang", True)))
    if n == "set":
        return "OpSet %s %s %s %s" % (coq_marking(op.get("marking")), coq_opt_sels(op.get("selectors")),
                                      b(op.get("marking_ref", True)), b(op.get("lang", True)))
    if n == "get":
        return "OpGet %s %s %s %s %s" % (coq_opt_sels(op.get("selectors")), b(op.get("inherited", False)),
                                         b(op.get("descendants", False)), b(op.get("marking_ref", True)), b(op.get("lang", True)))
    if n == "is_marked":
        return "OpIsMarked %s %s %s %s" % (coq_marking(op.get("marking")), coq_opt_sels(op.get("selectors")),
                                           b(op.get("inherited", False)), b(op.get("descendants", False)))
    raise ValueError(n)


# ---------------------------------------------------------------- generation

DEFECT_TAGS = {"falsy": ("falsy", "TruthyOnly"), "dup-element": ("index", "FirstEqual"), "embedded": ("embed", "DictOnly"),
               "nested-list": ("nest", "FlatLists")}


def selector_pool(rng, tree, cfg, is_obj):
    """(valid selectors under the selected variant, invalid ones)."""
    valid, invalid = [], []
    seen = set()
    for p, v in G.all_paths(tree):
        s = ".".join(p)
        if s in seen or p[0] in ("granular_markings", "object_marking_refs"):
            continue
        seen.add(s)
        tags = G.classify_path(tree, p)
        bad = any(t in tags and cfg.get(DEFECT_TAGS[t][0]) == DEFECT_TAGS[t][1] for t in DEFECT_TAGS)
        if is_obj and ("uppercase-key" in tags and cfg.get("syntax") in ("LowerKeys", "LowerKeysZ")):
            bad = True
        if is_obj and (len(p[0]) < 3 or any(c not in "abcdefghijklmnopqrstuvwxyz0123456789_-" for c in p[0])):
            bad = True
        if any(("." in seg and not seg.startswith("[")) or " " in seg or not seg.isascii() for seg in p):
            bad = True
        (invalid if bad else valid).append(s)
    return valid, invalid


def gen_ops(rng, valid, invalid, st, v21_or_dict, is_obj, max_ops):
    P = pairs_of(st["gms"])
    O = set(st["omr"] or [])
    ops = []
    # language markings do not exist in 2.0 objects (the constructor refuses them): tried now and then only
    markings = list(G.REF_MARKINGS) + (list(G.LANG_MARKINGS) if (v21_or_dict or rng.random() < 0.15) else [])
    top = [s for s in valid if "." not in s]
    # selectors that are related on the tree or by name prefix get extra weight
    related = [s for s in valid if any(t != s and (t.startswith(s) or s.startswith(t)) for t in valid)]

    prio = [s for s in valid if G.priority_selector(s)]
    prio = sorted(prio, key=lambda x: -x.count("."))[:6] + prio          # the deepest ones weigh more

    def pick_sel():
        r = rng.random()
        if prio and rng.random() < 0.2:
            return rng.choice(prio)      # order-/depth-sensitive paths: two-digit indices, sibling-prefix keys, deep nesting
        if related and r < 0.45:
            return rng.choice(related)
        if r < 0.9 or not invalid:
            return rng.choice(valid)
        return rng.choice(invalid + ["nonexistent"])

    def pick_sels(allow_none=True):
        r = rng.random()
        if allow_none and r < 0.22:
            return None
        if r < 0.6:
            return pick_sel()
        n = rng.choice([1, 2, 2, 3])
        return [pick_sel() for _ in range(n)]

    def pick_marking(sels):
        r = rng.random()
        pool = list(G.REF_MARKINGS) if sels is None else markings
        if r < 0.6:
            return rng.choice(pool)
        return rng.sample(pool, rng.choice([1, 2, 2]))

    def flags():
        return {"inherited": rng.random() < 0.55, "descendants": rng.random() < 0.4}

    def via():
        return "method" if (is_obj and rng.random() < 0.5) else "fn"

    def empty_sels():
        """an empty / falsy but non-None `selectors` argument: still a granular call (it must be rejected,
        never treated as the object-level call)"""
        k = rng.choice(["list", "str", "tuple"])
        if k == "list":
            return {"selectors": []}
        if k == "str":
            return {"selectors": ""}
        return {"selectors": [], "selectors_tuple": True}

    n = rng.randint(3, max_ops)
    while len(ops) < n:
        r = rng.random()
        if rng.random() < (0.12 if O else 0.04):
            # every API function with an empty selectors value, preferably naming a marking the object carries
            name = rng.choice(["remove", "remove", "clear", "set", "add", "get", "is_marked"])
            mk = rng.choice(sorted(O)) if (O and rng.random() < 0.8) else rng.choice(markings)
            if rng.random() < 0.25:
                mk = [mk]
            op = {"op": name, "via": via()}
            op.update(empty_sels())
            if name in ("remove", "set", "add", "is_marked"):
                op["marking"] = mk
            if name in ("get", "is_marked"):
                op.update(flags())
            ops.append(op)
            continue
        if r < 0.30:
            sels = pick_sels()
            m = pick_marking(sels)
            op = {"op": "add", "marking": m, "selectors": sels, "via": via(),
                  "marking_obj": rng.random() < 0.25}
            ops.append(op)
            if sels is None:
                O |= set(aslist(m))
            else:
                P |= set((s, x) for s in aslist(sels) for x in aslist(m))
            if rng.random() < 0.2:
                ops.append(dict(op))                                           # the same add again (idempotence)
            elif rng.random() < 0.25:
                ops.append({"op": "remove", "marking": m, "selectors": sels, "via": via()})   # remove what was just added
        elif r < 0.42:
            if rng.random() < 0.75 and (P or O):
                if P and (not O or rng.random() < 0.7):
                    s, m = rng.choice(sorted(P))
                    sels, mk = (s if rng.random() < 0.6 else [s]), m
                else:
                    sels, mk = None, rng.choice(sorted(O))
            else:
                sels = pick_sels()
                mk = pick_marking(sels)
            ops.append({"op": "remove", "marking": mk, "selectors": sels, "via": via()})
            if sels is None:
                O -= set(aslist(mk))
            else:
                P -= set((s, x) for s in aslist(sels) for x in aslist(mk))
        elif r < 0.52:
            if P and rng.random() < 0.7:
                sels = rng.choice(sorted(P))[0]
                if rng.random() < 0.3:
                    sels = [sels, pick_sel()]
            else:
                sels = pick_sels()
            op = {"op": "clear", "selectors": sels, "via": via()}
            if sels is not None and rng.random() < 0.35:
                op["marking_ref"], op["lang"] = rng.choice([(True, False), (False, True), (False, False)])
            ops.append(op)
            if sels is None:
                O = set()
            else:
                P = set(p for p in P if p[0] not in aslist(sels))
        elif r < 0.62:
            if P and rng.random() < 0.7:
                sels = rng.choice(sorted(P))[0]
            else:
                sels = pick_sels()
            m = pick_marking(sels)
            op = {"op": "set", "marking": m, "selectors": sels, "via": via()}
            if sels is not None and rng.random() < 0.25:
                op["marking_ref"], op["lang"] = rng.choice([(True, False), (False, True)])
            ops.append(op)
            if sels is None:
                O = set(aslist(m))
            else:
                P = set(p for p in P if p[0] not in aslist(sels)) | set((s, x) for s in aslist(sels) for x in aslist(m))
        elif r < 0.80:
            sels = pick_sels()
            op = {"op": "get", "selectors": sels, "via": via()}
            op.update(flags())
            if rng.random() < 0.2:
                op["marking_ref"], op["lang"] = rng.choice([(True, False), (False, True)])
            ops.append(op)
        else:
            sels = pick_sels()
            f = flags()
            rr = rng.random()
            if rr < 0.6 and (P or O):
                cands = sorted(set(m for _, m in P) | O)
                mk = rng.choice(cands)
            elif rr < 0.85:
                mk = rng.choice(markings)
            elif rr < 0.93:
                mk = None
            else:
                mk = rng.sample(markings, 2)
            op = {"op": "is_marked", "marking": mk, "selectors": sels, "via": via(),
                  "marking_obj": isinstance(mk, str) and rng.random() < 0.15}
            op.update(f)
            ops.append(op)
            g = {"op": "get", "selectors": sels, "via": via(), "twin_of_previous": True}
            g.update(f)
            ops.append(g)
    return ops[:max_ops + 2]


def gen_cases(run, n_cases, max_ops, cfg):
    rng = run.rng
    builds = [G.gen_build(rng) for _ in range(n_cases)]
    first = common.run_impl("c07_impl", [{"build": b, "kind": "paths"} for b in builds])
    cases = []
    for b, r in zip(builds, first):
        if "tree" not in r:
            run.coverage["build_failures"] = run.coverage.get("build_failures", 0) + 1
            continue
        term, why = G.coq_sobj(r)
        if term is None:
            run.coverage["unsupported"] = run.coverage.get("unsupported", 0) + 1
            continue
        is_obj = r["meta"]["kind"] == "obj"
        if b["data"].get("type") in G.SCO_TYPES and rng.random() < 0.7:
            continue        # 2.1 observables cannot be versioned either: every mutator raises; keep some for the queries
        if b["data"].get("type") == "marking-definition" and rng.random() < 0.5:
            continue        # marking definitions cannot be versioned: every mutator raises; keep some for the queries
        valid, invalid = selector_pool(rng, r["tree"], cfg, is_obj)
        if not valid:
            continue
        ops = gen_ops(rng, valid, invalid, r["state0"], (not is_obj) or r["meta"]["v21"], is_obj, max_ops)
        for o in ops:
            if rng.random() < 0.3:
                o["kw"] = True                     # the same call with keyword arguments
        cases.append({"build": b, "kind": "c07", "ops": ops, "_term": term})
        # commutation twins: add a; add b  /  add b; add a
        if rng.random() < 0.25 and len(valid) >= 2:
            a = {"op": "add", "marking": rng.choice(G.REF_MARKINGS), "selectors": rng.choice(valid), "via": "fn"}
            c = {"op": "add", "marking": rng.choice(G.REF_MARKINGS), "selectors": rng.sample(valid, 2), "via": "fn"}
            cases.append({"build": b, "kind": "c07", "ops": [a, c], "_term": term, "_twin": "first"})
            cases.append({"build": b, "kind": "c07", "ops": [c, a], "_term": term, "_twin": "second"})
    return cases


def strip(case):
    return {k: v for k, v in case.items() if not k.startswith("_")}


def model_term(cfg, case):
    return "c07_line %s %s %s" % (G.coq_cfg(cfg), case["_term"], common.coq_list([coq_op(o) for o in case["ops"]]))


def nontrivial(case, res):
    """A sequence is non-trivial when at least two of its operations did not raise and at least one mutator succeeded."""
    ok = sum(1 for r in res["results"] if "err" not in r)
    mut = sum(1 for o, r in zip(case["ops"], res["results"]) if o["op"] in MUTATORS and "state" in r and not r["state"].get("same_object"))
    return ok >= 2 and mut >= 1


SHARD = 16


def check(run):
    thorough = run.tier == "thorough"
    n_cases = 4000 if thorough else 520
    max_ops = 40 if thorough else 12
    run.coverage["rule"] = (
        "generated SDO/SRO/marking-definition objects (2.0 and 2.1; built by class constructor, by parse, or kept as plain "
        "dicts, with and without initial object/granular markings) x operation sequences (<= %d operations) of "
        "add/remove/clear/set/get_markings/is_marked through stix2.markings.* and the same-named methods, with selectors "
        "drawn from the object's own paths (top-level, nested, list-indexed, prefix-related sibling names such as "
        "created/created_by_ref, x_a/x_ab), marking-ref and language markings (ids, lists, TLP objects), and the "
        "inherited/descendants/marking_ref/lang flags; every is_marked is followed by the get_markings with the same "
        "options; add;add, add;remove and the two orders of two adds are generated on purpose. A sequence is non-trivial "
        "when at least two operations did not raise and at least one mutator produced a new version." % max_ops)
    with common.Lock():
        res = common.build_props("Props/C07.v", extra_targets=("Model/MarkingsRun.vo",))
        run.add_build(res, "make -C coq Props/C07.vo (coqc 8.16.1, full .vo) + Print Assumptions per theorem")
        facts = C08.source_step(run, "Props/C07Src.v", G.CFG_FIELDS)
        if facts is not None:
            run.coverage["new_version_changed_keys_in_source"] = facts["nv_changed"]
            # OPTIONAL GROUP: the bridge to C05 imports r-c15-c05's Model/Versioning.v and Proofs/Versioning*.v.
            # Proofs/MarkingsVersioning.v and Props/C07Versioning.v contain nothing but the application of their
            # lemmas, so a failure there (or in their files) means an imported statement moved: it is recorded
            # as a note and the group is not claimed.  A failure in any other Markings* file is a broken obligation.
            res = common.build_props("Props/C07Versioning.v")
            fa = res.get("failed_at")
            mine = fa and "Marking" in (fa[0] or "") and fa[0] not in ("Proofs/MarkingsVersioning.v",)
            if res["ok"] or mine:
                run.add_build(res, "make -C coq Props/C07.vo Props/C07Src.vo Props/C07Versioning.vo (coqc 8.16.1, full .vo) "
                                   "+ Print Assumptions per theorem")
                run.coverage["bridge_to_C05"] = "built" if res["ok"] else "broken in a Markings file"
            else:
                run.coverage["bridge_to_C05"] = "not claimed in this run: %s" % (fa[0] if fa else "build failed")
                run.notes.append("optional group Props/C07Versioning.v (bridge to C05's new_version theorems) did not build at %s; "
                                 "it depends on r-c15-c05's Model/Versioning.v and Proofs/VersioningProofs.v; its obligations "
                                 "are not counted in this run" % (list(fa) if fa else "?"))
    cfg, obs = probe_variants(run)
    C08.compare_text_and_probe(run, facts, cfg, G.CFG_FIELDS)
    run.coverage["variant_selected"] = {k: cfg[k] for k in G.CFG_FIELDS if k in cfg}
    # the witnesses are failing inputs whenever a defective variant is selected
    if cfg.get("inherit") == "ByPrefix" and "inherit" in obs:
        run.violations.append(Violation(
            "get_markings('created_by_ref', inherited=True) reports the marking placed on 'created' (name prefix, not a path ancestor)",
            {"kind": "ops", "case": dict(W_INHERIT, kind="c07")}, PREFIX_FINDING))
    if cfg.get("api") == "AnyObjectMarking" and "api" in obs:
        run.violations.append(Violation(
            "is_marked(TLP_RED, 'name', inherited=True) is True on an object marked only GREEN, while get_markings reports only GREEN",
            {"kind": "ops", "case": dict(W_API, kind="c07")}, API_FINDING))
    cases = gen_cases(run, n_cases, max_ops, cfg)
    impl = common.run_impl("c07_impl", [strip(c) for c in cases])
    model = None
    try:
        model = common.coq_eval_lines("c07", HEADER, [model_term(cfg, c) for c in cases], shard=SHARD)
    except RuntimeError as e:
        run.broken.append(Broken("correspondence", "model evaluation failed", {"error": str(e)[-1500:]}))
    hist = collections.Counter()
    dis = []
    twin_first = None
    for i, (c, r) in enumerate(zip(cases, impl)):
        if "results" not in r:
            run.broken.append(Broken("correspondence", "worker failed on a case", {"case": strip(c), "result": r}))
            continue
        run.count(strip(c), nontrivial=nontrivial(c, r))
        line = render_impl(r["results"])
        for o, x in zip(c["ops"], r["results"]):
            hist["%s/%s" % (o["op"], "err:" + x["err"] if "err" in x else "ok")] += 1
        hist["how/" + c["build"]["how"]] += 1
        if model is not None and model[i] != line:
            a, b = line.split(" | "), model[i].split(" | ")
            k = next((j for j in range(min(len(a), len(b))) if a[j] != b[j]), min(len(a), len(b)))
            dis.append({"case": strip(c), "op_index": k, "impl": a[k] if k < len(a) else None,
                        "model": b[k] if k < len(b) else None})
        try:
            judged = oracle_sequence(c, r, cfg)
        except Exception as e:  # noqa: BLE001 -- the oracle must never take the check down
            run.broken.append(Broken("harness", "oracle failed on a sequence", {"case": strip(c), "error": "%s: %s" % (type(e).__name__, e)}))
            judged = []
        for what, k, finding in judged:
            run.violations.append(Violation(what, {"kind": "ops", "case": strip(c), "op_index": k}, finding))
        if c.get("_twin") == "first":
            twin_first = (c, r)
        elif c.get("_twin") == "second" and twin_first is not None:
            for what in oracle_pair(twin_first[0], twin_first[1], c, r):
                run.violations.append(Violation(what, {"kind": "twins", "case": strip(twin_first[0]), "case_b": strip(c)}, None))
            twin_first = None
        if i < 3:
            run.sample({"build": c["build"], "ops": c["ops"][:4], "impl": line[:400]})
    # the same sequences in another process environment (TZ=JST-9, PYTHONHASHSEED=7, lower recursion limit):
    # the answers must be those of the model / the default run, and the laws must hold there too
    alt_idx = list(range(0, len(cases), 4))
    alt = common.run_impl("c07_impl", [strip(cases[i]) for i in alt_idx], args=("--alt-env",))
    env_dis = []
    for i, r in zip(alt_idx, alt):
        if "results" not in r or "results" not in impl[i]:
            continue
        a, b = render_impl(r["results"]), render_impl(impl[i]["results"])
        if a != b:
            env_dis.append({"case": strip(cases[i]), "default_env": b[:300], "alt_env": a[:300]})
        try:
            for what, k, finding in oracle_sequence(cases[i], r, cfg):
                run.violations.append(Violation(what + " (TZ=JST-9, PYTHONHASHSEED=7)",
                                                {"kind": "ops", "case": strip(cases[i]), "op_index": k}, finding))
        except Exception as e:  # noqa: BLE001
            run.broken.append(Broken("harness", "oracle failed on a sequence", {"case": strip(cases[i]), "error": str(e)}))
    run.coverage["alt_environment_sequences"] = len(alt_idx)
    if env_dis:
        run.broken.append(Broken("correspondence", "results depend on the process environment (TZ / PYTHONHASHSEED)",
                                 {"first": env_dis[:3]}))
    run.coverage["sequences"] = len(cases)
    run.coverage["operation_histogram"] = dict(hist)
    run.coverage["correspondence_disagreements"] = len(dis)
    if dis:
        run.broken.append(Broken("correspondence", "Model/Markings.v (variant %s) vs stix2.markings" % json.dumps(run.coverage["variant_selected"]),
                                 {"first": dis[:5]}))
    run.coverage["trusted_base"] += [
        "coq/Model/Markings.v is hand-written; tied to the source by the correspondence run above and, for the variant "
        "sites and the control-flow skeleton of every function of stix2/markings, by translators/tr_markings.py (fail closed)",
        "harness/props/c07.py Ref / ref_get: the reference set semantics the oracle uses",
        "harness/impl/c07_impl.py: observation of states (object_marking_refs as a set, granular_markings as listed)",
    ]
    run.assumptions += [
        "marking identifiers are non-empty strings: marking-definition ids or language tags; initial granular markings "
        "are well kinded (marking_ref holds a marking-definition id, lang does not)",
        "objects are JSON-like trees plus embedded _STIXBase objects and datetimes; the clock is frozen by the worker",
    ]


# ---------------------------------------------------------------- replay

def replay(payload):
    if "replay" not in payload:
        still = 0
        for b in payload.get("no_longer_checks", []):
            print("no longer checks: %s %s" % (b.get("kind"), b.get("name")))
            for d in (b.get("detail") or {}).get("first", []) or []:
                if "case" not in d:
                    continue
                res = common.run_impl("c07_impl", [d["case"]], procs=1)[0]
                line = render_impl(res["results"]).split(" | ") if "results" in res else [str(res)]
                k = d.get("op_index", 0)
                got = line[k] if k < len(line) else None
                print("  operation %d of the recorded sequence: implementation=%s model=%s" % (k, got, d.get("model")))
                still += got != d.get("model")
        if still:
            print("the model of the marking code (for which the theorems are proved) still disagrees with the implementation")
            print("VIOLATION property=C07 replay=(given) no-failing-input-found")
            return 1
        print("nothing recorded here reproduces")
        return 0
    r = payload["replay"]
    cfg = {"inherit": "ByPrefix", "api": "AnyObjectMarking"}   # classification only; any law failure is reported
    res = common.run_impl("c07_impl", [r["case"]], procs=1)[0]
    if "results" not in res:
        print("replay: the object could not be built: %s" % res)
        return 0
    print("replay of %d operations on %s %s" % (len(r["case"]["ops"]), r["case"]["build"]["how"], r["case"]["build"]["data"].get("type")))
    for o, x in zip(r["case"]["ops"], res["results"]):
        short = x.get("err") or (render_state(x["state"]) if "state" in x else x.get("set", x.get("bool")))
        print("  %s(%s, %s%s) -> %s" % (o["op"], o.get("marking"), o.get("selectors"),
                                       "".join(", %s=%s" % (k, o[k]) for k in ("inherited", "descendants", "marking_ref", "lang") if k in o), short))
    bad = [w for w, _, _ in oracle_sequence(r["case"], res, cfg)]
    if r.get("kind") == "twins":
        res_b = common.run_impl("c07_impl", [r["case_b"]], procs=1)[0]
        bad += oracle_pair(r["case"], res, r["case_b"], res_b)
    if bad:
        for w in bad[:5]:
            print("  law violated: %s" % w)
        print("VIOLATION property=C07 replay=(given)")
        return 1
    print("no violation on this input")
    return 0
